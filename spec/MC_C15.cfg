CONSTANTS MM = 128 LL = 12
INIT Init
NEXT Next
INVARIANTS PairOK AddOK DurIsModularDistance
CHECK_DEADLOCK FALSE
