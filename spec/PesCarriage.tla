---------------------------- MODULE PesCarriage ----------------------------
(***************************************************************************)
(* A PES packet carried over transport packets of one PID: the composition *)
(* of the payload accumulator (module Accumulator) under the completion    *)
(* predicate "the PES packet is complete" with the PES header decoder      *)
(* (module Pes).  Not one of the listed properties: it grows the           *)
(* specification along the path a demultiplexer takes through the library. *)
(*                                                                         *)
(* PesDone(b): six bytes are gathered, PES_packet_length is not 0          *)
(* (unbounded, ISO/IEC 13818-1 2.4.3.7) and that many bytes follow it.     *)
(* Carry(pkts) folds WriteF over the packets and returns the sequence of   *)
(* results and the final state; a new unit start discards an unfinished    *)
(* unit, a finished one refuses every further packet.                      *)
(***************************************************************************)
EXTENDS Naturals, Sequences, TsHeader
A == INSTANCE Accumulator WITH mode <- "", buf <- <<>>, pkts <- <<>>, last <- ""

PLen(b) == (b[5] * 256) + b[6]
PesDone(b) == Len(b) >= 6 /\ PLen(b) # 0 /\ Len(b) >= 6 + PLen(b)

PayloadOf(p) == IF ~HasPayload(p) THEN <<>>
                ELSE IF HasAF(p) THEN SubSeq(p, 6 + p[5], 188) ELSE SubSeq(p, 5, 188)
Abs(p, i) == [id |-> i, pusi |-> (Get("pusi", p) = 1), haspay |-> HasPayload(p), payload |-> PayloadOf(p)]

\* one WritePacket under the PES predicate: the predicate is evaluated on what the buffer would hold
Write1(s, ap) ==
  LET b1 == (IF ap.pusi THEN <<>> ELSE s.buf) \o ap.payload
      pred == [done |-> IF PesDone(b1) THEN 1 ELSE 0, fail |-> 0]
  IN A!WriteF(s, ap, pred, TRUE)

Fresh == [mode |-> "starting", buf |-> <<>>, pkts |-> <<>>]
RECURSIVE CarryFrom(_, _, _, _)
CarryFrom(pkts, i, s, res) ==
  IF i > Len(pkts) THEN [s |-> s, res |-> res]
  ELSE LET r == Write1(s, Abs(pkts[i], i)) IN
       CarryFrom(pkts, i + 1, [mode |-> r.mode, buf |-> r.buf, pkts |-> r.pkts], Append(res, r.last))
Carry(pkts) == CarryFrom(pkts, 1, Fresh, <<>>)
=============================================================================
