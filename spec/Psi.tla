-------------------------------- MODULE Psi --------------------------------
(***************************************************************************)
(* Program-specific information carriage (ISO/IEC 13818-1 2.4.4): a PSI    *)
(* payload is pointer_field, pointer_field filler bytes, then sections     *)
(* back to back, then 0xFF stuffing.  Section header: table_id 8 |         *)
(* section_syntax_indicator 1 | private_indicator 1 | reserved 2 |         *)
(* section_length 12 (the library reads the low 10 bits: lengths are       *)
(* limited to 1021 for PAT/PMT).                                           *)
(***************************************************************************)
EXTENDS Bits, Crc

\* ---- table header (3 bytes) ----
TableHeaderBytes(tid, ssi, priv, slen) ==
  <<tid, (BoolBit(ssi) * 128) + (BoolBit(priv) * 64) + 48 + ((slen \div 256) % 4), slen % 256>>
ThTableId(b) == b[1]
ThSsi(b)     == b[2] \div 128 = 1
ThPriv(b)    == (b[2] \div 64) % 2 = 1
ThLen(b)     == ((b[2] % 4) * 256) + b[3]

\* a complete section from its body (everything between section_length and CRC_32)
Section(tid, ssi, priv, body) ==
  LET hdr == TableHeaderBytes(tid, ssi, priv, Len(body) + 4)
      pre == hdr \o body
  IN pre \o Crc32(pre)

\* pointer_field n followed by n filler bytes
Pointer(n) == <<n>> \o Rep(255, n)

\* ---- accessors on a payload (pointer_field first) ----
PointerField(p) == p[1]
SectionStart(p) == 2 + p[1]                       \* 1-based index of table_id of the first section
PTableId(p) == p[SectionStart(p)]
PSsi(p)     == p[SectionStart(p) + 1] \div 128 = 1
PPriv(p)    == (p[SectionStart(p) + 1] \div 64) % 2 = 1
PSecLen(p)  == ((p[SectionStart(p) + 1] % 4) * 256) + p[SectionStart(p) + 2]

(***************************************************************************)
(* Accumulation-complete predicate (property C06).  Done(b) for a prefix b *)
(* of the payload bytes accumulated so far: false until at least one byte  *)
(* of the first section is present; false while the section being          *)
(* announced is incomplete (including when only one or two bytes of its    *)
(* header are present); true when the walk reaches a 0xFF byte or the end  *)
(* of the data after at least one complete section.                        *)
(***************************************************************************)
RECURSIVE Walk(_, _)
Walk(s, n) == IF s = <<>> THEN n >= 1
              ELSE IF s[1] = 255 THEN TRUE
              ELSE IF Len(s) < 3 THEN FALSE
              ELSE IF Len(s) < 3 + ThLen(s) THEN FALSE
              ELSE Walk(SubSeq(s, 4 + ThLen(s), Len(s)), n + 1)
Done(b) == /\ Len(b) >= 1 /\ Len(b) >= 2 + b[1]
           /\ Walk(SubSeq(b, 2 + b[1], Len(b)), 0)
=============================================================================
