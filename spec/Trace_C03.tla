----------------------------- MODULE Trace_C03 -----------------------------
(***************************************************************************)
(* Trace validation for C03: every adaptation-field setter call on a real  *)
(* packet, with all 188 bytes before and after, the error class and every  *)
(* getter of both accessor families read after the call.  Each line is     *)
(* validated as an independent transition of AdaptationField!Apply from    *)
(* the parsed `before` (the full state is observable).  A line whose       *)
(* `before` is not a canonical well-formed packet (only possible after an  *)
(* earlier rejected line of the same history) is skipped.                  *)
(***************************************************************************)
EXTENDS TraceBase, TsPacket, Timecodes

Usable(p) == Len(p) = 188 /\ HasAF(p) /\ AfLen(p) >= 1 /\ AfLen(p) <= 183
             /\ (HasPayload(p) => AfLen(p) <= 182) /\ Canonical(AfBytes(p))

\* the argument as the spec sees it
SpecArg(e) == CASE e.op \in {"SetPCR", "SetOPCR"} -> EncPCR(e.arg)
                [] e.op = "SetAdaptationField" -> AfOf(e.arg)
                [] OTHER -> e.arg
\* the observed value of a newly present field (binds the unspecified value)
NewVal(e, a2) == CASE e.op = "SetHasPCR" -> (IF a2.haspcr THEN a2.pcr ELSE <<>>)
                   [] e.op = "SetHasOPCR" -> (IF a2.hasopcr THEN a2.opcr ELSE <<>>)
                   [] e.op = "SetHasSplicingPoint" -> a2.splice
                   [] OTHER -> 0

FirstDiff(x, y) ==
  IF x.disc # y.disc \/ x.rai # y.rai \/ x.espi # y.espi THEN "flags"
  ELSE IF x.haspcr # y.haspcr \/ x.pcr # y.pcr THEN "pcr"
  ELSE IF x.hasopcr # y.hasopcr \/ x.opcr # y.opcr THEN "opcr"
  ELSE IF x.hassplice # y.hassplice \/ x.splice # y.splice THEN "splice"
  ELSE IF x.hastpd # y.hastpd \/ x.tpd # y.tpd THEN "tpd"
  ELSE IF x.hasafe # y.hasafe \/ x.afe # y.afe THEN "afe"
  ELSE "len"

\* every getter disagreement, independently (a defect in one getter must not hide another)
GetterFailures(g, a) ==
  LET T(c, name) == IF c THEN <<name>> ELSE <<>> IN
     T(g.m_len # a.len \/ g.f_len # a.len, "get-length")
  \o T(g.m_disc # a.disc \/ g.f_disc # a.disc, "get-discontinuity")
  \o T(g.m_rai # a.rai \/ g.f_rai # a.rai, "get-random-access")
  \o T(g.m_espi # a.espi \/ g.f_espi # a.espi, "get-es-priority")
  \o T(g.m_haspcr # a.haspcr \/ g.f_haspcr # a.haspcr, "get-haspcr")
  \o T(g.m_hasopcr # a.hasopcr \/ g.f_hasopcr # a.hasopcr, "get-hasopcr")
  \o T(g.m_hassplice # a.hassplice \/ g.f_hassplice # a.hassplice, "get-hassplice")
  \o T(g.m_hastpd # a.hastpd \/ g.f_hastpd # a.hastpd, "get-hastpd")
  \o T(g.m_hasafe # a.hasafe \/ g.f_hasafe # a.hasafe, "get-hasafe")
  \o T(g.m_pcr_err # ~a.haspcr \/ g.f_pcr_err # ~a.haspcr, "get-pcr-error")
  \o T(a.haspcr /\ g.m_pcr # DecPCR(a.pcr), "get-pcr-method")
  \o T(a.haspcr /\ g.f_pcr # a.pcr, "get-pcr-function")
  \o T(g.m_opcr_err # ~a.hasopcr \/ g.f_opcr_err # ~a.hasopcr, "get-opcr-error")
  \o T(a.hasopcr /\ g.m_opcr # DecPCR(a.opcr), "get-opcr-method")
  \o T(a.hasopcr /\ g.f_opcr # a.opcr, "get-opcr-function")
  \o T(g.m_splice_err # ~a.hassplice \/ g.f_splice_err # ~a.hassplice, "get-splice-error")
  \o T(a.hassplice /\ (g.m_splice # a.splice \/ g.f_splice # a.splice), "get-splice")
  \o T(g.m_tpd_err # ~a.hastpd \/ g.f_tpd_err # ~a.hastpd, "get-tpd-error")
  \o T(a.hastpd /\ g.f_tpd # a.tpd, "get-tpd-function")
  \o T(a.hastpd /\ g.m_tpd # a.tpd /\ g.m_tpd = <<Len(a.tpd)>> \o a.tpd, "get-tpd-method-returns-length-byte-plus-data")
  \o T(a.hastpd /\ g.m_tpd # a.tpd /\ g.m_tpd # <<Len(a.tpd)>> \o a.tpd, "get-tpd-method")
  \o T(g.m_afe_err # ~a.hasafe, "get-afe-error")
  \o T(a.hasafe /\ g.m_afe # a.afe /\ g.m_afe = <<Len(a.afe)>> \o a.afe, "get-afe-method-returns-length-byte-plus-data")
  \o T(a.hasafe /\ g.m_afe # a.afe /\ g.m_afe # <<Len(a.afe)>> \o a.afe, "get-afe-method")

Verdict(e) ==
  IF ~Usable(e.before) THEN <<"skip">>
  ELSE IF e.panic # "" THEN <<"panic">>
  ELSE LET b == e.before  c == e.after  a == AfOf(b)  n == AfLen(b) IN
  IF Len(c) # 188 THEN <<"harness-bad-length">>
  ELSE IF SubSeq(c, 1, 4) # SubSeq(b, 1, 4) THEN <<"header-changed">>
  ELSE IF c[5] # b[5] THEN <<"length-byte-changed">>
  ELSE IF SubSeq(c, 6 + n, 188) # SubSeq(b, 6 + n, 188) THEN <<"payload-changed">>
  ELSE IF e.op = "SetAdaptationField" /\ ~Usable(e.arg) THEN <<"harness-bad-source">>
  ELSE LET ps == Parse(AfBytes(c)) IN
  IF ~ps.ok THEN <<"after-does-not-parse">>
  ELSE LET a2 == ps.a
           r  == Apply(a, e.op, SpecArg(e), NewVal(e, a2))
           isErr == e.err # "nil" IN
  IF r.err /\ ~isErr THEN <<"error-expected-" \o e.op>>
  ELSE IF ~r.err /\ isErr THEN <<"unexpected-error-" \o e.op>>
  ELSE IF isErr /\ c # b THEN <<"error-but-packet-modified-" \o e.op>>
  ELSE IF ~isErr /\ a2 # r.a THEN <<"wrong-" \o FirstDiff(a2, r.a) \o "-after-" \o e.op>>
  ELSE IF AfBytes(c) # Ser(a2) THEN <<"stuffing-not-ff-after-" \o e.op>>
  ELSE GetterFailures(e.get, a2)

Init == l = 1
Next == /\ l <= Len(Trace) /\ l' = l + 1
        /\ LET v == Verdict(Trace[l]) IN IF v = <<"skip">> THEN PrintT("SKIP " \o ToString(l)) ELSE ReportAll(l, v)
=============================================================================
