------------------------------ MODULE Sim_C17 ------------------------------
(***************************************************************************)
(* B2 for C17: TLC simulates behaviours of the accumulator specification   *)
(* and prints every call with the expected result class, accumulated bytes *)
(* and held packet ids; the harness replays them on a real accumulator     *)
(* (abstract payloads become real 188-byte packets with adaptation-field   *)
(* stuffing).  Where the specification leaves a choice open (listing of a  *)
(* packet rejected for lack of payload) the harness compares modulo it.    *)
(***************************************************************************)
EXTENDS MC_C17, Json
VARIABLE shist
simvars == <<mode, buf, pkts, last, hist, pred, shist>>
SimInit == Init /\ shist = <<>>
SimNext == /\ Len(hist) < Depth
           /\ \/ \E p \in Packets(Len(hist) + 1), keep \in BOOLEAN :
                   /\ Write(p, pred, keep) /\ hist' = Append(hist, [op |-> "write", p |-> p, res |-> last'])
                   /\ shist' = Append(shist, [op |-> "write", p |-> p, res |-> last', buf |-> buf', pkts |-> pkts'])
              \/ /\ Reset /\ hist' = Append(hist, [op |-> "reset", res |-> "reset"])
                 /\ shist' = Append(shist, [op |-> "reset", p |-> [id |-> 0, pusi |-> FALSE, haspay |-> FALSE, payload |-> <<>>], res |-> "reset", buf |-> <<>>, pkts |-> <<>>])
           /\ UNCHANGED pred
SimSpec == SimInit /\ [][SimNext]_simvars
Emit == Len(hist) = Depth => PrintT("TAB " \o ToJson([pred |-> pred, steps |-> shist]))
=============================================================================
