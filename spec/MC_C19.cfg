CONSTANT T = {16, 17, 19, 20, 52, 53, 54, 64, 0}
INIT Init
NEXT Next
INVARIANTS Symmetric Reflexive Transitive Congruence
CHECK_DEADLOCK FALSE
