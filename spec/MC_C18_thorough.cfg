CONSTANTS PS = 3 MaxBytes = 10 MaxChunk = 5 MaxFail = 3
SPECIFICATION Spec
INVARIANTS Refines Terminates
CHECK_DEADLOCK FALSE
