----------------------------- MODULE Trace_C12 -----------------------------
(* Trace validation for C12: EBP decode / re-encode / builder / time round trip against Ebp *)
EXTENDS TraceBase, Ebp
GettersVs(g, p) ==
  IF g.type # p.tag THEN "type"
  ELSE IF g.isempty THEN "is-empty"
  ELSE IF g.frag # p.fragment THEN "fragment-flag"
  ELSE IF g.seg # p.segment THEN "segment-flag"
  ELSE IF g.sapflag # p.sapflag THEN "sap-flag"
  ELSE IF g.grouping # p.grouping THEN "grouping-flag"
  ELSE IF g.timeflag # p.timeflag THEN "time-flag"
  ELSE IF g.extflag # p.extflag THEN "extension-flag"
  ELSE IF g.disc # p.disc THEN "discontinuity-or-concealment-flag"
  ELSE IF p.cablelabs /\ g.partition # p.partition THEN "partition-flag"
  ELSE IF p.sapflag /\ g.sap # p.sap THEN "sap-type"
  ELSE IF g.sync # StreamSync(p) THEN "stream-sync-signal"
  ELSE IF p.timeflag /\ g.t_secs # Secs1900(p.seconds) THEN "time-seconds"
  ELSE IF p.timeflag /\ g.t_ns # Nanos(p.fraction) THEN "time-nanoseconds"
  ELSE ""
DecodeVerdict(e) ==
  LET p == Parse(e.bytes) IN
  IF ~p.ok THEN (IF e.lenient THEN "" ELSE "harness-not-wellformed")   \* fuzzer-chosen bytes need not be an EBP at all
  ELSE IF e.err THEN "wellformed-ebp-rejected"
  ELSE IF GettersVs(e.g, p) # "" THEN "decode-" \o GettersVs(e.g, p)
  ELSE IF e.redata # e.bytes THEN "reencode-differs"
  ELSE IF e.g_again # e.g \/ e.redata2 # e.redata THEN "encoding-changed-the-object"
  ELSE IF ~e.input_same THEN "input-modified"
  ELSE ""
\* the value of the last call of setter f in the builder history (<<>> if never called)
RECURSIVE LastArg(_, _, _)
LastArg(calls, f, i) == IF i = 0 THEN <<>> ELSE IF calls[i].f = f THEN <<calls[i]>> ELSE LastArg(calls, f, i - 1)
\* a flag whose most recent setter call was (true) must read true afterwards (the API cannot clear a flag; what a
\* call with false does is not constrained)
FlagSet(calls, f) == LET c == LastArg(calls, f, Len(calls)) IN c # <<>> /\ c[1].b
\* the extension flag must already be set when the partition flag is requested (as the API documents by its guard)
PartitionRequested(calls) ==
  LET p == LastArg(calls, "SetPartitionFlag", Len(calls)) IN
  p # <<>> /\ p[1].b /\ \E i \in 1..Len(calls) : calls[i].f = "SetExtensionFlag" /\ calls[i].b
                              /\ \E j \in (i + 1)..Len(calls) : calls[j].f = "SetPartitionFlag" /\ calls[j].b
EverTrue(calls, f) == \E i \in 1..Len(calls) : calls[i].f = f /\ calls[i].b
IntendedNotReflected(e) ==
  LET c == e.calls  g == e.g1 IN
  \* a freshly created EBP has no flag set: a flag that reads true must have been requested at some point
  IF (g.frag /\ ~EverTrue(c, "SetFragmentFlag")) \/ (g.seg /\ ~EverTrue(c, "SetSegmentFlag")) \/ (g.sapflag /\ ~EverTrue(c, "SetSapFlag"))
     \/ (g.grouping /\ ~EverTrue(c, "SetGroupingFlag")) \/ (g.timeflag /\ ~EverTrue(c, "SetTimeFlag")) \/ (g.extflag /\ ~EverTrue(c, "SetExtensionFlag"))
     \/ (g.disc /\ ~EverTrue(c, "SetDiscOrConcealment")) \/ (g.partition /\ ~EverTrue(c, "SetPartitionFlag")) THEN "flag-set-without-request"
  ELSE IF FlagSet(c, "SetFragmentFlag") /\ ~g.frag THEN "fragment-flag"
  ELSE IF FlagSet(c, "SetSegmentFlag") /\ ~g.seg THEN "segment-flag"
  ELSE IF FlagSet(c, "SetSapFlag") /\ ~g.sapflag THEN "sap-flag"
  ELSE IF FlagSet(c, "SetGroupingFlag") /\ ~g.grouping THEN "grouping-flag"
  ELSE IF FlagSet(c, "SetTimeFlag") /\ ~g.timeflag THEN "time-flag"
  ELSE IF FlagSet(c, "SetExtensionFlag") /\ ~g.extflag THEN "extension-flag"
  ELSE IF FlagSet(c, "SetDiscOrConcealment") /\ ~g.disc THEN "discontinuity-or-concealment-flag"
  ELSE IF e.cablelabs /\ PartitionRequested(c) /\ ~g.partition THEN "partition-flag"
  ELSE IF LastArg(c, "SetSap", Len(c)) # <<>> /\ g.sap # LastArg(c, "SetSap", Len(c))[1].v THEN "sap-type"
  ELSE IF LastArg(c, "SetEBPTime", Len(c)) # <<>>
          /\ ~Within1ns(TotalNs(LastArg(c, "SetEBPTime", Len(c))[1].secs, LastArg(c, "SetEBPTime", Len(c))[1].ns), TotalNs(g.t_secs, g.t_ns)) THEN "time"
  ELSE ""
BuildVerdict(e) ==
  LET b == e.bytes IN
  IF Len(b) < 3 THEN "build-too-short"
  ELSE IF b[2] # Len(b) - 2 THEN "build-length-byte"
  ELSE IF e.g1_again # e.g1 \/ e.bytes_again # b THEN "build-encoding-changed-the-object"
  ELSE IF IntendedNotReflected(e) # "" THEN "build-setter-not-reflected-" \o IntendedNotReflected(e)
  ELSE LET p == Parse(b)
           lg == LastArg(e.calls, "Grouping", Len(e.calls))
           \* the ids the builder gave last (the Comcast flavour carries one id; a raised flag without ids gets the id 5 from the harness)
           want == IF lg = <<>> \/ Len(lg[1].ids) = 0 THEN <<5>> ELSE IF e.cablelabs THEN lg[1].ids ELSE <<lg[1].ids[1]>>
       IN
  IF ~p.ok THEN "build-not-wellformed"
  ELSE IF p.grouping /\ p.groups # want THEN "build-grouping-ids-are-not-the-ones-given"
  ELSE IF e.err2 THEN "build-own-encoding-rejected"
  ELSE IF GettersVs(e.g2, p) # "" THEN "build-decode-" \o GettersVs(e.g2, p)
  ELSE IF e.g1.frag # e.g2.frag \/ e.g1.seg # e.g2.seg \/ e.g1.sapflag # e.g2.sapflag \/ e.g1.grouping # e.g2.grouping
          \/ e.g1.timeflag # e.g2.timeflag \/ e.g1.extflag # e.g2.extflag \/ e.g1.disc # e.g2.disc
          \/ e.g1.partition # e.g2.partition THEN "build-flags-not-preserved"
  ELSE IF e.g1.sapflag /\ e.g1.sap # e.g2.sap THEN "build-sap-not-preserved"
  ELSE IF e.g1.grouping /\ e.g1.sync # e.g2.sync THEN "build-sync-not-preserved"
  ELSE IF e.g1.timeflag /\ (e.g1.t_secs # e.g2.t_secs \/ e.g1.t_ns # e.g2.t_ns) THEN "build-time-not-preserved"
  ELSE ""
TimeVerdict(e) ==
  IF ~(WLe(RangeLo, e.t_secs) /\ WLt(e.t_secs, RangeHi) /\ e.t_ns < 1000000000) THEN "harness-bad-input"
  ELSE IF ~Within1ns(TotalNs(e.t_secs, e.t_ns), TotalNs(e.back_secs, e.back_ns)) THEN "time-round-trip-off-by-more-than-1ns"
  ELSE IF e.back_secs # Secs1900(e.sec32) \/ e.back_ns # Nanos(e.frac32) THEN "time-extraction"
  ELSE ""
Verdict(e) == IF e.panic # "" THEN "panic"
  ELSE IF ~e.earlier_same THEN "object-returned-earlier-reads-differently-after-a-later-call"
              ELSE IF e.op = "decode" THEN DecodeVerdict(e)
              ELSE IF e.op = "build" THEN BuildVerdict(e)
              ELSE IF e.op = "time" THEN TimeVerdict(e)
              ELSE "harness-unknown-op"
Init == l = 1
Next == /\ l <= Len(Trace) /\ l' = l + 1
        /\ Report(l, Verdict(Trace[l]))
=============================================================================
