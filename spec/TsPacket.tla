------------------------------ MODULE TsPacket ------------------------------
(***************************************************************************)
(* A whole 188-byte transport packet: header (TsHeader), adaptation field  *)
(* (AdaptationField) and payload, and the partition between them           *)
(* (ISO/IEC 13818-1 2.4.3.2-2.4.3.5; properties C02, C03, C17).            *)
(***************************************************************************)
EXTENDS TsHeader, AdaptationField

AfLen(p) == p[5]
\* number of bytes in front of the payload: 4, or 4 + 1 + adaptation_field_length
HeaderLen(p) == IF HasAF(p) THEN 5 + AfLen(p) ELSE 4
\* the 1 + len bytes of the adaptation field (packet must carry one, len <= 183)
AfBytes(p) == SubSeq(p, 5, 5 + AfLen(p))
HeaderPart(p)  == SubSeq(p, 1, HeaderLen(p))
PayloadPart(p) == SubSeq(p, HeaderLen(p) + 1, PacketSize)

\* well-formedness of a packet as far as the partition is concerned
WF(p) == /\ Len(p) = PacketSize /\ Get("afc", p) # 0
         /\ HasAF(p) => /\ (IF HasPayload(p) THEN AfLen(p) <= 182 ELSE AfLen(p) = 183)
                        /\ (AfLen(p) >= 1 => Canonical(AfBytes(p)))
\* the degenerate "AFC = 11, adaptation_field_length 183, empty payload" is admitted where stated
WFLoose(p) == /\ Len(p) = PacketSize /\ Get("afc", p) # 0
              /\ HasAF(p) => /\ AfLen(p) <= 183
                             /\ (AfLen(p) >= 1 => Canonical(AfBytes(p)))

\* logical adaptation field of a packet (AfLen >= 1)
AfOf(p) == Parse(AfBytes(p)).a

\* bytes of the adaptation field that are not stuffing: length byte + content
AfContentBytes(p) == IF ~HasAF(p) THEN 0 ELSE IF AfLen(p) = 0 THEN 1 ELSE 1 + Content(AfOf(p))
\* payload capacity: 188 - 4 header bytes - non-stuffing adaptation field content
Capacity(p) == PacketSize - 4 - AfContentBytes(p)

(***************************************************************************)
(* SetPayload (method form), property C02.  The packet keeps its header    *)
(* fields and every adaptation-field flag and optional field; the          *)
(* adaptation field is resized (created if need be, which turns            *)
(* adaptation_field_control 01 into 11) so that the payload is exactly the *)
(* first min(Len(d), Capacity) bytes of d; all remaining room is 0xFF      *)
(* stuffing.  Refused, packet untouched, on an adaptation-field-only       *)
(* packet.                                                                 *)
(***************************************************************************)
\* the adaptation field bytes (length byte included) for a payload of k bytes
ResizedAf(p, k) ==
  LET n == 183 - k IN                      \* new adaptation_field_length
  IF HasAF(p) /\ AfLen(p) >= 1 THEN Ser([AfOf(p) EXCEPT !.len = n])
  ELSE IF n = 0 THEN <<0>>                 \* only the length byte
  ELSE Ser(Blank(n))                       \* a fresh field: no flags, all stuffing
ExpectSetPayload(p, d) ==
  IF Get("afc", p) = 2 THEN [pkt |-> p, n |-> 0, err |-> TRUE]
  ELSE LET k == Min(Len(d), Capacity(p)) IN
       IF ~HasAF(p) /\ k = 184
       THEN [pkt |-> SubSeq(p, 1, 4) \o SubSeq(d, 1, 184), n |-> 184, err |-> FALSE]
       ELSE [pkt |-> SubSeq(Set("afc", p, 3), 1, 4) \o ResizedAf(p, k) \o SubSeq(d, 1, k), n |-> k, err |-> FALSE]

\* package-level SetPayload(pkt, pay): overwrite the payload area in place, return the count
ExpectSetPayloadFn(p, d) ==
  LET k == Min(Len(d), PacketSize - HeaderLen(p)) IN
  [pkt |-> SubSeq(p, 1, HeaderLen(p)) \o SubSeq(d, 1, k) \o SubSeq(p, HeaderLen(p) + k + 1, PacketSize), n |-> k]

(***************************************************************************)
(* SetAdaptationFieldControl (spec growth, not one of the given            *)
(* properties; modelled as the library has it and named as such):          *)
(*  - the two control bits take the new value;                             *)
(*  - a packet that gains an adaptation field gets a blank one that fills  *)
(*    the packet (length 183, no flags, 0xFF stuffing) - its previous      *)
(*    payload bytes are overwritten;                                       *)
(*  - with value 11 a field of length 183 that still has stuffing is       *)
(*    shortened to 182 so that one payload byte exists; a completely full  *)
(*    field cannot shrink: error (the control bits stay changed).          *)
(***************************************************************************)
ExpectSetAfc(p, v) ==
  LET q   == Set("afc", p, v)
      q1  == IF ~HasAF(p) /\ v \in {2, 3} THEN SubSeq(q, 1, 4) \o Ser(Blank(183)) ELSE q IN
  IF v = 3 /\ q1[5] = 183 THEN
       IF Canonical(AfBytes(q1)) /\ Content(AfOf(q1)) < 183
       THEN [pkt |-> SubSeq(q1, 1, 4) \o Ser([AfOf(q1) EXCEPT !.len = 182]) \o <<255>>, err |-> FALSE]
       ELSE [pkt |-> q1, err |-> TRUE]
  ELSE [pkt |-> q1, err |-> FALSE]
=============================================================================
