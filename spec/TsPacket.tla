------------------------------ MODULE TsPacket ------------------------------
(***************************************************************************)
(* A whole 188-byte transport packet: header (TsHeader), adaptation field  *)
(* (AdaptationField) and payload, and the partition between them           *)
(* (ISO/IEC 13818-1 2.4.3.2-2.4.3.5; properties C02, C03, C17).            *)
(***************************************************************************)
EXTENDS TsHeader, AdaptationField

AfLen(p) == p[5]
\* number of bytes in front of the payload: 4, or 4 + 1 + adaptation_field_length
HeaderLen(p) == IF HasAF(p) THEN 5 + AfLen(p) ELSE 4
\* the 1 + len bytes of the adaptation field (packet must carry one, len <= 183)
AfBytes(p) == SubSeq(p, 5, 5 + AfLen(p))
HeaderPart(p)  == SubSeq(p, 1, HeaderLen(p))
PayloadPart(p) == SubSeq(p, HeaderLen(p) + 1, PacketSize)

\* well-formedness of a packet as far as the partition is concerned
WF(p) == /\ Len(p) = PacketSize /\ Get("afc", p) # 0
         /\ HasAF(p) => /\ (IF HasPayload(p) THEN AfLen(p) <= 182 ELSE AfLen(p) = 183)
                        /\ (AfLen(p) >= 1 => Canonical(AfBytes(p)))
\* the degenerate "AFC = 11, adaptation_field_length 183, empty payload" is admitted where stated
WFLoose(p) == /\ Len(p) = PacketSize /\ Get("afc", p) # 0
              /\ HasAF(p) => /\ AfLen(p) <= 183
                             /\ (AfLen(p) >= 1 => Canonical(AfBytes(p)))

\* logical adaptation field of a packet (AfLen >= 1)
AfOf(p) == Parse(AfBytes(p)).a

\* bytes of the adaptation field that are not stuffing: length byte + content
AfContentBytes(p) == IF ~HasAF(p) THEN 0 ELSE IF AfLen(p) = 0 THEN 1 ELSE 1 + Content(AfOf(p))
\* payload capacity: 188 - 4 header bytes - non-stuffing adaptation field content
Capacity(p) == PacketSize - 4 - AfContentBytes(p)
=============================================================================
