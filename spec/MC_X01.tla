------------------------------- MODULE MC_X01 -------------------------------
(***************************************************************************)
(* Design-level check of the ReadPMT loop (psi/pmt.go) as a state machine  *)
(* built on Accumulator!WriteF, against a declarative reading of what it   *)
(* must return for a stream of abstract packets                            *)
(*      [pid, pusi, len]   (payload of len bytes, every packet has one)    *)
(* with the completion predicate abstracted to "at least Need bytes" and   *)
(* a table counted as empty (no streams: skipped, the search goes on) when *)
(* its unit started with a packet flagged `empty`.                         *)
(*                                                                         *)
(* The loop, as the library has it: packets of other PIDs are skipped; a   *)
(* packet of the PMT PID is written to the accumulator; an error of the    *)
(* accumulator (no unit start yet) ends the call with that error - this is *)
(* the behaviour listed as known finding X01; completion parses the table; *)
(* an empty table restarts with a fresh accumulator; end of stream without *)
(* completion is "notfound".                                               *)
(*                                                                         *)
(* Declarative reading (Expected): look at the PMT-PID packets only.  If   *)
(* the first one is not a unit start: "nopusi-error".  Otherwise cut them  *)
(* into units at unit starts; a unit completes when its accumulated length *)
(* reaches Need before the next unit start; after a completed empty unit   *)
(* the same rule applies to what follows it (including the error case).    *)
(* The result is the index (in the whole stream) of the packet at which    *)
(* the first completed non-empty unit completes, or "notfound".            *)
(***************************************************************************)
EXTENDS Naturals, Sequences, TLC
CONSTANTS MaxLen, Need
A == INSTANCE Accumulator WITH mode <- "starting", buf <- <<>>, pkts <- <<>>, last <- "reset"
Pkt == [pid : {1, 2}, pusi : BOOLEAN, len : {1, 2}, empty : BOOLEAN]
VARIABLES stream, building, i, acc, first, res
vars == <<stream, building, i, acc, first, res>>
Fresh == [mode |-> "starting", buf |-> <<>>, pkts |-> <<>>]
Init == stream = <<>> /\ building = TRUE /\ i = 1 /\ acc = Fresh /\ first = FALSE /\ res = [k |-> "running", at |-> 0]
Build == /\ building
         /\ \/ (Len(stream) < MaxLen /\ \E p \in Pkt : (p.empty => p.pusi) /\ stream' = Append(stream, p) /\ UNCHANGED <<building, i, acc, first, res>>)
            \/ (building' = FALSE /\ UNCHANGED <<stream, i, acc, first, res>>)
\* one iteration of the loop; `first` remembers whether the unit being accumulated started with an `empty` packet
Step == /\ ~building /\ res.k = "running"
        /\ IF i > Len(stream) THEN res' = [k |-> "notfound", at |-> 0] /\ UNCHANGED <<i, acc, first>>
           ELSE LET p == stream[i] IN
                IF p.pid # 1 THEN i' = i + 1 /\ UNCHANGED <<acc, first, res>>
                ELSE LET r == A!WriteF(acc, [id |-> i, pusi |-> p.pusi, haspay |-> TRUE, payload |-> [k \in 1..p.len |-> 0]],
                                       [done |-> Need, fail |-> 0], TRUE)
                         f == IF p.pusi THEN p.empty ELSE first IN
                     IF r.last = "nopusi" THEN res' = [k |-> "nopusi-error", at |-> 0] /\ UNCHANGED <<i, acc, first>>
                     ELSE IF r.last = "done" THEN
                          IF f THEN i' = i + 1 /\ acc' = Fresh /\ first' = FALSE /\ UNCHANGED res     \* empty table: go on with a new accumulator
                          ELSE res' = [k |-> "found", at |-> i] /\ UNCHANGED <<i, acc, first>>
                     ELSE i' = i + 1 /\ acc' = [mode |-> r.mode, buf |-> r.buf, pkts |-> r.pkts] /\ first' = f /\ UNCHANGED res
        /\ UNCHANGED <<stream, building>>
Next == Build \/ Step
Spec == Init /\ [][Next]_vars

\* ---- declarative reading ----
Mine(s) == { k \in 1..Len(s) : s[k].pid = 1 }
RECURSIVE ExpectedFrom(_, _)
\* the result for the PMT-PID packets with index >= from
ExpectedFrom(s, from) ==
  LET m == { k \in Mine(s) : k >= from } IN
  IF m = {} THEN [k |-> "notfound", at |-> 0]
  ELSE LET k0 == CHOOSE k \in m : \A j \in m : k <= j IN
       IF ~s[k0].pusi THEN [k |-> "nopusi-error", at |-> 0]
       ELSE LET nexts == { k \in m : k > k0 /\ s[k].pusi }
                stop  == IF nexts = {} THEN Len(s) + 1 ELSE CHOOSE k \in nexts : \A j \in nexts : k <= j
                unit  == { k \in m : k >= k0 /\ k < stop }
                \* accumulated length after each packet of the unit
                LenUpTo(k) == LET ks == { j \in unit : j <= k } IN
                              IF ks = {} THEN 0 ELSE
                              LET RECURSIVE Sum(_)
                                  Sum(S) == IF S = {} THEN 0 ELSE LET x == CHOOSE y \in S : TRUE IN s[x].len + Sum(S \ {x})
                              IN Sum(ks)
                done  == { k \in unit : LenUpTo(k) >= Need }
           IN IF done = {} THEN (IF stop > Len(s) THEN [k |-> "notfound", at |-> 0] ELSE ExpectedFrom(s, stop))
              ELSE LET kd == CHOOSE k \in done : \A j \in done : k <= j IN
                   IF s[k0].empty THEN ExpectedFrom(s, kd + 1) ELSE [k |-> "found", at |-> kd]
Expected(s) == ExpectedFrom(s, 1)

Refines == (~building /\ res.k # "running") => res = Expected(stream)
Terminates == (~building /\ ~ENABLED Step) => res.k # "running"
=============================================================================
