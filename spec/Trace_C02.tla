----------------------------- MODULE Trace_C02 -----------------------------
(***************************************************************************)
(* Trace validation for C02: header/payload partition accessors, method    *)
(* and package-level SetPayload, and the packet creation helpers, against  *)
(* TsPacket.  `before` packets are generated well-formed; the spec checks  *)
(* that itself (a packet that is not is a harness error).                  *)
(***************************************************************************)
EXTENDS TraceBase, TsPacket

PartsVerdict(e) ==
  LET p == e.pkt IN
  IF ~WFLoose(p) THEN "harness-not-wellformed"
  ELSE IF e.hdr # HeaderPart(p) THEN "header-accessor"
  ELSE IF ~e.pkt_same THEN "accessor-modified-packet"
  ELSE IF HasPayload(p) THEN
       IF e.pay_fn_err \/ e.pay_m_err THEN "payload-error-on-payload-packet"
       ELSE IF e.pay_fn # PayloadPart(p) THEN "payload-function"
       ELSE IF e.pay_m # PayloadPart(p) THEN "payload-method"
       ELSE IF ~e.m_copy_indep THEN "payload-method-not-a-copy"
       ELSE ""
  ELSE IF ~e.pay_fn_err \/ ~e.pay_m_err THEN "payload-without-payload-flag-not-an-error"
  ELSE ""

SetPayloadVerdict(e) ==
  LET b == e.before  x == ExpectSetPayload(b, e.data) IN
  IF ~WFLoose(b) THEN (IF e.chain THEN "chained-setpayload-on-a-packet-the-previous-call-left-ill-formed" ELSE "harness-not-wellformed")
  ELSE IF x.err THEN
       IF e.err = "nil" THEN "setpayload-on-af-only-not-refused"
       ELSE IF e.after # b THEN "setpayload-refused-but-modified"
       ELSE ""
  ELSE IF e.err # "nil" THEN "setpayload-unexpected-error"
  ELSE IF e.n # x.n THEN "setpayload-count"
  ELSE IF Len(e.after) # 188 THEN "harness-bad-length"
  ELSE IF e.readback_err \/ e.readback # SubSeq(e.data, 1, x.n) THEN "setpayload-readback"
  ELSE IF \E f \in FieldNames \ {"afc"} : Get(f, e.after) # Get(f, b) THEN "setpayload-header-fields"
  ELSE IF SubSeq(e.after, 1, 4) # SubSeq(x.pkt, 1, 4) THEN "setpayload-afc"
  ELSE IF HasAF(b) /\ AfLen(b) >= 1 /\ HasAF(e.after) /\ e.after[5] = x.pkt[5] /\ ~Parse(AfBytes(e.after)).ok THEN "setpayload-af-unparsable"
  ELSE IF HasAF(b) /\ AfLen(b) >= 1 /\ HasAF(e.after) /\ e.after[5] = x.pkt[5]
          /\ [Parse(AfBytes(e.after)).a EXCEPT !.len = 0] # [AfOf(b) EXCEPT !.len = 0] THEN "setpayload-af-fields-lost"
  ELSE IF e.after # x.pkt THEN "setpayload-stuffing"
  ELSE ""

SetPayloadFnVerdict(e) ==
  LET b == e.before  x == ExpectSetPayloadFn(b, e.data) IN
  IF ~WFLoose(b) THEN "harness-not-wellformed"
  ELSE IF e.n # x.n THEN "setpayloadfn-count"
  ELSE IF e.after # x.pkt THEN "setpayloadfn-bytes"
  ELSE ""

\* creation helpers: only the fields the property names
CreateVerdict(e) ==
  LET p == e.pkt IN
  IF Len(p) # 188 THEN "harness-bad-length"
  ELSE IF ~e.opts_list_same THEN "create-wrote-into-the-callers-option-list"
  ELSE IF Get("sync", p) # 71 THEN "create-sync"
  ELSE IF Get("pid", p) # e.pid THEN "create-pid"
  ELSE IF e.kind # "Create" /\ Get("cc", p) # e.cc THEN "create-cc"
  ELSE IF e.kind = "Create" /\ HasPayload(p) # ((e.opts % 2) = 1) THEN "create-payload-flag"
  ELSE IF e.kind = "Create" /\ (Get("pusi", p) = 1) # (((e.opts \div 2) % 2) = 1) THEN "create-pusi"
  ELSE IF e.kind = "Create" /\ HasAF(p) # (((e.opts \div 4) % 2) = 1) THEN "create-adaptation-field-flag"
  ELSE IF e.kind = "Create" /\ (Get("tei", p) # 0 \/ Get("tp", p) # 0 \/ Get("tsc", p) # 0) THEN "create-unrequested-flag"
  ELSE IF e.kind = "CreateTestPacket" /\ (Get("pusi", p) = 1) # e.pusi THEN "create-pusi"
  ELSE IF e.kind = "CreateTestPacket" /\ HasPayload(p) # e.haspay THEN "create-payload-flag"
  ELSE IF e.kind \in {"CreateDCPacket", "CreatePacketWithPayload"} /\ ~HasPayload(p) THEN "create-payload-flag"
  ELSE IF e.kind = "CreatePacketWithPayload"
          /\ SubSeq(PayloadPart(p), 1, Min(Len(e.pay), Len(PayloadPart(p)))) # SubSeq(e.pay, 1, Min(Len(e.pay), Len(PayloadPart(p))))
       THEN "create-payload"
  ELSE IF e.kind = "CreatePacketWithPayload" /\ Len(PayloadPart(p)) < Min(Len(e.pay), 184) THEN "create-payload-room"
  ELSE IF e.kind = "New" /\ ~(IsNull(p) /\ HasPayload(p) /\ ~HasAF(p)) THEN "create-new"
  ELSE ""

Verdict(e) == IF e.panic # "" THEN "panic"
              ELSE IF e.op = "parts" THEN PartsVerdict(e)
              ELSE IF e.op = "setpayload" THEN SetPayloadVerdict(e)
              ELSE IF e.op = "setpayload_fn" THEN SetPayloadFnVerdict(e)
              ELSE IF e.op = "create" THEN CreateVerdict(e)
              ELSE "harness-unknown-op"
Init == l = 1
Next == /\ l <= Len(Trace) /\ l' = l + 1
        /\ Report(l, Verdict(Trace[l]))
=============================================================================
