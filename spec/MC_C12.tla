------------------------------- MODULE MC_C12 -------------------------------
(***************************************************************************)
(* Structural check of Ebp!Parse: an EBP assembled from every flag         *)
(* combination, grouping chains of length 1..3, reserved tails 0..2 and    *)
(* both flavours parses back to its parts, with a correct length byte.     *)
(* Time: the specified conversion agrees with integer arithmetic on small  *)
(* values and at era boundaries.                                           *)
(***************************************************************************)
EXTENDS Ebp, TLC
VARIABLES cl, fl, ng, tl
Init == cl \in BOOLEAN /\ fl = 999 /\ ng = 1 /\ tl = 0
Next == fl = 999 /\ fl' \in 0..255 /\ ng' \in 1..3 /\ tl' \in 0..2 /\ UNCHANGED cl
Ext == Bit8(fl, 1)   Sap == Bit8(fl, 32)   Grp == Bit8(fl, 16)   Tim == Bit8(fl, 8)
ExtByte == IF ng = 2 THEN 128 + 5 ELSE 5          \* partition flag set when ng = 2
Part == cl /\ Ext /\ ExtByte >= 128
Groups == IF cl THEN [k \in 1..ng |-> 27 + k] ELSE <<200>>
Chain == IF cl THEN [k \in 1..ng |-> Groups[k] + (IF k < ng THEN 128 ELSE 0)] ELSE Groups
Sec == <<131, 170, 126, 128>>    Frac == <<128, 0, 0, 1>>
Body == <<fl>> \o (IF Ext THEN <<ExtByte>> ELSE <<>>) \o (IF Sap THEN <<77>> ELSE <<>>)
        \o (IF Grp THEN Chain ELSE <<>>) \o (IF Tim THEN Sec \o Frac ELSE <<>>)
        \o (IF Part THEN <<66>> ELSE <<>>) \o [i \in 1..tl |-> 240 + i]
Bytes == LET inner == (IF cl THEN FormatId ELSE <<>>) \o Body IN <<(IF cl THEN 223 ELSE 169), Len(inner)>> \o inner
RoundTrip == fl = 999 \/
  LET p == Parse(Bytes) IN
  /\ p.ok /\ p.cablelabs = cl /\ p.flags = fl
  /\ p.extflag = Ext /\ p.sapflag = Sap /\ p.grouping = Grp /\ p.timeflag = Tim
  /\ (Ext => p.extbyte = ExtByte) /\ p.partition = Part
  /\ (Sap => p.sap = 77) /\ (Grp => p.groups = Groups)
  /\ (Tim => (p.seconds = Sec /\ p.fraction = Frac))
  /\ (Part => p.partflags = 66)
  /\ p.tail = [i \in 1..tl |-> 240 + i]
  /\ StreamSync(p) = (IF Grp /\ cl THEN 28 ELSE 255)
\* tie between Ebp!Nanos (Wide arithmetic) and the integer reading floor(f * 10^9 / 2^32) that Apa_C12 reasons about,
\* on boundary fractions and 45 random ones (expected values computed with unbounded integers outside TLC)
NanosSamples == <<
  <<<<0, 0, 0, 0>>, 0>>,
  <<<<0, 0, 0, 1>>, 0>>,
  <<<<0, 0, 0, 4>>, 0>>,
  <<<<0, 0, 0, 5>>, 1>>,
  <<<<255, 255, 255, 255>>, 999999999>>,
  <<<<128, 0, 0, 0>>, 500000000>>,
  <<<<127, 255, 255, 255>>, 499999999>>,
  <<<<1, 0, 0, 0>>, 3906250>>,
  <<<<0, 1, 0, 0>>, 15258>>,
  <<<<0, 0, 0, 255>>, 59>>,
  <<<<0, 0, 1, 0>>, 59>>,
  <<<<0, 65, 137, 55>>, 999999>>,
  <<<<0, 65, 137, 56>>, 1000000>>,
  <<<<0, 0, 16, 198>>, 999>>,
  <<<<0, 0, 16, 199>>, 1000>>,
  <<<<121, 125, 118, 222>>, 474570683>>,
  <<<<170, 153, 224, 121>>, 666410474>>,
  <<<<36, 129, 116, 229>>, 142600351>>,
  <<<<95, 239, 233, 17>>, 374754492>>,
  <<<<207, 114, 248, 88>>, 810348054>>,
  <<<<153, 249, 22, 177>>, 601457040>>,
  <<<<142, 229, 139, 6>>, 558190049>>,
  <<<<112, 167, 110, 73>>, 440054791>>,
  <<<<41, 138, 89, 248>>, 162267325>>,
  <<<<231, 237, 216, 103>>, 905972981>>,
  <<<<209, 158, 50, 36>>, 818820127>>,
  <<<<215, 167, 191, 94>>, 842403374>>,
  <<<<130, 72, 248, 3>>, 508925915>>,
  <<<<252, 180, 208, 43>>, 987133989>>,
  <<<<242, 91, 200, 207>>, 946713018>>,
  <<<<208, 209, 143, 176>>, 815697651>>,
  <<<<152, 145, 141, 216>>, 595970978>>,
  <<<<185, 240, 152, 37>>, 726327427>>,
  <<<<247, 171, 98, 168>>, 967458883>>,
  <<<<169, 225, 110, 39>>, 663596043>>,
  <<<<176, 171, 87, 122>>, 690114466>>,
  <<<<172, 124, 96, 59>>, 673772825>>,
  <<<<29, 36, 30, 214>>, 113832404>>,
  <<<<60, 39, 39, 40>>, 234972426>>,
  <<<<93, 2, 178, 0>>, 363322377>>,
  <<<<128, 0, 203, 96>>, 500012122>>,
  <<<<7, 52, 101, 184>>, 28143269>>,
  <<<<110, 30, 152, 226>>, 430154376>>,
  <<<<132, 221, 1, 250>>, 518997310>>,
  <<<<109, 95, 205, 24>>, 427243059>>,
  <<<<99, 100, 25, 17>>, 388246122>>,
  <<<<140, 202, 236, 113>>, 549971368>>,
  <<<<45, 148, 167, 120>>, 178049532>>,
  <<<<178, 38, 53, 203>>, 695895540>>,
  <<<<9, 110, 190, 196>>, 36846087>>,
  <<<<70, 203, 211, 85>>, 276547630>>,
  <<<<117, 146, 50, 96>>, 459262035>>,
  <<<<53, 115, 124, 143>>, 208793435>>,
  <<<<72, 42, 82, 162>>, 281895794>>,
  <<<<123, 36, 108, 23>>, 481024509>>,
  <<<<42, 229, 104, 186>>, 167563004>>,
  <<<<93, 59, 188, 224>>, 364192776>>,
  <<<<191, 159, 132, 45>>, 748527775>>,
  <<<<87, 127, 136, 71>>, 341789738>>,
  <<<<10, 62, 241, 158>>, 40022946>> >>
ASSUME \A i \in 1..Len(NanosSamples) : Nanos(NanosSamples[i][1]) = NanosSamples[i][2]
ASSUME Nanos(<<128, 0, 0, 0>>) = 500000000
ASSUME Nanos(<<255, 255, 255, 255>>) = 999999999
ASSUME Nanos(<<0, 0, 0, 5>>) = 1
ASSUME Nanos(<<0, 0, 0, 4>>) = 0
ASSUME Secs1900(<<128, 0, 0, 0>>) = WPow2(31, 8)
ASSUME Secs1900(<<0, 0, 0, 0>>) = WPow2(32, 8)
ASSUME Secs1900(<<127, 255, 255, 255>>) = WSub(RangeHi, WFromNat(1, 8))
ASSUME Within1ns(TotalNs(WPow2(31, 8), 5), TotalNs(WPow2(31, 8), 6)) /\ ~Within1ns(TotalNs(WPow2(31, 8), 5), TotalNs(WPow2(31, 8), 7))
ASSUME Within1ns(TotalNs(WFromNat(10, 8), 0), TotalNs(WFromNat(9, 8), 999999999))
=============================================================================
