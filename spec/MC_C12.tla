------------------------------- MODULE MC_C12 -------------------------------
(***************************************************************************)
(* Structural check of Ebp!Parse: an EBP assembled from every flag         *)
(* combination, grouping chains of length 1..3, reserved tails 0..2 and    *)
(* both flavours parses back to its parts, with a correct length byte.     *)
(* Time: the specified conversion agrees with integer arithmetic on small  *)
(* values and at era boundaries.                                           *)
(***************************************************************************)
EXTENDS Ebp, TLC
VARIABLES cl, fl, ng, tl
Init == cl \in BOOLEAN /\ fl = 999 /\ ng = 1 /\ tl = 0
Next == fl = 999 /\ fl' \in 0..255 /\ ng' \in 1..3 /\ tl' \in 0..2 /\ UNCHANGED cl
Ext == Bit8(fl, 1)   Sap == Bit8(fl, 32)   Grp == Bit8(fl, 16)   Tim == Bit8(fl, 8)
ExtByte == IF ng = 2 THEN 128 + 5 ELSE 5          \* partition flag set when ng = 2
Part == cl /\ Ext /\ ExtByte >= 128
Groups == IF cl THEN [k \in 1..ng |-> 27 + k] ELSE <<200>>
Chain == IF cl THEN [k \in 1..ng |-> Groups[k] + (IF k < ng THEN 128 ELSE 0)] ELSE Groups
Sec == <<131, 170, 126, 128>>    Frac == <<128, 0, 0, 1>>
Body == <<fl>> \o (IF Ext THEN <<ExtByte>> ELSE <<>>) \o (IF Sap THEN <<77>> ELSE <<>>)
        \o (IF Grp THEN Chain ELSE <<>>) \o (IF Tim THEN Sec \o Frac ELSE <<>>)
        \o (IF Part THEN <<66>> ELSE <<>>) \o [i \in 1..tl |-> 240 + i]
Bytes == LET inner == (IF cl THEN FormatId ELSE <<>>) \o Body IN <<(IF cl THEN 223 ELSE 169), Len(inner)>> \o inner
RoundTrip == fl = 999 \/
  LET p == Parse(Bytes) IN
  /\ p.ok /\ p.cablelabs = cl /\ p.flags = fl
  /\ p.extflag = Ext /\ p.sapflag = Sap /\ p.grouping = Grp /\ p.timeflag = Tim
  /\ (Ext => p.extbyte = ExtByte) /\ p.partition = Part
  /\ (Sap => p.sap = 77) /\ (Grp => p.groups = Groups)
  /\ (Tim => (p.seconds = Sec /\ p.fraction = Frac))
  /\ (Part => p.partflags = 66)
  /\ p.tail = [i \in 1..tl |-> 240 + i]
  /\ StreamSync(p) = (IF Grp /\ cl THEN 28 ELSE 255)
ASSUME Nanos(<<128, 0, 0, 0>>) = 500000000
ASSUME Nanos(<<255, 255, 255, 255>>) = 999999999
ASSUME Nanos(<<0, 0, 0, 5>>) = 1
ASSUME Nanos(<<0, 0, 0, 4>>) = 0
ASSUME Secs1900(<<128, 0, 0, 0>>) = WPow2(31, 8)
ASSUME Secs1900(<<0, 0, 0, 0>>) = WPow2(32, 8)
ASSUME Secs1900(<<127, 255, 255, 255>>) = WSub(RangeHi, WFromNat(1, 8))
ASSUME Within1ns(TotalNs(WPow2(31, 8), 5), TotalNs(WPow2(31, 8), 6)) /\ ~Within1ns(TotalNs(WPow2(31, 8), 5), TotalNs(WPow2(31, 8), 7))
ASSUME Within1ns(TotalNs(WFromNat(10, 8), 0), TotalNs(WFromNat(9, 8), 999999999))
=============================================================================
