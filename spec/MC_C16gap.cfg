CONSTANTS MaxPre = 2 MaxSuf = 4 Ns = {3, 5}
INIT Init
NEXT Next
CHECK_DEADLOCK FALSE
