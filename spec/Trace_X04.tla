----------------------------- MODULE Trace_X04 -----------------------------
(* Trace validation for X04: a PES packet over transport packets - accumulator results per packet, the gathered  *)
(* bytes, and the PES header decoder on them - against PesCarriage (Accumulator x Pes).                         *)
EXTENDS TraceBase, PesCarriage, Pes
Verdict(e) ==
  IF e.panic # "" THEN "panic"
  ELSE IF e.op # "pescarry" THEN "harness-unknown-op"
  ELSE IF \E i \in 1..Len(e.packets) : Len(e.packets[i]) # 188 THEN "harness-bad-packet"
  ELSE LET c == Carry(e.packets)  b == c.s.buf IN
  IF e.results # c.res THEN "carriage-results"
  ELSE IF e.bytes # b THEN "carriage-bytes"
  ELSE IF Len(b) >= 7 /\ WellFormed(b) THEN
       IF e.hdr_err THEN "wellformed-header-rejected"
       ELSE IF e.g.prefix # Prefix(b) THEN "start-code-prefix"
       ELSE IF e.g.sid # Sid(b) THEN "stream-id"
       ELSE IF e.g.data # Data(b) THEN "data"
       ELSE IF Opt(b) /\ e.g.dai # Dai(b) THEN "data-alignment-indicator"
       ELSE IF e.g.haspts # HasPTS(b) THEN "has-pts"
       ELSE IF e.g.hasdts # HasDTS(b) THEN "has-dts"
       ELSE IF HasPTS(b) /\ e.g.pts # PTS(b) THEN "pts-value"
       ELSE IF HasDTS(b) /\ e.g.dts # DTS(b) THEN "dts-value"
       ELSE ""
  ELSE ""       \* what was gathered is not (yet) a complete PES header: the decoder's answer is C05's business
Init == l = 1
Next == /\ l <= Len(Trace) /\ l' = l + 1
        /\ Report(l, Verdict(Trace[l]))
=============================================================================
