------------------------------- MODULE MC_C17 -------------------------------
(***************************************************************************)
(* Design-level check of the accumulator: all histories up to Depth over a *)
(* small packet alphabet and all threshold/failing predicates.  History    *)
(* variable `hist` records the calls; the invariants restate C17 in terms  *)
(* of the history alone (independently of the action definitions).         *)
(***************************************************************************)
EXTENDS Accumulator, TLC
CONSTANTS Depth
Preds == { [done |-> d, fail |-> f] : d \in 0..3, f \in {0, 2, 4} }
Payloads == {<<>>, <<1>>, <<2>>, <<1, 2>>}
VARIABLES hist, pred
vars == <<mode, buf, pkts, last, hist, pred>>
Packets(n) == { [id |-> n, pusi |-> u, haspay |-> h, payload |-> (IF h THEN pl ELSE <<>>)]
                : u \in BOOLEAN, h \in BOOLEAN, pl \in Payloads }
Init == AccInit /\ hist = <<>> /\ pred \in Preds
Next == /\ Len(hist) < Depth
        /\ \/ \E p \in Packets(Len(hist) + 1), keep \in BOOLEAN :
                Write(p, pred, keep) /\ hist' = Append(hist, [op |-> "write", p |-> p, res |-> last'])
           \/ Reset /\ hist' = Append(hist, [op |-> "reset", res |-> "reset"])
        /\ UNCHANGED pred
Spec == Init /\ [][Next]_vars

\* --- the property, from the history ---
LastReset == LET R == { i \in 1..Len(hist) : hist[i].op = "reset" } IN
             IF R = {} THEN 0 ELSE CHOOSE i \in R : \A j \in R : j <= i
\* index of the most recent unit-start write that was not refused (after the last reset)
Starts == { i \in (LastReset + 1)..Len(hist) : hist[i].op = "write" /\ hist[i].p.pusi
                                               /\ hist[i].res \notin {"refused-done"} }
LastStart == IF Starts = {} THEN 0 ELSE CHOOSE i \in Starts : \A j \in Starts : j <= i
\* writes since (and including) the last unit start that contributed bytes
Contrib == IF LastStart = 0 THEN <<>>
           ELSE SelectSeq([i \in 1..(Len(hist) - LastStart + 1) |-> hist[LastStart + i - 1]],
                          LAMBDA h : h.op = "write" /\ h.res \in {"nil", "pred", "done"})
RECURSIVE ConcatPayloads(_, _, _)
ConcatPayloads(hs, i, acc) == IF i > Len(hs) THEN acc ELSE ConcatPayloads(hs, i + 1, acc \o hs[i].p.payload)
BytesAreConcat == buf = ConcatPayloads(Contrib, 1, <<>>)
\* the packet list holds the contributing packets in order (plus, possibly, rejected no-payload ones)
ContribIds == [i \in 1..Len(Contrib) |-> Contrib[i].p.id]
IsSubseqOf(a, b) == \E f \in [1..Len(a) -> 1..Len(b)] :
                       /\ \A i \in 1..Len(a) : b[f[i]] = a[i]
                       /\ \A i, j \in 1..Len(a) : i < j => f[i] < f[j]
PacketsAreThose == /\ IsSubseqOf(ContribIds, pkts)
                   /\ \A k \in 1..Len(pkts) :
                        \E i \in 1..Len(hist) : hist[i].op = "write" /\ hist[i].p.id = pkts[k]
                                                /\ hist[i].res \in {"nil", "pred", "done", "nopayload"} /\ i >= LastStart
RefusedBeforeStart == \A i \in 1..Len(hist) :
     (hist[i].op = "write" /\ hist[i].res = "nopusi") => ~hist[i].p.pusi
NoPayloadIsError == \A i \in 1..Len(hist) :
     (hist[i].op = "write" /\ ~hist[i].p.haspay) => hist[i].res \in {"nopayload", "nopusi", "refused-done"}
DoneExactlyAtThreshold == (mode = "done") <=> (last \in {"done", "refused-done"})
DoneMeansPredicateHolds == mode = "done" => PredResult(pred, buf) = "done"
NotDoneMeansNotYet == (mode # "done" /\ last = "nil") => PredResult(pred, buf) = "no"
=============================================================================
