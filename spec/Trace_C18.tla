----------------------------- MODULE Trace_C18 -----------------------------
(* Trace validation for C18: Write / ReadFrom through the real adapters against PacketWriter's expectations *)
EXTENDS TraceBase
W == INSTANCE PacketWriter WITH PS <- 188, rd <- <<>>, buf <- <<>>, calls <- <<>>, n <- 0, res <- "", fa <- 0
Verdict(e) ==
  IF e.panic # "" THEN "panic"
  ELSE IF e.raw # 0 THEN "bytes-reached-the-sink-without-a-packet-write"   \* (a packet writer that is an io.Writer itself is still written packet by packet)
  ELSE IF e.op = "write" THEN
       LET x == W!ExpectWrite(e.data, e.fail_at) IN
       IF e.err # x.err THEN "write-result-" \o x.err \o "-expected-got-" \o e.err
       ELSE IF e.calls # x.calls THEN "write-deliveries"
       ELSE IF x.full /\ e.n # Len(e.data) THEN "write-count"
       ELSE IF ~e.data_same THEN "input-modified"
       ELSE ""
  ELSE IF e.op = "readfrom" THEN
       LET x == W!ExpectReadFrom(e.script, e.fail_at) IN
       IF e.calls # x.calls THEN "readfrom-deliveries"
       ELSE IF e.err # x.err THEN "readfrom-result-" \o x.err \o "-expected-got-" \o e.err
       \* (a failing packet write that reports bytes together with its error: the count is not defined by the property)
       ELSE IF e.n # x.n /\ ~(e.wfail_n > 0 /\ x.err = "writer") THEN "readfrom-count"
       ELSE ""
  ELSE "harness-unknown-op"
Init == l = 1
Next == /\ l <= Len(Trace) /\ l' = l + 1
        /\ Report(l, Verdict(Trace[l]))
=============================================================================
