------------------------------- MODULE Scte35 -------------------------------
(***************************************************************************)
(* splice_info_section of ANSI/SCTE 35 (section 9), for the syntax the     *)
(* library supports: splice_null, time_signal, splice_insert;              *)
(* segmentation_descriptor (incl. components, 40-bit duration, single UPID *)
(* or multiple-UPID list, sub-segments) and foreign descriptors            *)
(* (properties C08, C09).  Wide values: 33-bit times, 40-bit durations as  *)
(* 8-digit wides; 32-bit event ids as 4-byte sequences.                    *)
(*                                                                         *)
(*  sig == [tableid, ssi, priv, protocol, enc, encalg, ptsadj, cw, tier, cmd,  *)
(*          descs, astuff]                                                 *)
(*  cmd == [kind |-> "null"]                                               *)
(*       | [kind |-> "time", spec, pts]                                    *)
(*       | [kind |-> "insert", eid, cancel, out, program, hasdur, immediate,*)
(*          spec, pts, comps : Seq([tag, spec, pts]), autoret, dur, upid,  *)
(*          avail, avails]                                                 *)
(*  desc == [kind |-> "foreign", tag, body]                                *)
(*        | [kind |-> "seg", ident, eid, cancel, progseg, hasdur, dnr, web, noblk,*)
(*           arch, dev, comps : Seq([tag, off]), dur, upidtype, upid,      *)
(*           mid : Seq([type, upid]), type, segnum, segexp, hassub, subnum,*)
(*           subexp]                                                       *)
(***************************************************************************)
EXTENDS Wide, Crc

W8(x) == WFromNat(x, 8)
U33Bits(w) == WLowBits(w, 33)
U40Bits(w) == WLowBits(w, 40)
Mod33(w) == WModPow2(w, 33)
Mod40(w) == WModPow2(w, 40)
B(x) == BoolBit(x)

\* splice_time(): time_specified_flag 1 | reserved 6 | pts_time 33   or   0 | reserved 7
SpliceTime(spec, pts) == IF spec THEN BitsToBytes(<<1>> \o Ones(6) \o U33Bits(pts)) ELSE <<127>>
\* break_duration(): auto_return 1 | reserved 6 | duration 33
BreakDuration(ar, dur) == BitsToBytes(<<B(ar)>> \o Ones(6) \o U33Bits(dur))

Be16(x) == <<x \div 256, x % 256>>

InsertBytes(c) ==
  c.eid \o <<(B(c.cancel) * 128) + 127>>
  \o (IF c.cancel THEN <<>> ELSE
        <<(B(c.out) * 128) + (B(c.program) * 64) + (B(c.hasdur) * 32) + (B(c.immediate) * 16) + 15>>
        \o (IF c.program /\ ~c.immediate THEN SpliceTime(c.spec, c.pts) ELSE <<>>)
        \o (IF ~c.program THEN <<Len(c.comps)>> \o Flatten([i \in 1..Len(c.comps) |->
                 <<c.comps[i].tag>> \o (IF ~c.immediate THEN SpliceTime(c.comps[i].spec, c.comps[i].pts) ELSE <<>>)])
            ELSE <<>>)
        \o (IF c.hasdur THEN BreakDuration(c.autoret, c.dur) ELSE <<>>)
        \o Be16(c.upid) \o <<c.avail, c.avails>>)

CmdType(c) == CASE c.kind = "null" -> 0 [] c.kind = "time" -> 6 [] c.kind = "insert" -> 5 [] OTHER -> c.type
CmdBytes(c) == CASE c.kind = "null" -> <<>>
                 [] c.kind = "time" -> SpliceTime(c.spec, c.pts)
                 [] c.kind = "insert" -> InsertBytes(c)
                 [] OTHER -> c.body

CUEI == <<67, 85, 69, 73>>
MidBytes(m) == Flatten([i \in 1..Len(m) |-> <<m[i].type, Len(m[i].upid)>> \o m[i].upid])
UpidBytes(d) == IF d.upidtype = 13 THEN MidBytes(d.mid) ELSE d.upid
SegBody(d) ==
  d.ident \o d.eid \o <<(B(d.cancel) * 128) + 127>>
  \o (IF d.cancel THEN <<>> ELSE
        <<(B(d.progseg) * 128) + (B(d.hasdur) * 64) + (B(d.dnr) * 32)
          + (IF d.dnr THEN 31 ELSE (B(d.web) * 16) + (B(d.noblk) * 8) + (B(d.arch) * 4) + d.dev)>>
        \o (IF ~d.progseg THEN <<Len(d.comps)>> \o Flatten([i \in 1..Len(d.comps) |->
                 <<d.comps[i].tag>> \o BitsToBytes(Ones(7) \o U33Bits(d.comps[i].off))])
            ELSE <<>>)
        \o (IF d.hasdur THEN BitsToBytes(U40Bits(d.dur)) ELSE <<>>)
        \o <<d.upidtype, Len(UpidBytes(d))>> \o UpidBytes(d)
        \o <<d.type, d.segnum, d.segexp>>
        \o (IF d.hassub THEN <<d.subnum, d.subexp>> ELSE <<>>))
DescBytes(d) == IF d.kind = "seg" THEN <<2, Len(SegBody(d))>> \o SegBody(d)
                ELSE <<d.tag, Len(d.body)>> \o d.body
DescLoop(ds) == Flatten([i \in 1..Len(ds) |-> DescBytes(ds[i])])

\* everything between section_length and CRC_32
SectionBody(s) ==
  LET cb == CmdBytes(s.cmd)  dl == DescLoop(s.descs) IN
  <<s.protocol>>
  \o BitsToBytes(<<B(s.enc)>> \o ToBits(s.encalg, 6) \o U33Bits(s.ptsadj))   \* encrypted_packet (unsupported when set)
  \o <<s.cw, s.tier \div 16, ((s.tier % 16) * 16) + (Len(cb) \div 256), Len(cb) % 256, CmdType(s.cmd)>>
  \o cb \o Be16(Len(dl)) \o dl \o s.astuff
\* the section: table_id 0xFC, ssi/priv as given, reserved bits 11, 12-bit section_length
SectionOf(s) ==
  LET body == SectionBody(s)  sl == Len(body) + 4
      pre == <<s.tableid, (B(s.ssi) * 128) + (B(s.priv) * 64) + 48 + (sl \div 256), sl % 256>> \o body
  IN pre \o Crc32(pre)
\* the syntax can express the abstract section: every length fits its field (a value built through the setter
\* API can fail this - e.g. a segmentation descriptor body above 255 bytes; such a value has no encoding at all)
Representable(s) ==
  /\ \A i \in 1..Len(s.descs) :
        IF s.descs[i].kind = "seg"
        THEN /\ Len(SegBody(s.descs[i])) <= 255 /\ Len(UpidBytes(s.descs[i])) <= 255 /\ Len(s.descs[i].comps) <= 255
             /\ \A j \in 1..Len(s.descs[i].mid) : Len(s.descs[i].mid[j].upid) <= 255
        ELSE Len(s.descs[i].body) <= 255
  /\ Len(DescLoop(s.descs)) <= 65535
  /\ Len(CmdBytes(s.cmd)) <= 4095
  /\ (s.cmd.kind = "insert" => Len(s.cmd.comps) <= 255)
  /\ Len(SectionBody(s)) + 4 <= 4093
\* canonical form: ssi = 0, private = 0, no alignment stuffing
Canonical(s) == ~s.ssi /\ ~s.priv /\ s.tableid = 252 /\ ~s.enc

\* ---- what the decoder must report ----
CmdHasPts(c) == CASE c.kind = "time" -> c.spec
                  [] c.kind = "insert" -> (~c.cancel /\ c.program /\ ~c.immediate /\ c.spec)
                  [] OTHER -> FALSE
CmdPts(c) == IF CmdHasPts(c) THEN Mod33(c.pts) ELSE WZero(8)
\* signal PTS = (command pts_time + pts_adjustment) mod 2^33
SignalPts(s) == Mod33(WAdd(CmdPts(s.cmd), Mod33(s.ptsadj), 8))
\* the supported domain of the decoder
\* the corresponding rejection, in the order the fields are met: table id, encryption, command, descriptor identifier
BadIdent(s) == \E i \in 1..Len(s.descs) : s.descs[i].kind = "seg" /\ s.descs[i].ident # CUEI
Supported(s) == CASE s.cmd.kind = "null" -> TRUE
                  [] s.cmd.kind = "time" -> s.cmd.spec
                  [] s.cmd.kind = "insert" -> (s.cmd.cancel \/ ~s.cmd.program \/ s.cmd.immediate \/ s.cmd.spec)
                  [] OTHER -> FALSE

(***************************************************************************)
(* Comparison of the getters of a decoded object (record g as logged by    *)
(* the harness) with an abstract section: the first field that differs,    *)
(* or "".  Fields the API documents as meaningless under a flag are not    *)
(* compared.                                                               *)
(***************************************************************************)
InsertDiff(g, c) ==
  IF g.eid # c.eid THEN "insert-event-id"
  ELSE IF g.cancel # c.cancel THEN "insert-cancel"
  ELSE IF c.cancel THEN ""
  ELSE IF g.out # c.out THEN "insert-out-of-network"
  ELSE IF g.program # c.program THEN "insert-program-splice"
  ELSE IF g.hasdur # c.hasdur THEN "insert-duration-flag"
  ELSE IF g.immediate # c.immediate THEN "insert-immediate"
  ELSE IF ~c.program /\ Len(g.comps) # Len(c.comps) THEN "insert-component-count"
  ELSE IF ~c.program /\ \E i \in 1..Len(c.comps) : g.comps[i].tag # c.comps[i].tag THEN "insert-component-tag"
  ELSE IF ~c.program /\ ~c.immediate /\ \E i \in 1..Len(c.comps) : g.comps[i].haspts # c.comps[i].spec THEN "insert-component-time-flag"
  ELSE IF ~c.program /\ ~c.immediate /\ \E i \in 1..Len(c.comps) : c.comps[i].spec /\ g.comps[i].pts # Mod33(c.comps[i].pts) THEN "insert-component-time"
  ELSE IF c.hasdur /\ g.autoret # c.autoret THEN "insert-auto-return"
  ELSE IF c.hasdur /\ g.dur # Mod33(c.dur) THEN "insert-duration"
  ELSE IF g.upid # c.upid THEN "insert-unique-program-id"
  ELSE IF g.avail # c.avail \/ g.avails # c.avails THEN "insert-avails"
  ELSE ""
SegDiff(g, d) ==
  IF g.eid # d.eid THEN "seg-event-id"
  ELSE IF g.cancel # d.cancel THEN "seg-cancel"
  ELSE IF ~g.backref THEN "seg-does-not-refer-to-its-signal"
  ELSE IF d.cancel THEN ""
  ELSE IF g.progseg # d.progseg THEN "seg-program-segmentation"
  ELSE IF g.hasdur # d.hasdur THEN "seg-duration-flag"
  ELSE IF g.dnr # d.dnr THEN "seg-delivery-not-restricted"
  ELSE IF ~d.dnr /\ (g.web # d.web \/ g.noblk # d.noblk \/ g.arch # d.arch \/ g.dev # d.dev) THEN "seg-restriction-flags"
  ELSE IF ~d.progseg /\ Len(g.comps) # Len(d.comps) THEN "seg-component-count"
  ELSE IF ~d.progseg /\ \E i \in 1..Len(d.comps) : g.comps[i].tag # d.comps[i].tag THEN "seg-component-tag"
  ELSE IF ~d.progseg /\ \E i \in 1..Len(d.comps) : g.comps[i].off # Mod33(d.comps[i].off) THEN "seg-component-offset"
  ELSE IF d.hasdur /\ g.dur # Mod40(d.dur) THEN "seg-duration"
  ELSE IF g.upidtype # d.upidtype THEN "seg-upid-type"
  ELSE IF d.upidtype # 13 /\ g.upid # d.upid THEN "seg-upid"
  ELSE IF d.upidtype = 13 /\ Len(g.mid) # Len(d.mid) THEN "seg-mid-count"
  ELSE IF d.upidtype = 13 /\ \E i \in 1..Len(d.mid) : g.mid[i].type # d.mid[i].type \/ g.mid[i].upid # d.mid[i].upid THEN "seg-mid-entry"
  ELSE IF g.type # d.type THEN "seg-type-id"
  ELSE IF g.segnum # d.segnum \/ g.segexp # d.segexp THEN "seg-segment-numbers"
  ELSE IF g.hassub # d.hassub THEN "seg-has-sub-segments"
  ELSE IF d.hassub /\ (g.subnum # d.subnum \/ g.subexp # d.subexp) THEN "seg-sub-segment-numbers"
  ELSE ""
SegsOf(s) == SelectSeq(s.descs, LAMBDA d : d.kind = "seg")
RECURSIVE FirstSegDiff(_, _, _)
FirstSegDiff(gs, ds, i) == IF i > Len(ds) THEN "" ELSE IF SegDiff(gs[i], ds[i]) # "" THEN SegDiff(gs[i], ds[i]) ELSE FirstSegDiff(gs, ds, i + 1)
Getters(g, s) ==
  IF g.tier # s.tier THEN "tier"
  ELSE IF g.cmdtype # CmdType(s.cmd) THEN "command-type"
  ELSE IF g.haspts # CmdHasPts(s.cmd) \/ g.cmd_haspts # CmdHasPts(s.cmd) THEN "has-pts"
  ELSE IF CmdHasPts(s.cmd) /\ g.cmd_pts # CmdPts(s.cmd) THEN "command-pts"
  ELSE IF CmdHasPts(s.cmd) /\ g.pts # SignalPts(s) THEN "signal-pts-adjustment"
  ELSE IF s.cmd.kind = "insert" /\ InsertDiff(g.insert, s.cmd) # "" THEN InsertDiff(g.insert, s.cmd)
  ELSE IF Len(g.descs) # Len(SegsOf(s)) THEN "descriptor-count"
  ELSE FirstSegDiff(g.descs, SegsOf(s), 1)
=============================================================================
