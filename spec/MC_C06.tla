------------------------------- MODULE MC_C06 -------------------------------
(***************************************************************************)
(* Small PMTs (<= 2 streams, <= 1 descriptor with body <= 2, program       *)
(* descriptors of length 0/2), pointer_field in {0,1,3}, with/without a    *)
(* preceding section and stuffing: the section is length-consistent, its   *)
(* CRC residue is zero, the closed form DoneLengths equals Psi!Done on     *)
(* every prefix, Done is false strictly inside any section and true at the *)
(* end, and accessors read the first section's header.                     *)
(***************************************************************************)
EXTENDS Pmt, TLC
VARIABLES pmt, ptr, pre, k
D0 == <<>>
D1 == <<[tag |-> 10, body |-> <<101, 110>>]>>
D2 == <<[tag |-> 82, body |-> <<>>]>>
StreamsSets == { <<>>, <<[type |-> 27, pid |-> 257, descs |-> D0]>>, <<[type |-> 15, pid |-> 258, descs |-> D1]>>,
                 <<[type |-> 27, pid |-> 257, descs |-> D2], [type |-> 134, pid |-> 8190, descs |-> D1]>> }
Other == Section(66, TRUE, TRUE, <<1, 2, 3, 4, 5>>)       \* some complete non-PMT section
Init == /\ pmt \in { [program |-> 1, version |-> v, cni |-> c, pcrpid |-> 256, progdescs |-> pd, streams |-> s]
                     : v \in {0, 31}, c \in BOOLEAN, pd \in {D0, D1}, s \in StreamsSets }
        /\ ptr = 99 /\ pre = <<>> /\ k = 0
Next == ptr = 99 /\ ptr' \in {0, 1, 3} /\ pre' \in {<<>>, <<Other>>} /\ k' \in {0, 1, 4} /\ UNCHANGED pmt
P == PmtPayload(ptr, pre, pmt, k)
Checks == ptr = 99 \/
  LET s == PmtSection(pmt) IN
  /\ WFPmt(pmt) /\ ThLen(s) = Len(s) - 3 /\ ThTableId(s) = 2 /\ Residue0(s)
  /\ PointerField(P) = ptr
  /\ PTableId(P) = (IF pre = <<>> THEN 2 ELSE 66) /\ PSsi(P) /\ PPriv(P) = (pre # <<>>)
  /\ PSecLen(P) = (IF pre = <<>> THEN ThLen(s) ELSE ThLen(Other))
  /\ \A L \in 0..Len(P) : Done(SubSeq(P, 1, L)) = (L \in DoneLengths(P))
  /\ Done(P)
  /\ \A L \in 0..(Len(P) - k - 1) : Done(SubSeq(P, 1, L)) => (pre # <<>> /\ L = 1 + ptr + Len(Other))
=============================================================================
