------------------------------- MODULE MC_C08 -------------------------------
(***************************************************************************)
(* Structural consistency of the SCTE-35 serialisation on a bounded family *)
(* (14 commands x 12 descriptor lists x pts_adjustment {0, 2^32+5} x tier  *)
(* {0, 0xFFF}): section_length, splice_command_length, descriptor_loop_    *)
(* length and every descriptor_length describe the bytes that follow; the  *)
(* CRC residue of the section is zero; the adjusted PTS wraps modulo 2^33. *)
(***************************************************************************)
EXTENDS Scte35, TLC
VARIABLES ci, di, adj, tier
MaxT == WSub(WPow2(33, 8), W8(1))
E1 == <<0, 0, 0, 1>>     E2 == <<255, 255, 255, 255>>
Ins(cancel, program, immediate, hasdur, comps) ==
  [kind |-> "insert", eid |-> E2, cancel |-> cancel, out |-> TRUE, program |-> program, hasdur |-> hasdur,
   immediate |-> immediate, spec |-> TRUE, pts |-> MaxT, comps |-> comps, autoret |-> TRUE, dur |-> WPow2(32, 8),
   upid |-> 513, avail |-> 1, avails |-> 2]
Cmds == << [kind |-> "null"], [kind |-> "time", spec |-> TRUE, pts |-> W8(0)], [kind |-> "time", spec |-> TRUE, pts |-> MaxT],
           Ins(TRUE, TRUE, FALSE, FALSE, <<>>), Ins(FALSE, TRUE, TRUE, FALSE, <<>>), Ins(FALSE, TRUE, FALSE, FALSE, <<>>),
           Ins(FALSE, TRUE, FALSE, TRUE, <<>>), Ins(FALSE, FALSE, TRUE, FALSE, <<>>),
           Ins(FALSE, FALSE, TRUE, TRUE, <<[tag |-> 7, spec |-> FALSE, pts |-> W8(0)]>>),
           Ins(FALSE, FALSE, FALSE, FALSE, <<[tag |-> 7, spec |-> TRUE, pts |-> MaxT]>>),
           Ins(FALSE, FALSE, FALSE, TRUE, <<[tag |-> 7, spec |-> TRUE, pts |-> W8(1)], [tag |-> 8, spec |-> FALSE, pts |-> W8(0)]>>),
           Ins(FALSE, TRUE, TRUE, TRUE, <<>>), [kind |-> "time", spec |-> FALSE, pts |-> W8(0)],
           [kind |-> "other", type |-> 255, body |-> <<1, 2, 3>>] >>
Seg(cancel, progseg, hasdur, dnr, mid, hassub, comps) ==
  [kind |-> "seg", ident |-> CUEI, eid |-> E1, cancel |-> cancel, progseg |-> progseg, hasdur |-> hasdur, dnr |-> dnr, web |-> TRUE, noblk |-> FALSE,
   arch |-> TRUE, dev |-> 2, comps |-> comps, dur |-> WSub(WPow2(40, 8), W8(1)), upidtype |-> (IF mid THEN 13 ELSE 9),
   upid |-> <<83, 73, 71>>, mid |-> <<[type |-> 9, upid |-> <<65>>], [type |-> 14, upid |-> <<>>]>>,
   type |-> 52, segnum |-> 1, segexp |-> 2, hassub |-> hassub, subnum |-> 3, subexp |-> 4]
Foreign == [kind |-> "foreign", tag |-> 0, body |-> <<67, 85, 69, 73, 9>>]
DescLists == << <<>>, <<Seg(TRUE, TRUE, FALSE, TRUE, FALSE, FALSE, <<>>)>>, <<Seg(FALSE, TRUE, FALSE, TRUE, FALSE, FALSE, <<>>)>>,
                <<Seg(FALSE, TRUE, TRUE, FALSE, FALSE, FALSE, <<>>)>>, <<Seg(FALSE, FALSE, TRUE, FALSE, FALSE, TRUE, <<[tag |-> 1, off |-> WPow2(32, 8)]>>)>>,
                <<Seg(FALSE, TRUE, FALSE, FALSE, TRUE, TRUE, <<>>)>>, <<Foreign>>, <<Foreign, Seg(FALSE, TRUE, TRUE, TRUE, TRUE, FALSE, <<>>)>>,
                <<Seg(FALSE, TRUE, FALSE, TRUE, FALSE, FALSE, <<>>), Foreign, Seg(FALSE, FALSE, FALSE, TRUE, FALSE, FALSE, <<>>)>>,
                <<Seg(FALSE, FALSE, FALSE, FALSE, FALSE, FALSE, <<[tag |-> 1, off |-> W8(5)], [tag |-> 2, off |-> MaxT]>>)>>,
                <<Foreign, Foreign>>, <<Seg(TRUE, FALSE, TRUE, FALSE, TRUE, TRUE, <<>>), Seg(TRUE, TRUE, FALSE, TRUE, FALSE, FALSE, <<>>)>> >>
Init == ci \in 1..Len(Cmds) /\ di = 0 /\ adj = 0 /\ tier = 0
Next == di = 0 /\ di' \in 1..Len(DescLists) /\ adj' \in {0, 1} /\ tier' \in {0, 4095} /\ UNCHANGED ci
Sig == [tableid |-> 252, ssi |-> FALSE, priv |-> FALSE, protocol |-> 0, enc |-> FALSE, encalg |-> 0, ptsadj |-> (IF adj = 1 THEN WAdd(WPow2(32, 8), W8(5), 8) ELSE W8(0)),
        cw |-> 255, tier |-> tier, cmd |-> Cmds[ci], descs |-> DescLists[di], astuff |-> <<>>]
\* walk the descriptor loop by the length bytes
RECURSIVE WalkDescs(_, _)
WalkDescs(b, n) == IF b = <<>> THEN n ELSE IF Len(b) < 2 \/ Len(b) < 2 + b[2] THEN 0 - 1 ELSE WalkDescs(SubSeq(b, 3 + b[2], Len(b)), n + 1)
Checks == di = 0 \/
  LET s == SectionOf(Sig)  cb == CmdBytes(Sig.cmd)  dl == DescLoop(Sig.descs) IN
  /\ s[1] = 252 /\ ((s[2] % 16) * 256) + s[3] = Len(s) - 3 /\ s[2] \div 16 = 3
  /\ ((s[12] % 16) * 256) + s[13] = Len(cb) /\ (s[11] * 16) + (s[12] \div 16) = tier
  /\ s[14] = CmdType(Sig.cmd)
  /\ SubSeq(s, 15, 14 + Len(cb)) = cb
  /\ (s[15 + Len(cb)] * 256) + s[16 + Len(cb)] = Len(dl)
  /\ Len(s) = 14 + Len(cb) + 2 + Len(dl) + 4
  /\ WalkDescs(dl, 0) = Len(Sig.descs)
  /\ Residue0(s)
  /\ (adj = 1 /\ CmdHasPts(Sig.cmd) /\ Sig.cmd.pts = MaxT) => SignalPts(Sig) = WAdd(WPow2(32, 8), W8(4), 8)
  /\ (adj = 0 /\ CmdHasPts(Sig.cmd)) => SignalPts(Sig) = Sig.cmd.pts
=============================================================================
