-------------------------------- MODULE Crc --------------------------------
(***************************************************************************)
(* CRC-32/MPEG-2 (ISO/IEC 13818-1 Annex A): polynomial 0x04C11DB7, initial *)
(* register 0xFFFFFFFF, bits processed most significant first, no          *)
(* reflection, no final XOR.  The 32-bit register is a pair <<hi, lo>> of  *)
(* 16-bit halves because TLC integers are 32-bit signed.                   *)
(*  - CrcSerial is the definition: polynomial division one bit at a time.  *)
(*  - CrcBytes is the byte-at-a-time table-driven form used for speed; its *)
(*    table is computed from the serial step and MC_C13 checks that both   *)
(*    agree (per byte for all register samples, and on whole strings).     *)
(***************************************************************************)
EXTENDS Naturals, Sequences, Bitwise

PolyHi == 1217      \* 0x04C1
PolyLo == 7607      \* 0x1DB7
InitReg == <<65535, 65535>>

\* one step of the shift register with message bit b
StepBit(reg, b) ==
  LET top == reg[1] \div 32768
      hi  == ((reg[1] % 32768) * 2) + (reg[2] \div 32768)
      lo  == (reg[2] % 32768) * 2
  IN IF top = b THEN <<hi, lo>> ELSE <<hi ^^ PolyHi, lo ^^ PolyLo>>

BitK(x, k) == (x \div (2^k)) % 2      \* bit k of a byte, 0 = least significant

StepByteSerial(reg, x) ==
  StepBit(StepBit(StepBit(StepBit(StepBit(StepBit(StepBit(StepBit(reg,
    BitK(x, 7)), BitK(x, 6)), BitK(x, 5)), BitK(x, 4)), BitK(x, 3)), BitK(x, 2)), BitK(x, 1)), BitK(x, 0))

RECURSIVE SerialFrom(_, _, _)
SerialFrom(s, i, reg) == IF i > Len(s) THEN reg ELSE SerialFrom(s, i + 1, StepByteSerial(reg, s[i]))
CrcSerialReg(s) == SerialFrom(s, 1, InitReg)

\* table: the register after clocking byte index x through an all-zero register
Table == [x \in 0..255 |-> StepByteSerial(<<0, 0>>, x)]

StepByteTable(reg, x) ==
  LET idx == (reg[1] \div 256) ^^ x
      hi  == ((reg[1] % 256) * 256) + (reg[2] \div 256)
      lo  == (reg[2] % 256) * 256
  IN <<hi ^^ Table[idx][1], lo ^^ Table[idx][2]>>

RECURSIVE TableFrom(_, _, _)
TableFrom(s, i, reg) == IF i > Len(s) THEN reg ELSE TableFrom(s, i + 1, StepByteTable(reg, s[i]))
CrcReg(s) == TableFrom(s, 1, InitReg)

RegBytes(reg) == <<reg[1] \div 256, reg[1] % 256, reg[2] \div 256, reg[2] % 256>>

\* the checksum as the four big-endian bytes a section carries
Crc32(s)       == RegBytes(CrcReg(s))
Crc32Serial(s) == RegBytes(CrcSerialReg(s))

\* validity condition receivers apply: the CRC over data ++ CRC_32 is zero
Residue0(s) == CrcReg(s) = <<0, 0>>
=============================================================================
