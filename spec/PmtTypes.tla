------------------------------ MODULE PmtTypes ------------------------------
(***************************************************************************)
(* Stream-type classification (ISO/IEC 13818-1 Table 2-34, ATSC A/53,      *)
(* SCTE 35) and the PMT descriptor decoders of the psi package (C20).      *)
(* Strings are byte sequences so that they cross the JSON boundary         *)
(* unchanged; the Dolby Vision codec string is built as a TLA+ string.     *)
(***************************************************************************)
EXTENDS Bits, TLC

AudioTypes   == {15, 129, 135}                 \* AAC-ADTS 0x0F, AC-3 0x81, E-AC-3 0x87
VideoTypes   == {2, 27, 36}                    \* MPEG-2 0x02, AVC 0x1B, HEVC 0x24
Scte35Type   == 134                            \* 0x86
Id3Type      == 21                             \* 0x15
PrivateType  == 6                              \* 0x06
LagsEbpTypes == {3, 4, 15, 17, 129, 135, 136}  \* 0x03 0x04 0x0F 0x11 0x81 0x87 0x88

IsAudio(c)   == c \in AudioTypes
IsVideo(c)   == c \in VideoTypes
IsScte35(c)  == c = Scte35Type
IsId3(c)     == c = Id3Type
IsPrivate(c) == c = PrivateType
LagsEbp(c)   == c \in LagsEbpTypes

\* descriptor tags
TagRegistration == 5
TagLanguage     == 10
TagMaxBitrate   == 14
TagExtension    == 127
TagDolbyVision  == 176

\* maximum_bitrate_descriptor: reserved 2 | maximum_bitrate 22 (units of 50 bytes/s)
MaxBitrate(tag, body) ==
  IF tag = TagMaxBitrate /\ Len(body) >= 3 THEN FromBits(SubSeq(BytesToBits(SubSeq(body, 1, 3)), 3, 24)) ELSE 0
\* the elementary stream's bit rate in bits/s (value x 50 bytes x 8 bits)
BitRate(tag, body) == MaxBitrate(tag, body) * 400

\* ISO_639_language_descriptor: ISO_639_language_code 24 | audio_type 8
LangCode(tag, body)  == IF tag = TagLanguage /\ Len(body) >= 3 THEN SubSeq(body, 1, 3) ELSE <<>>
AudioType(tag, body) == IF tag = TagLanguage /\ Len(body) >= 4 THEN body[4] ELSE 0

\* DVB extension descriptor carrying TTML subtitling: tag_extension 8 (0x20) | ISO_639 24 | purpose 6 | ...
TtmlLang(tag, body)    == IF tag = TagExtension /\ Len(body) >= 4 THEN SubSeq(body, 2, 4) ELSE <<>>
TtmlPurpose(tag, body) == IF tag = TagExtension /\ Len(body) >= 5 THEN body[5] \div 4 ELSE 255
IsTtmlEs(tag, body)    == tag = TagExtension /\ Len(body) >= 1 /\ body[1] = 32

\* registration descriptor with format_identifier "DOVI"
IsDovi(tag, body) == tag = TagRegistration /\ Len(body) >= 4 /\ SubSeq(body, 1, 4) = <<68, 79, 86, 73>>

\* Dolby Vision descriptor: version 16 | dv_profile 7 | dv_level 6 | rpu 1 | el 1 | bl 1
DvProfile(body) == FromBits(SubSeq(BytesToBits(SubSeq(body, 3, 4)), 1, 7))
DvLevel(body)   == FromBits(SubSeq(BytesToBits(SubSeq(body, 3, 4)), 8, 13))
Two(n) == IF n < 10 THEN "0" \o ToString(n) ELSE ToString(n)
DvCodecOf(profile, level) == "dvhe." \o Two(profile) \o "." \o Two(level)
DvCodec(tag, body) == IF tag = TagDolbyVision /\ Len(body) >= 4 THEN DvCodecOf(DvProfile(body), DvLevel(body)) ELSE ""
=============================================================================
