----------------------------- MODULE PacketWriter -----------------------------
(***************************************************************************)
(* The io.Writer / io.ReaderFrom adapters over a PacketWriter              *)
(* (packet/packetwriter.go, property C18).                                 *)
(*  PS = packet size (188 on the wire, small for model checking).          *)
(*  A packet writer is abstracted to "the k-th WritePacket call fails"     *)
(*  (failAt = 0: never).  A reader is a sequence of read results           *)
(*  [data, err] with err in {"nil", "eof", "fail"}; after the last listed  *)
(*  result it returns (nothing, eof).                                      *)
(*  Declarative part: ExpectWrite / ExpectReadFrom give the packets that   *)
(*  must be delivered and the result class.  Algorithmic part: the read    *)
(*  loop as a state machine; MC_C18 checks it refines the declarative part *)
(*  for every fragmentation.                                               *)
(***************************************************************************)
EXTENDS Naturals, Sequences

CONSTANT PS

RECURSIVE Chop(_, _)
\* the complete packets of a byte string, in order
Chop(s, acc) == IF Len(s) < PS THEN acc ELSE Chop(SubSeq(s, PS + 1, Len(s)), Append(acc, SubSeq(s, 1, PS)))
Packets(s) == Chop(s, <<>>)

\* deliveries with the failAt-th WritePacket failing: the failing call still receives its packet
Delivered(pkts, failAt) == IF failAt = 0 \/ failAt > Len(pkts) THEN pkts ELSE SubSeq(pkts, 1, failAt)
WriterFails(pkts, failAt) == failAt # 0 /\ failAt <= Len(pkts)

\* ---- Write(b) ----
\* result: [calls |-> packets passed to WritePacket in order, err |-> class, full |-> returned n = Len(b)]
ExpectWrite(b, failAt) ==
  IF Len(b) % PS # 0 THEN [calls |-> <<>>, err |-> "invalidlength", full |-> FALSE]
  ELSE LET pk == Packets(b) IN
       IF WriterFails(pk, failAt) THEN [calls |-> Delivered(pk, failAt), err |-> "writer", full |-> FALSE]
       ELSE [calls |-> pk, err |-> "nil", full |-> TRUE]

\* ---- ReadFrom(r) ----
RECURSIVE StreamOf(_, _, _)
\* bytes the reader yields up to and including the first result that carries an error
StreamOf(rs, i, acc) == IF i > Len(rs) THEN acc
                        ELSE IF rs[i].err # "nil" THEN acc \o rs[i].data
                        ELSE StreamOf(rs, i + 1, acc \o rs[i].data)
RECURSIVE EndOf(_, _)
EndOf(rs, i) == IF i > Len(rs) THEN "eof" ELSE IF rs[i].err # "nil" THEN rs[i].err ELSE EndOf(rs, i + 1)

\* result: calls, err class, n = number of bytes successfully delivered
ExpectReadFrom(rs, failAt) ==
  LET s  == StreamOf(rs, 1, <<>>)
      pk == Packets(s)
      partial == Len(s) % PS # 0 IN
  IF WriterFails(pk, failAt) THEN [calls |-> Delivered(pk, failAt), err |-> "writer", n |-> PS * (failAt - 1)]
  ELSE [calls |-> pk, n |-> PS * Len(pk),
        err |-> IF EndOf(rs, 1) = "fail" THEN "reader" ELSE IF partial THEN "invalidlength" ELSE "nil"]

(********************** the read loop as a state machine ********************)
VARIABLES rd,        \* reader results not yet consumed
          buf,       \* bytes of the packet being assembled
          calls,     \* packets passed to WritePacket so far
          n,         \* bytes delivered
          res,       \* "" while running, else the result class
          fa         \* failAt
vars == <<rd, buf, calls, n, res, fa>>

\* read until the packet buffer is full or the reader reports an error (io.ReadFull)
ReadMore == /\ res = "" /\ Len(buf) < PS
            /\ IF rd = <<>>
               THEN /\ res' = (IF Len(buf) > 0 THEN "invalidlength" ELSE "nil")
                    /\ UNCHANGED <<rd, buf, calls, n, fa>>
               ELSE LET r    == Head(rd)
                        take == IF Len(r.data) <= PS - Len(buf) THEN Len(r.data) ELSE PS - Len(buf)
                        rest == SubSeq(r.data, take + 1, Len(r.data)) IN
                    /\ buf' = buf \o SubSeq(r.data, 1, take)
                    /\ IF rest # <<>>                       \* the reader still holds the rest of this chunk
                       THEN rd' = <<[data |-> rest, err |-> r.err]>> \o Tail(rd) /\ UNCHANGED res
                       ELSE IF r.err = "nil" THEN rd' = Tail(rd) /\ UNCHANGED res
                       ELSE IF Len(buf') = PS
                            THEN rd' = <<[data |-> <<>>, err |-> r.err]>> \o Tail(rd) /\ UNCHANGED res  \* error seen on the next read
                            ELSE /\ rd' = <<>>
                                 /\ res' = (IF r.err = "fail" THEN "reader" ELSE IF Len(buf') > 0 THEN "invalidlength" ELSE "nil")
                    /\ UNCHANGED <<calls, n, fa>>
Deliver == /\ res = "" /\ Len(buf) = PS
           /\ calls' = Append(calls, buf) /\ buf' = <<>>
           /\ IF fa = Len(calls) + 1 THEN res' = "writer" /\ UNCHANGED n
              ELSE n' = n + PS /\ UNCHANGED res
           /\ UNCHANGED <<rd, fa>>
LoopNext == ReadMore \/ Deliver
=============================================================================
