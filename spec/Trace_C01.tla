----------------------------- MODULE Trace_C01 -----------------------------
(* Trace validation for C01: every recorded header call is the TsHeader action *)
EXTENDS TraceBase, TsHeader

GettersFailed(g, p) ==
  IF g.tei # (Get("tei", p) = 1) THEN "get-tei"
  ELSE IF g.pusi # (Get("pusi", p) = 1) \/ g.pusi_fn # g.pusi THEN "get-pusi"
  ELSE IF g.tp # (Get("tp", p) = 1) THEN "get-tp"
  ELSE IF g.pid # Get("pid", p) \/ g.pid_fn # g.pid THEN "get-pid"
  ELSE IF g.tsc # Get("tsc", p) THEN "get-tsc"
  ELSE IF g.afc # Get("afc", p) THEN "get-afc"
  ELSE IF g.cc # Get("cc", p) \/ g.cc_fn # g.cc THEN "get-cc"
  ELSE IF g.haspay # HasPayload(p) \/ g.haspay_fn # g.haspay THEN "get-haspayload"
  ELSE IF g.hasaf # HasAF(p) \/ g.hasaf_fn # g.hasaf THEN "get-hasaf"
  ELSE IF g.null # IsNull(p) \/ g.null_fn # g.null THEN "get-isnull"
  ELSE IF g.pat # IsPat(p) \/ g.pat_fn # g.pat THEN "get-ispat"
  ELSE IF g.valid # Valid(p) THEN "validate"
  ELSE ""

Expected(e) ==
  IF e.op = "get" THEN e.before
  ELSE IF e.op = "set" THEN Set(e.f, e.before, e.v)
  ELSE IF e.kind \in {"IncrementCC", "IncM"} THEN IncCC(e.before)
  ELSE IF e.kind \in {"ZeroCC", "ZeroM"} THEN ZeroCC(e.before)
  ELSE SetCC(e.before, e.v)

Verdict(e) ==
  IF e.panic # "" THEN "panic"
  ELSE IF Len(e.before) # 188 \/ Len(e.after) # 188 THEN "harness-bad-length"
  ELSE IF e.op = "set" /\ ~(e.f \in SettableFields /\ e.v \in FieldRange(e.f)) THEN "harness-bad-input"
  ELSE IF e.after # Expected(e) THEN "after-bytes"
  ELSE IF e.op = "ccfn" /\ ~e.arg_same THEN "argument-modified"
  ELSE IF e.op = "ccfn" /\ e.aliased THEN "result-aliases-argument"
  ELSE GettersFailed(e.g, e.after)

Init == l = 1
Next == /\ l <= Len(Trace) /\ l' = l + 1
        /\ Report(l, Verdict(Trace[l]))
=============================================================================
