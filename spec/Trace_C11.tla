----------------------------- MODULE Trace_C11 -----------------------------
(* Trace validation for C11: NewPESHeader getters, packet.PESHeader and pes.AlignedPUSI against Pes / TsPacket *)
EXTENDS TraceBase, Pes, TsPacket
PesVerdict(e) ==
  LET b == e.bytes IN
  IF ~WellFormed(b) \/ Len(b) < 7 THEN (IF e.lenient THEN "" ELSE "harness-not-wellformed")   \* fuzzer-chosen bytes need not be a PES start
  ELSE IF e.err THEN "wellformed-header-rejected"
  ELSE IF e.prefix # Prefix(b) THEN "start-code-prefix"
  ELSE IF e.sid # Sid(b) THEN "stream-id"
  ELSE IF e.data # Data(b) THEN "data"
  ELSE IF Opt(b) /\ e.dai # Dai(b) THEN "data-alignment-indicator"
  ELSE IF e.haspts # HasPTS(b) THEN "has-pts"
  ELSE IF e.hasdts # HasDTS(b) THEN "has-dts"
  ELSE IF HasPTS(b) /\ e.pts # PTS(b) THEN "pts-value"
  ELSE IF HasDTS(b) /\ e.dts # DTS(b) THEN "dts-value"
  ELSE IF ~e.input_same THEN "input-modified"
  ELSE ""
\* transport level: PES header bytes exactly when PUSI and the payload (>= 4 bytes) begins 00 00 01
TsVerdict(e) ==
  LET p == e.pkt IN
  IF ~WFLoose(p) THEN "harness-not-wellformed"
  ELSE LET pay == IF HasPayload(p) THEN PayloadPart(p) ELSE <<>>
           yes == Get("pusi", p) = 1 /\ HasPayload(p) /\ StartsPes(pay) IN
  IF yes /\ e.hdr_err THEN "pes-header-missing"
  ELSE IF ~yes /\ ~e.hdr_err THEN "pes-header-reported-without-start"
  ELSE IF yes /\ e.hdr # pay THEN "pes-header-bytes"
  ELSE IF yes /\ Len(pay) >= 7 /\ WellFormed(pay) /\ Opt(pay) THEN
       IF e.aligned_ok # Dai(pay) THEN "aligned-flag"
       ELSE IF e.aligned_ok /\ e.aligned # Data(pay) THEN "aligned-data"
       ELSE ""
  ELSE IF ~yes /\ e.aligned_ok THEN "aligned-without-start"
  ELSE ""
\* Create(pid, WithPES(pts)): a packet whose payload is a PES start carrying exactly that PTS
WithPesVerdict(e) ==
  LET p == e.pkt IN
  IF Len(p) # 188 THEN "harness-bad-length"
  ELSE IF Get("sync", p) # 71 \/ Get("pid", p) # e.pid THEN "withpes-sync-or-pid"
  ELSE IF ~HasPayload(p) \/ ~StartsPes(PayloadPart(p)) THEN "withpes-payload-is-not-a-pes-start"
  ELSE IF e.hdr_err THEN "withpes-pes-header-not-found"
  ELSE IF ~e.haspts \/ e.pts_back # e.pts THEN "withpes-pts-not-read-back"
  ELSE IF ~HasPTS(PayloadPart(p)) \/ PTS(PayloadPart(p)) # e.pts THEN "withpes-pts-bytes"
  ELSE ""
Verdict(e) == IF e.panic # "" THEN "panic"
  ELSE IF ~e.earlier_same THEN "object-returned-earlier-reads-differently-after-a-later-call"
              ELSE IF e.op = "withpes" THEN WithPesVerdict(e)
              ELSE IF e.op = "pes" THEN PesVerdict(e)
              ELSE IF e.op = "tspes" THEN TsVerdict(e)
              ELSE "harness-unknown-op"
Init == l = 1
Next == /\ l <= Len(Trace) /\ l' = l + 1
        /\ Report(l, Verdict(Trace[l]))
=============================================================================
