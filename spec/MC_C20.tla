------------------------------- MODULE MC_C20 -------------------------------
(* Sanity of PmtTypes: the bit-field readings agree with arithmetic readings on all 16-bit/sampled values *)
EXTENDS PmtTypes
VARIABLES x, y
Init == x \in 0..255 /\ y \in 0..255
Next == UNCHANGED <<x, y>>
DvOK == LET body == <<1, 0, x, y>> n == x * 256 + y IN
        /\ DvProfile(body) = n \div 512
        /\ DvLevel(body) = (n \div 8) % 64
        /\ DvCodec(176, body) = DvCodecOf(n \div 512, (n \div 8) % 64)
        /\ DvCodec(175, body) = ""
BrOK == /\ MaxBitrate(14, <<x, y, 7>>) = ((x % 64) * 65536) + (y * 256) + 7
        /\ MaxBitrate(13, <<x, y, 7>>) = 0
        /\ BitRate(14, <<x % 32, y, 7>>) = ((((x % 32) * 65536) + (y * 256) + 7) * 400)
LangOK == /\ LangCode(10, <<x, y, 3, 4>>) = <<x, y, 3>> /\ AudioType(10, <<x, y, 3, 4>>) = 4
          /\ AudioType(x, <<1, 2, 3, y>>) = (IF x = 10 THEN y ELSE 0)
          /\ TtmlPurpose(127, <<32, 1, 2, 3, x>>) = x \div 4 /\ TtmlPurpose(x, <<32, 1, 2, 3, y>>) = (IF x = 127 THEN y \div 4 ELSE 255)
ClassesOK == /\ ~(IsAudio(x) /\ IsVideo(x)) /\ (IsAudio(x) => LagsEbp(x))
             /\ Cardinality({c \in 0..255 : LagsEbp(c)}) = 7
=============================================================================
