CONSTANTS
  Depth = 3
  B12 = {0, 1, 255, 256, 8191, 8192, 16384, 32768, 65535, 43690, 21845}
  B0 = {71, 0}
  B3S = {0, 16, 255, 90}
SPECIFICATION Spec
INVARIANTS Partition MaskReading CCLaws
PROPERTY Frame
CHECK_DEADLOCK FALSE
