CONSTANTS Depth = 4
SPECIFICATION Spec
INVARIANTS BytesAreConcat PacketsAreThose RefusedBeforeStart NoPayloadIsError DoneExactlyAtThreshold DoneMeansPredicateHolds NotDoneMeansNotYet
CHECK_DEADLOCK FALSE
