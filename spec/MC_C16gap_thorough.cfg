CONSTANTS MaxPre = 3 MaxSuf = 5 Ns = {3, 4, 6}
INIT Init
NEXT Next
CHECK_DEADLOCK FALSE
