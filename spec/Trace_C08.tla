----------------------------- MODULE Trace_C08 -----------------------------
(***************************************************************************)
(* Trace validation for C08: NewSCTE35 on generated splice_info_sections.  *)
(* Each event carries the abstract section; TLC checks that the logged     *)
(* bytes are pointer_field ++ SectionOf(abs) (else a harness error) and    *)
(* then every getter of the decoded object, field by field, or the         *)
(* rejection class for sections outside the supported syntax.              *)
(***************************************************************************)
EXTENDS TraceBase, Scte35
AbsCmd(c) == CASE c.kind = "null" -> [kind |-> "null"]
               [] c.kind = "time" -> [kind |-> "time", spec |-> c.spec, pts |-> c.pts]
               [] c.kind = "insert" -> [kind |-> "insert", eid |-> c.eid, cancel |-> c.cancel, out |-> c.out, program |-> c.program,
                     hasdur |-> c.hasdur, immediate |-> c.immediate, spec |-> c.spec, pts |-> c.pts,
                     comps |-> [i \in 1..Len(c.comps) |-> [tag |-> c.comps[i].tag, spec |-> c.comps[i].spec, pts |-> c.comps[i].pts]],
                     autoret |-> c.autoret, dur |-> c.dur, upid |-> c.upid, avail |-> c.avail, avails |-> c.avails]
               [] OTHER -> [kind |-> "other", type |-> c.type, body |-> c.body]
AbsDesc(d) == IF d.kind = "foreign" THEN [kind |-> "foreign", tag |-> d.tag, body |-> d.body]
              ELSE [kind |-> "seg", ident |-> d.ident, eid |-> d.eid, cancel |-> d.cancel, progseg |-> d.progseg, hasdur |-> d.hasdur,
                    dnr |-> d.dnr, web |-> d.web, noblk |-> d.noblk, arch |-> d.arch, dev |-> d.dev,
                    comps |-> [i \in 1..Len(d.comps) |-> [tag |-> d.comps[i].tag, off |-> d.comps[i].off]],
                    dur |-> d.dur, upidtype |-> d.upidtype, upid |-> d.upid,
                    mid |-> [i \in 1..Len(d.mid) |-> [type |-> d.mid[i].type, upid |-> d.mid[i].upid]],
                    type |-> d.type, segnum |-> d.segnum, segexp |-> d.segexp, hassub |-> d.hassub, subnum |-> d.subnum, subexp |-> d.subexp]
Abs(a) == [tableid |-> a.tableid, ssi |-> a.ssi, priv |-> a.priv, protocol |-> a.protocol, enc |-> a.enc, encalg |-> a.encalg,
           ptsadj |-> a.ptsadj, cw |-> a.cw, tier |-> a.tier, cmd |-> AbsCmd(a.cmd),
           descs |-> [i \in 1..Len(a.descs) |-> AbsDesc(a.descs[i])], astuff |-> a.astuff]

Pointer(n) == <<n>> \o [i \in 1..n |-> 255]
Verdict(e) ==
  IF e.panic # "" THEN "panic"
  ELSE IF ~e.earlier_same THEN "object-returned-earlier-reads-differently-after-a-later-call"
  ELSE LET s == Abs(e.abs) IN
  IF e.bytes # Pointer(e.ptr) \o SectionOf(s) THEN "harness-bad-bytes"
  ELSE IF s.tableid # 252 THEN (IF e.err # "tableid" THEN "unknown-table-id-not-rejected" ELSE "")
  ELSE IF s.enc THEN (IF e.err # "encrypted" THEN "encrypted-section-not-rejected" ELSE "")
  ELSE IF s.cmd.kind = "other" THEN (IF e.err # "unsupported" THEN "unsupported-command-not-rejected" ELSE "")
  ELSE IF ~Supported(s) THEN (IF e.err = "nil" THEN "command-without-time-not-rejected" ELSE "")
  ELSE IF BadIdent(s) THEN (IF e.err # "descid" THEN "non-cuei-descriptor-not-rejected" ELSE "")
  ELSE IF e.err # "nil" THEN "wellformed-section-rejected-" \o e.err
  ELSE IF ~e.input_same THEN "input-modified"
  ELSE Getters(e.g, s)
Init == l = 1
Next == /\ l <= Len(Trace) /\ l' = l + 1
        /\ Report(l, Verdict(Trace[l]))
=============================================================================
