----------------------------- MODULE Trace_C08 -----------------------------
(***************************************************************************)
(* Trace validation for C08: NewSCTE35 on generated splice_info_sections.  *)
(* Each event carries the abstract section; TLC checks that the logged     *)
(* bytes are pointer_field ++ SectionOf(abs) (else a harness error) and    *)
(* then every getter of the decoded object, field by field, or the         *)
(* rejection class for sections outside the supported syntax.              *)
(***************************************************************************)
EXTENDS TraceBase, Scte35
AbsCmd(c) == CASE c.kind = "null" -> [kind |-> "null"]
               [] c.kind = "time" -> [kind |-> "time", spec |-> c.spec, pts |-> c.pts]
               [] c.kind = "insert" -> [kind |-> "insert", eid |-> c.eid, cancel |-> c.cancel, out |-> c.out, program |-> c.program,
                     hasdur |-> c.hasdur, immediate |-> c.immediate, spec |-> c.spec, pts |-> c.pts,
                     comps |-> [i \in 1..Len(c.comps) |-> [tag |-> c.comps[i].tag, spec |-> c.comps[i].spec, pts |-> c.comps[i].pts]],
                     autoret |-> c.autoret, dur |-> c.dur, upid |-> c.upid, avail |-> c.avail, avails |-> c.avails]
               [] OTHER -> [kind |-> "other", type |-> c.type, body |-> c.body]
AbsDesc(d) == IF d.kind = "foreign" THEN [kind |-> "foreign", tag |-> d.tag, body |-> d.body]
              ELSE [kind |-> "seg", ident |-> d.ident, eid |-> d.eid, cancel |-> d.cancel, progseg |-> d.progseg, hasdur |-> d.hasdur,
                    dnr |-> d.dnr, web |-> d.web, noblk |-> d.noblk, arch |-> d.arch, dev |-> d.dev,
                    comps |-> [i \in 1..Len(d.comps) |-> [tag |-> d.comps[i].tag, off |-> d.comps[i].off]],
                    dur |-> d.dur, upidtype |-> d.upidtype, upid |-> d.upid,
                    mid |-> [i \in 1..Len(d.mid) |-> [type |-> d.mid[i].type, upid |-> d.mid[i].upid]],
                    type |-> d.type, segnum |-> d.segnum, segexp |-> d.segexp, hassub |-> d.hassub, subnum |-> d.subnum, subexp |-> d.subexp]
Abs(a) == [tableid |-> a.tableid, ssi |-> a.ssi, priv |-> a.priv, protocol |-> a.protocol, enc |-> a.enc, encalg |-> a.encalg,
           ptsadj |-> a.ptsadj, cw |-> a.cw, tier |-> a.tier, cmd |-> AbsCmd(a.cmd),
           descs |-> [i \in 1..Len(a.descs) |-> AbsDesc(a.descs[i])], astuff |-> a.astuff]

InsertDiff(g, c) ==
  IF g.eid # c.eid THEN "insert-event-id"
  ELSE IF g.cancel # c.cancel THEN "insert-cancel"
  ELSE IF c.cancel THEN ""
  ELSE IF g.out # c.out THEN "insert-out-of-network"
  ELSE IF g.program # c.program THEN "insert-program-splice"
  ELSE IF g.hasdur # c.hasdur THEN "insert-duration-flag"
  ELSE IF g.immediate # c.immediate THEN "insert-immediate"
  ELSE IF ~c.program /\ Len(g.comps) # Len(c.comps) THEN "insert-component-count"
  ELSE IF ~c.program /\ \E i \in 1..Len(c.comps) : g.comps[i].tag # c.comps[i].tag THEN "insert-component-tag"
  ELSE IF ~c.program /\ ~c.immediate /\ \E i \in 1..Len(c.comps) : g.comps[i].haspts # c.comps[i].spec THEN "insert-component-time-flag"
  ELSE IF ~c.program /\ ~c.immediate /\ \E i \in 1..Len(c.comps) : c.comps[i].spec /\ g.comps[i].pts # Mod33(c.comps[i].pts) THEN "insert-component-time"
  ELSE IF c.hasdur /\ g.autoret # c.autoret THEN "insert-auto-return"
  ELSE IF c.hasdur /\ g.dur # Mod33(c.dur) THEN "insert-duration"
  ELSE IF g.upid # c.upid THEN "insert-unique-program-id"
  ELSE IF g.avail # c.avail \/ g.avails # c.avails THEN "insert-avails"
  ELSE ""
SegDiff(g, d) ==
  IF g.eid # d.eid THEN "seg-event-id"
  ELSE IF g.cancel # d.cancel THEN "seg-cancel"
  ELSE IF ~g.backref THEN "seg-does-not-refer-to-its-signal"
  ELSE IF d.cancel THEN ""
  ELSE IF g.progseg # d.progseg THEN "seg-program-segmentation"
  ELSE IF g.hasdur # d.hasdur THEN "seg-duration-flag"
  ELSE IF g.dnr # d.dnr THEN "seg-delivery-not-restricted"
  ELSE IF ~d.dnr /\ (g.web # d.web \/ g.noblk # d.noblk \/ g.arch # d.arch \/ g.dev # d.dev) THEN "seg-restriction-flags"
  ELSE IF ~d.progseg /\ Len(g.comps) # Len(d.comps) THEN "seg-component-count"
  ELSE IF ~d.progseg /\ \E i \in 1..Len(d.comps) : g.comps[i].tag # d.comps[i].tag THEN "seg-component-tag"
  ELSE IF ~d.progseg /\ \E i \in 1..Len(d.comps) : g.comps[i].off # Mod33(d.comps[i].off) THEN "seg-component-offset"
  ELSE IF d.hasdur /\ g.dur # Mod40(d.dur) THEN "seg-duration"
  ELSE IF g.upidtype # d.upidtype THEN "seg-upid-type"
  ELSE IF d.upidtype # 13 /\ g.upid # d.upid THEN "seg-upid"
  ELSE IF d.upidtype = 13 /\ Len(g.mid) # Len(d.mid) THEN "seg-mid-count"
  ELSE IF d.upidtype = 13 /\ \E i \in 1..Len(d.mid) : g.mid[i].type # d.mid[i].type \/ g.mid[i].upid # d.mid[i].upid THEN "seg-mid-entry"
  ELSE IF g.type # d.type THEN "seg-type-id"
  ELSE IF g.segnum # d.segnum \/ g.segexp # d.segexp THEN "seg-segment-numbers"
  ELSE IF g.hassub # d.hassub THEN "seg-has-sub-segments"
  ELSE IF d.hassub /\ (g.subnum # d.subnum \/ g.subexp # d.subexp) THEN "seg-sub-segment-numbers"
  ELSE ""
SegsOf(s) == SelectSeq(s.descs, LAMBDA d : d.kind = "seg")
RECURSIVE FirstSegDiff(_, _, _)
FirstSegDiff(gs, ds, i) == IF i > Len(ds) THEN "" ELSE IF SegDiff(gs[i], ds[i]) # "" THEN SegDiff(gs[i], ds[i]) ELSE FirstSegDiff(gs, ds, i + 1)
Getters(g, s) ==
  IF g.tier # s.tier THEN "tier"
  ELSE IF g.cmdtype # CmdType(s.cmd) THEN "command-type"
  ELSE IF g.haspts # CmdHasPts(s.cmd) \/ g.cmd_haspts # CmdHasPts(s.cmd) THEN "has-pts"
  ELSE IF CmdHasPts(s.cmd) /\ g.cmd_pts # CmdPts(s.cmd) THEN "command-pts"
  ELSE IF CmdHasPts(s.cmd) /\ g.pts # SignalPts(s) THEN "signal-pts-adjustment"
  ELSE IF s.cmd.kind = "insert" /\ InsertDiff(g.insert, s.cmd) # "" THEN InsertDiff(g.insert, s.cmd)
  ELSE IF Len(g.descs) # Len(SegsOf(s)) THEN "descriptor-count"
  ELSE FirstSegDiff(g.descs, SegsOf(s), 1)
Pointer(n) == <<n>> \o [i \in 1..n |-> 255]
Verdict(e) ==
  IF e.panic # "" THEN "panic"
  ELSE LET s == Abs(e.abs) IN
  IF e.bytes # Pointer(e.ptr) \o SectionOf(s) THEN "harness-bad-bytes"
  ELSE IF s.tableid # 252 THEN (IF e.err # "tableid" THEN "unknown-table-id-not-rejected" ELSE "")
  ELSE IF s.enc THEN (IF e.err # "encrypted" THEN "encrypted-section-not-rejected" ELSE "")
  ELSE IF s.cmd.kind = "other" THEN (IF e.err # "unsupported" THEN "unsupported-command-not-rejected" ELSE "")
  ELSE IF ~Supported(s) THEN (IF e.err = "nil" THEN "command-without-time-not-rejected" ELSE "")
  ELSE IF BadIdent(s) THEN (IF e.err # "descid" THEN "non-cuei-descriptor-not-rejected" ELSE "")
  ELSE IF e.err # "nil" THEN "wellformed-section-rejected-" \o e.err
  ELSE IF ~e.input_same THEN "input-modified"
  ELSE Getters(e.g, s)
Init == l = 1
Next == /\ l <= Len(Trace) /\ l' = l + 1
        /\ Report(l, Verdict(Trace[l]))
=============================================================================
