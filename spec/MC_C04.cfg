CONSTANT ExtSet = {1, 2, 127, 128, 255, 256, 257, 298, 299}
INIT Init
NEXT Next
INVARIANTS PcrRoundTrip PcrBitPositions PcrIgnoresReserved PtsRoundTrip PtsBitPositions PtsIgnoresMarkers
CHECK_DEADLOCK FALSE
