INIT Init
NEXT Next
INVARIANTS DvOK BrOK LangOK ClassesOK
CHECK_DEADLOCK FALSE
