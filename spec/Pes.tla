-------------------------------- MODULE Pes --------------------------------
(***************************************************************************)
(* PES packet header (ISO/IEC 13818-1 2.4.3.6/2.4.3.7, Table 2-21),        *)
(* property C11.                                                           *)
(*  x == [sid, plen, flags1, ptsdts, flags2lo, hdrlen, pts, dts, extra,    *)
(*        data]                                                            *)
(*  flags1  : the byte '10' scrambling(2) priority copyright... as sent    *)
(*            (bit 0x04 is data_alignment_indicator)                       *)
(*  ptsdts  : PTS_DTS_flags 0 | 2 | 3      flags2lo : the other six flags  *)
(*  hdrlen  : PES_header_data_length; pts/dts 8-digit wides; extra = the   *)
(*            header bytes after PTS/DTS (optional fields and stuffing)    *)
(* Stream ids defined without the optional header carry data right after   *)
(* PES_packet_length.                                                      *)
(***************************************************************************)
EXTENDS Timecodes

NoOptionalHeader == {190, 191, 240, 241, 242, 248, 255}
   \* padding_stream, private_stream_2, ECM, EMM, DSMCC, H.222.1 type E, program_stream_directory
HasOptional(sid) == sid \notin NoOptionalHeader

TsLen(x) == IF x.ptsdts = 2 THEN 5 ELSE IF x.ptsdts = 3 THEN 10 ELSE 0
WFAbs(x) == /\ x.sid \in Byte /\ x.plen \in 0..65535 /\ x.ptsdts \in {0, 2, 3}
            /\ HasOptional(x.sid) => (x.hdrlen \in Byte /\ x.hdrlen = TsLen(x) + Len(x.extra))

PesSer(x) ==
  <<0, 0, 1, x.sid, x.plen \div 256, x.plen % 256>>
  \o (IF HasOptional(x.sid)
      THEN <<x.flags1, (x.ptsdts * 64) + x.flags2lo, x.hdrlen>>
           \o (IF x.ptsdts = 2 THEN EncPTS(<<0, 0, 1, 0>>, x.pts)
               ELSE IF x.ptsdts = 3 THEN EncPTS(<<0, 0, 1, 1>>, x.pts) \o EncPTS(<<0, 0, 0, 1>>, x.dts)
               ELSE <<>>)
           \o x.extra
      ELSE <<>>)
  \o x.data

\* ---- what a decoder must report for bytes b that start a well-formed PES packet ----
StartsPes(b) == Len(b) >= 4 /\ b[1] = 0 /\ b[2] = 0 /\ b[3] = 1
Sid(b) == b[4]
Opt(b) == HasOptional(Sid(b))
PtsDts(b) == b[8] \div 64
HdrLen(b) == b[9]
\* well-formed start: complete fixed part, legal PTS_DTS_flags, header data holds the timestamps and is present
WellFormed(b) ==
  /\ StartsPes(b) /\ Len(b) >= 6
  /\ Opt(b) => /\ Len(b) >= 9
               /\ PtsDts(b) \in {0, 2, 3}
               /\ HdrLen(b) >= (IF PtsDts(b) = 2 THEN 5 ELSE IF PtsDts(b) = 3 THEN 10 ELSE 0)
               /\ Len(b) >= 9 + HdrLen(b)
Prefix(b) == (b[1] * 65536) + (b[2] * 256) + b[3]
Dai(b) == (b[7] \div 4) % 2 = 1
HasPTS(b) == Opt(b) /\ PtsDts(b) \in {2, 3}
HasDTS(b) == Opt(b) /\ PtsDts(b) = 3
PTS(b) == DecPTS(SubSeq(b, 10, 14))
DTS(b) == DecPTS(SubSeq(b, 15, 19))
DataStart(b) == IF Opt(b) THEN 9 + HdrLen(b) ELSE 6          \* number of header bytes
Data(b) == SubSeq(b, DataStart(b) + 1, Len(b))
=============================================================================
