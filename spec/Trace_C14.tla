----------------------------- MODULE Trace_C14 -----------------------------
(***************************************************************************)
(* Trace validation for C14: FilterPMTPacketsToPids on a packetised PMT,   *)
(* RemoveElementaryStreams / Pids / PIDExists on a decoded PMT.            *)
(***************************************************************************)
EXTENDS TraceBase, Pmt
AbsDescs(ds) == [i \in 1..Len(ds) |-> [tag |-> ds[i].tag, body |-> ds[i].body]]
Abs(a) == [program |-> a.program, version |-> a.version, cni |-> a.cni, pcrpid |-> a.pcrpid,
           progdescs |-> AbsDescs(a.progdescs),
           streams |-> [i \in 1..Len(a.streams) |-> [type |-> a.streams[i].type, pid |-> a.streams[i].pid, descs |-> AbsDescs(a.streams[i].descs)]]]
FilterVerdict(e) ==
  LET pmt == Abs(e.abs)
      pay == PmtPayload(e.ptr, <<>>, pmt, 0)
      pmtpid == Get("pid", e.packets[1])
      miss == Missing(pmt, e.pids, pmtpid) IN
  IF ~WFPmt(pmt) THEN "harness-bad-abs"
  ELSE IF ~IsCarriage(e.packets, pay) \/ \E i \in 1..Len(e.packets) : Get("pid", e.packets[i]) # pmtpid THEN "harness-bad-carriage"
  ELSE IF ~e.in_same THEN "input-packets-modified"
  ELSE IF e.pids = <<>> THEN
       (IF e.err \/ e.nil_out \/ e.out # e.packets THEN "empty-request-not-identity" ELSE "")
  ELSE IF miss = <<>> /\ e.err THEN "error-though-all-requested-pids-present"
  ELSE IF miss # <<>> /\ ~e.err THEN "no-error-though-pids-missing"
  ELSE IF miss # <<>> /\ e.err_pids # miss THEN "error-does-not-name-the-missing-pids"
  ELSE IF Len(miss) = Len(e.pids) THEN (IF ~e.nil_out THEN "packets-returned-though-no-requested-pid-present" ELSE "")
  ELSE IF e.nil_out THEN "no-packets-though-some-pids-present"
  ELSE LET want == FilteredPayload(e.ptr, pmt, e.pids)
           got  == Carried(e.out) IN
  IF Len(e.out) < 1 \/ Len(e.out) > Len(e.packets) THEN "output-packet-count"
  ELSE IF \E i \in 1..Len(e.out) : HeaderOf(e.out[i]) # HeaderOf(e.packets[i]) THEN "output-headers"
  ELSE IF Len(got) < Len(want) THEN "output-truncated"
  ELSE IF SubSeq(got, 1, Len(want)) # want THEN
       (IF SubSeq(got, 1, 1 + e.ptr) # Pointer(e.ptr) THEN "output-pointer-field"
        ELSE IF ~Residue0(SubSeq(got, 2 + e.ptr, Min(Len(got), 1 + e.ptr + 3 + PSecLen(got)))) THEN "output-crc"
        ELSE "output-section")
  ELSE IF \E i \in (Len(want) + 1)..Len(got) : got[i] # 255 THEN "output-padding"
  ELSE IF Len(e.out) > 1 /\ Len(Carried(SubSeq(e.out, 1, Len(e.out) - 1))) >= Len(want) THEN "more-packets-than-needed"
  ELSE ""
\* the three queries of a decoded PMT against an abstract PMT (stream list, PID list, PID-existence on a set of probes)
QueryVerdict(streams, pids, exists, again, want, tag) ==
  IF [i \in 1..Len(streams) |-> <<streams[i][1], streams[i][2]>>]
          # [i \in 1..Len(want.streams) |-> <<want.streams[i].type, want.streams[i].pid>>] THEN tag \o "streams"
  ELSE IF pids # PidList(want) THEN tag \o "pid-list"
  ELSE IF \E i \in 1..Len(exists) : exists[i][2] # (IF InSeq(exists[i][1], PidList(want)) THEN 1 ELSE 0) THEN tag \o "pid-exists"
  ELSE IF again # pids THEN tag \o "pid-list-changed-by-the-existence-query"
  ELSE ""
\* a history on one decoded PMT: (queries), removal, queries, second removal, queries - every answer is the one of the
\* stream list at that moment, whatever the object was asked before
RemoveVerdict(e) ==
  LET pmt == Abs(e.abs)  want == Remove(pmt, e.remove)  want2 == Remove(want, e.remove2)
      v0 == IF e.pre THEN QueryVerdict(e.streams_before, e.pids_before, e.exists_before, e.pids_again_before, pmt, "before-removal-") ELSE ""
      v1 == QueryVerdict(e.streams_after, e.pids_after, e.exists_after, e.pids_again_after, want, "remove-")
      v2 == QueryVerdict(e.streams_after2, e.pids_after2, e.exists_after2, e.pids_again_after2, want2, "second-removal-") IN
  IF ~WFPmt(pmt) \/ e.payload # PmtPayload(0, <<>>, pmt, 0) THEN "harness-bad-bytes"
  ELSE IF v0 # "" THEN v0 ELSE IF v1 # "" THEN v1 ELSE v2
Verdict(e) == IF e.panic # "" THEN "panic"
              ELSE IF ~e.earlier_same THEN "packets-returned-earlier-changed-by-a-later-call"
              ELSE IF e.op = "disturb" THEN ""    \* a call made only for its after-effects on the calls that follow
              ELSE IF e.op = "filter" THEN FilterVerdict(e)
              ELSE IF e.op = "remove" THEN RemoveVerdict(e)
              ELSE "harness-unknown-op"
Init == l = 1
Next == /\ l <= Len(Trace) /\ l' = l + 1
        /\ Report(l, Verdict(Trace[l]))
=============================================================================
