------------------------------- MODULE MC_C19 -------------------------------
(***************************************************************************)
(* Laws of C19 on the finite abstraction: over all pairs (a, b) of         *)
(* descriptors with type in T, event id in {1,2}, PTS in {1,2,none},       *)
(* segment numbers (1,1)/(1,2), sub-segments none/(1,1)/(1,2) and an       *)
(* ignored field u: Equal is symmetric, transitive, reflexive exactly on   *)
(* descriptors with a PTS, and a congruence for CanClose in both argument  *)
(* positions; no type is both in and out; a type without rules closes      *)
(* nothing; rule kinds used by the table are the known ones.               *)
(***************************************************************************)
EXTENDS SegRules, TLC
CONSTANT T
D == { [type |-> t, eid |-> e, haspts |-> (p # 0), pts |-> p, segnum |-> 1, segexp |-> s,
        hassub |-> (ss # 0), subnum |-> 1, subexp |-> ss, u |-> u]
       : t \in T, e \in {1, 2}, p \in {0, 1, 2}, s \in {1, 2}, ss \in {0, 1, 2}, u \in {0, 1} }
VARIABLES a, b
Init == a \in D /\ b \in D
Next == UNCHANGED <<a, b>>
Symmetric == Equal(a, b) = Equal(b, a)
Reflexive == Equal(a, a) = a.haspts
Transitive == Equal(a, b) => \A c \in D : Equal(b, c) => Equal(a, c)
Congruence == Equal(a, b) => \A c \in D : /\ CanClose(a, c) = CanClose(b, c)
                                          /\ CanClose(c, a) = CanClose(c, b)
NonTrivialEqual == \E x \in D, y \in D : x # y /\ Equal(x, y)
ASSUME NonTrivialEqual
ASSUME \A t \in 0..255 : ~(IsIn(t) /\ IsOut(t))
ASSUME \A t \in (0..255) \ InTypes : \A o \in 0..255 : \A x, y, z \in BOOLEAN : ~CanCloseBy(t, o, x, y, z)
ASSUME \A r \in RuleTable : \A e \in r[2] :
         e[2] \in {"Normal", "Unconditional", "Breakaway", "NoBreakaway", "EventID", "DiffPTS", "EventIDNotNested"}
\* each (incoming, open) pair has at most one rule
ASSUME \A r \in RuleTable : \A e1, e2 \in r[2] : e1[1] = e2[1] => e1 = e2
ASSUME \A r1, r2 \in RuleTable : r1[1] = r2[1] => r1 = r2
=============================================================================
