----------------------------- MODULE TraceBase -----------------------------
(***************************************************************************)
(* Skeleton shared by all trace-validation specs (binding B3).  The Go     *)
(* harness records one ndjson event per public call on the real code; a    *)
(* Trace_Cxx module consumes the file line by line.  Each line must be a   *)
(* step the specification allows; a line that is not is reported as        *)
(*     FAIL <line> <reason>                                                *)
(* and validation continues with the next history (so one failure does not *)
(* hide the rest).  The file name comes from the environment (VERIF_TRACE).*)
(* Acceptance = every line consumed (postcondition AllConsumed).           *)
(***************************************************************************)
EXTENDS Naturals, Sequences, TLC, Json, IOUtils

Trace == ndJsonDeserialize(IOEnv.VERIF_TRACE)

VARIABLE l            \* next line to consume (1-based)

Report(line, verdict) ==
  IF verdict = "" THEN TRUE ELSE PrintT("FAIL " \o ToString(line) \o " " \o verdict)

\* several independent findings on one line: one FAIL line each
ReportAll(line, verdicts) == \A i \in 1..Len(verdicts) : Report(line, verdicts[i])

Has(e, f) == f \in DOMAIN e

AllConsumed == /\ TLCGet("stats").diameter = Len(Trace) + 1
               /\ PrintT("DONE " \o ToString(Len(Trace)))
=============================================================================
