-------------------------------- MODULE Pat --------------------------------
(***************************************************************************)
(* Program association table (ISO/IEC 13818-1 2.4.4.3), property C07.      *)
(*  pat == [tsid, version, cni, entries : Seq(<<program_number, PID>>)]    *)
(* with distinct program numbers.  program_number 0 is the network entry.  *)
(***************************************************************************)
EXTENDS Psi

PatBody(pat) ==
  <<pat.tsid \div 256, pat.tsid % 256, 192 + (pat.version * 2) + BoolBit(pat.cni), 0, 0>>
  \o Flatten([i \in 1..Len(pat.entries) |->
        <<pat.entries[i][1] \div 256, pat.entries[i][1] % 256, 224 + (pat.entries[i][2] \div 256), pat.entries[i][2] % 256>>])
PatSection(pat) == Section(0, TRUE, FALSE, PatBody(pat))
\* the payload that carries it with pointer_field 0, padded with n stuffing bytes
PatPayload(pat, n) == <<0>> \o PatSection(pat) \o Rep(255, n)

\* field ranges only (a PAT that lists a program_number twice can still be serialised)
Encodable(pat) == /\ pat.tsid \in 0..65535 /\ pat.version \in 0..31
                  /\ \A i \in 1..Len(pat.entries) : pat.entries[i][1] \in 0..65535 /\ pat.entries[i][2] \in 0..8191
WFPat(pat) == /\ Encodable(pat)
              /\ \A i, j \in 1..Len(pat.entries) : i # j => pat.entries[i][1] # pat.entries[j][1]

NumPrograms(pat) == Len(pat.entries)
\* the program map as a sequence of <<program_number, PID>> in table order, network entry excluded
ProgramMap(pat) == SelectSeq(pat.entries, LAMBDA e : e[1] # 0)
MapPids(pat) == { ProgramMap(pat)[i][2] : i \in 1..Len(ProgramMap(pat)) }
\* single-program accessor: defined iff exactly one entry and it is a program
SptsDefined(pat) == Len(pat.entries) = 1 /\ pat.entries[1][1] # 0
SptsPid(pat) == pat.entries[1][2]
IsPmtPid(pid, pat) == pid \in MapPids(pat)
=============================================================================
