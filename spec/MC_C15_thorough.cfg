CONSTANTS MM = 512 LL = 40
INIT Init
NEXT Next
INVARIANTS PairOK AddOK DurIsModularDistance
CHECK_DEADLOCK FALSE
