------------------------------- MODULE MC_C15 -------------------------------
(***************************************************************************)
(* Design-level check of C15 on a scaled timeline (MM ticks, window LL):   *)
(* the reference operators of PtsCore satisfy every law of the property    *)
(* for ALL pairs and ALL distances 1..LL.  State = (p, q, d).              *)
(***************************************************************************)
EXTENDS PtsInt, TLC
VARIABLES p, q, d
vars == <<p, q, d>>
Init == p \in 0..(MM-1) /\ q \in 0..(MM-1) /\ d = 1
Next == /\ d < LL /\ d' = d + 1 /\ UNCHANGED <<p, q>>
PairOK == P!PairLawFailed(p, q, P!RolledOver(p, q), P!RolledOver(q, p), P!After(p, q), P!After(q, p),
                          P!GreaterOrEqual(p, q), P!GreaterOrEqual(q, p), P!Dur(p, q), P!Dur(q, p)) = ""
AddOK == LET r == P!AddMod(p, d) IN
         /\ r = (p + d) % MM
         /\ P!AddLawFailed(p, d, r, P!After(r, p), P!After(p, r), P!RolledOver(r, p), P!Dur(r, p), P!Dur(p, r)) = ""
\* the modular reading of the reference duration
DurIsModularDistance == P!Dur(p, q) = (IF P!After(p, q) THEN (p - q) % MM ELSE (q - p) % MM)
=============================================================================
