CONSTANT T = {0, 1, 16, 17, 18, 19, 20, 21, 23, 25, 32, 33, 34, 35, 36, 37, 38, 39, 48, 49, 50, 51, 52, 53, 54, 55, 60, 61, 64, 65, 66, 67, 68, 69, 80, 81, 255}
INIT Init
NEXT Next
INVARIANTS Symmetric Reflexive Transitive Congruence
CHECK_DEADLOCK FALSE
