------------------------------ MODULE Apa_C04 ------------------------------
(***************************************************************************)
(* C04 at full width over unbounded integers (Apalache, --length=0):       *)
(* the PCR and PTS field layouts of ISO/IEC 13818-1 written as integer     *)
(* arithmetic on the 48-bit / 40-bit field value.  For ALL pcr in          *)
(* [0, 2^33*300), ALL 33-bit pts, ALL values r of the reserved bits and    *)
(* ALL prefix/marker bit values m: decode(encode) is the identity and the  *)
(* decoded value does not depend on r / m.  MC_C04 (TLC) ties the byte-    *)
(* level module Timecodes to this arithmetic reading on a boundary family  *)
(* (PcrBitPositions / PtsBitPositions).                                    *)
(***************************************************************************)
EXTENDS Integers
VARIABLES
  \* @type: Int;
  v,
  \* @type: Int;
  r,
  \* @type: Int;
  t,
  \* @type: Int;
  m,
  \* @type: Int;
  a,
  \* @type: Int;
  b,
  \* @type: Int;
  c
P2(n) == 2^n
\* PCR: base 33 | reserved 6 | extension 9
EncPcr(x, res) == ((x \div 300) * 32768) + (res * 512) + (x % 300)
DecPcr(e) == ((e \div 32768) * 300) + (e % 512)
\* PTS: prefix 4 | v[32..30] | marker | v[29..15] | marker | v[14..0] | marker ; mk = the 7 non-value bits
EncPts(x, pre, m1, m2, m3) == (pre * 68719476736) + ((x \div 1073741824) * 8589934592) + (m1 * 4294967296)
                              + (((x \div 32768) % 32768) * 131072) + (m2 * 65536) + ((x % 32768) * 2) + m3
DecPts(e) == (((e \div 8589934592) % 8) * 1073741824) + (((e \div 131072) % 32768) * 32768) + ((e \div 2) % 32768)
Init == /\ v \in Int /\ r \in Int /\ t \in Int /\ m \in Int
        /\ 0 <= v /\ v < 8589934592 * 300 /\ 0 <= r /\ r < 64
        /\ 0 <= m /\ m < 128
        /\ a \in Int /\ b \in Int /\ c \in Int /\ 0 <= a /\ a < 8 /\ 0 <= b /\ b < 32768 /\ 0 <= c /\ c < 32768
        /\ t = (a * 1073741824) + (b * 32768) + c          \* the three slices of a 33-bit value
Next == UNCHANGED <<v, r, t, m, a, b, c>>
PcrInv == /\ DecPcr(EncPcr(v, 63)) = v
          /\ DecPcr(EncPcr(v, r)) = v
          /\ EncPcr(v, 63) < 281474976710656
\* the field value written slice by slice (what EncPts(t, ...) is for t = a*2^30 + b*2^15 + c)
EncSlices(pre, m1, m2, m3) == (pre * 68719476736) + (a * 8589934592) + (m1 * 4294967296) + (b * 131072) + (m2 * 65536) + (c * 2) + m3
PtsInv == LET pre == m \div 8  m1 == (m \div 4) % 2  m2 == (m \div 2) % 2  m3 == m % 2 IN
          /\ DecPts(EncSlices(pre, m1, m2, m3)) = t
          /\ EncSlices(pre, m1, m2, m3) < 1099511627776
=============================================================================
