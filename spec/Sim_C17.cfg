CONSTANTS Depth = 10
SPECIFICATION SimSpec
INVARIANTS Emit BytesAreConcat DoneMeansPredicateHolds
CHECK_DEADLOCK FALSE
