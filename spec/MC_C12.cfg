INIT Init
NEXT Next
INVARIANT RoundTrip
CHECK_DEADLOCK FALSE
