CONSTANTS PS = 3 MaxBytes = 7 MaxChunk = 4 MaxFail = 3
SPECIFICATION Spec
INVARIANTS Refines Terminates
CHECK_DEADLOCK FALSE
