----------------------------- MODULE Trace_C06 -----------------------------
(***************************************************************************)
(* Trace validation for C06: NewPMT on the concatenated payload, the       *)
(* completion predicate on every prefix, ExtractCRC, the psi accessors,    *)
(* ReadPMT over a packetised stream, and the table-header codec.  Each     *)
(* event carries the abstract PMT; TLC first checks that the logged bytes  *)
(* are its serialisation / a carriage of it (else a harness error).        *)
(***************************************************************************)
EXTENDS TraceBase, Pmt
AbsDescs(ds) == [i \in 1..Len(ds) |-> [tag |-> ds[i].tag, body |-> ds[i].body]]
Abs(a) == [program |-> a.program, version |-> a.version, cni |-> a.cni, pcrpid |-> a.pcrpid,
           progdescs |-> AbsDescs(a.progdescs),
           streams |-> [i \in 1..Len(a.streams) |-> [type |-> a.streams[i].type, pid |-> a.streams[i].pid, descs |-> AbsDescs(a.streams[i].descs)]]]
ObsStreams(o) == [i \in 1..Len(o) |-> [type |-> o[i].type, pid |-> o[i].pid, descs |-> AbsDescs(o[i].descs)]]
Decoded(e, pmt) ==
  IF e.err # "nil" THEN "wellformed-pmt-rejected"
  ELSE IF Len(e.streams) # Len(pmt.streams) THEN "stream-count"
  ELSE IF ObsStreams(e.streams) # StreamView(pmt) THEN
       (IF \E i \in 1..Len(e.streams) : e.streams[i].type # pmt.streams[i].type \/ e.streams[i].pid # pmt.streams[i].pid
        THEN "stream-type-or-pid" ELSE "stream-descriptors")
  ELSE IF e.pids # PidList(pmt) THEN "pid-list"
  ELSE IF \E i \in 1..Len(e.exists) : e.exists[i][2] # (IF InSeq(e.exists[i][1], PidList(pmt)) THEN 1 ELSE 0) THEN "pid-exists"
  ELSE IF e.version # pmt.version THEN "version-number"
  ELSE IF e.cni # pmt.cni THEN "current-next-indicator"
  ELSE ""
PmtVerdict(e) ==
  LET pmt == Abs(e.abs)  p == e.payload IN
  IF ~WFPmt(pmt) THEN "harness-bad-abs"
  ELSE IF p # PmtPayload(e.ptr, e.before, pmt, e.stuff) THEN "harness-bad-bytes"
  ELSE IF Decoded(e, pmt) # "" THEN Decoded(e, pmt)
  ELSE IF { e.done_true[i] : i \in 1..Len(e.done_true) } # DoneLengths(p) THEN
       (IF \E i \in 1..Len(e.done_true) : e.done_true[i] \notin DoneLengths(p) THEN "done-true-on-incomplete-prefix" ELSE "done-false-on-complete-payload")
  ELSE IF e.done_err THEN "done-returned-error"
  ELSE IF e.pf # e.ptr THEN "pointer-field-accessor"
  ELSE IF e.tid # PTableId(p) THEN "table-id-accessor"
  ELSE IF e.ssi # PSsi(p) THEN "section-syntax-indicator-accessor"
  ELSE IF e.priv # PPriv(p) THEN "private-indicator-accessor"
  ELSE IF e.slen # PSecLen(p) THEN "section-length-accessor"
  ELSE IF e.ptr = 0 /\ e.before = <<>> /\ (e.crc_err \/ e.crc # SubSeq(PmtSection(pmt), Len(PmtSection(pmt)) - 3, Len(PmtSection(pmt)))) THEN "extract-crc"
  ELSE IF ~e.input_same THEN "input-modified"
  ELSE ""
ReadVerdict(e) ==
  LET pmt == Abs(e.abs)
      mine == OnPid(e.packets, e.pid)
      pay == PmtPayload(e.ptr, e.before, pmt, 0) IN
  IF ~WFPmt(pmt) THEN "harness-bad-abs"
  \* (e.lead_n copies of the packet e.lead of another PID come first: they are not packets of this table)
  ELSE IF e.lead_n > 0 /\ (Len(e.lead) # 188 \/ Get("pid", e.lead) = e.pid) THEN "harness-bad-lead"
  ELSE IF ~IsCarriage(mine, pay) THEN "harness-bad-carriage"
  ELSE IF Len(pmt.streams) = 0 THEN (IF e.err = "nil" THEN "empty-pmt-not-skipped" ELSE "")
  ELSE Decoded(e, pmt)
ThVerdict(e) ==
  IF e.data # TableHeaderBytes(e.tid, e.ssi, e.priv, e.slen) THEN "table-header-encode"
  ELSE IF e.back_tid # e.tid \/ e.back_ssi # e.ssi \/ e.back_priv # e.priv \/ e.back_slen # (e.slen % 1024) THEN "table-header-round-trip"
  ELSE IF ~e.zero_hdr THEN "new-table-header-not-zero"
  ELSE IF e.pf # <<e.pf_n>> \o [i \in 1..e.pf_n |-> 255] THEN "new-pointer-field"
  ELSE ""
Verdict(e) == IF e.panic # "" THEN "panic"
              ELSE IF ~e.earlier_same THEN "table-returned-earlier-reads-differently-after-a-later-call"
              ELSE IF e.op = "pmt" THEN PmtVerdict(e)
              ELSE IF e.op = "readpmt" THEN ReadVerdict(e)
              ELSE IF e.op = "th" THEN ThVerdict(e)
              ELSE "harness-unknown-op"
Init == l = 1
Next == /\ l <= Len(Trace) /\ l' = l + 1
        /\ Report(l, Verdict(Trace[l]))
=============================================================================
