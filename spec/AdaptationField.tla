--------------------------- MODULE AdaptationField ---------------------------
(***************************************************************************)
(* The adaptation field of ISO/IEC 13818-1 section 2.4.3.4 (Table 2-6) as  *)
(* a logical record and its serialisation, and the edit operations of the  *)
(* packet API as functions on that record (properties C03, C02).           *)
(*                                                                         *)
(*  a == [len, disc, rai, espi, haspcr, pcr, hasopcr, opcr, hassplice,     *)
(*        splice, hastpd, tpd, hasafe, afe]                                *)
(*  len    adaptation_field_length (1..183 when flags are present)         *)
(*  pcr/opcr : 6 bytes when present (<<>> when absent)                     *)
(*  splice : splice_countdown byte;  tpd : transport_private_data bytes    *)
(*  afe    : the bytes following adaptation_field_extension_length         *)
(* Serialisation: length byte, flags byte, optional fields in the standard *)
(* order, then 0xFF stuffing up to len.                                    *)
(***************************************************************************)
EXTENDS Bits

PacketSize == 188

Content(a) == 1 + (IF a.haspcr THEN 6 ELSE 0) + (IF a.hasopcr THEN 6 ELSE 0) + (IF a.hassplice THEN 1 ELSE 0)
                + (IF a.hastpd THEN 1 + Len(a.tpd) ELSE 0) + (IF a.hasafe THEN 1 + Len(a.afe) ELSE 0)
Fits(a) == Content(a) <= a.len

FlagsByte(a) == FromBits(<<BoolBit(a.disc), BoolBit(a.rai), BoolBit(a.espi), BoolBit(a.haspcr),
                           BoolBit(a.hasopcr), BoolBit(a.hassplice), BoolBit(a.hastpd), BoolBit(a.hasafe)>>)
Fields(a) == (IF a.haspcr THEN a.pcr ELSE <<>>) \o (IF a.hasopcr THEN a.opcr ELSE <<>>)
             \o (IF a.hassplice THEN <<a.splice>> ELSE <<>>)
             \o (IF a.hastpd THEN <<Len(a.tpd)>> \o a.tpd ELSE <<>>)
             \o (IF a.hasafe THEN <<Len(a.afe)>> \o a.afe ELSE <<>>)
\* the 1 + len bytes of the adaptation field (defined when Fits(a))
Ser(a) == <<a.len, FlagsByte(a)>> \o Fields(a) \o Rep(255, a.len - Content(a))

\* ---- parsing the bytes af = p[5 .. 5+len] of a packet (af[1] is the length byte, len >= 1) ----
\* Parse is total: a field that does not fit is reported by ok = FALSE.
Parse(af) ==
  LET len == af[1]
      fb  == ByteBitsTab[af[2]]
      o1  == 3                                   \* index in af of the first optional field
      haspcr == fb[4] = 1   hasopcr == fb[5] = 1   hassp == fb[6] = 1   hastpd == fb[7] = 1   hasafe == fb[8] = 1
      o2  == o1 + (IF haspcr THEN 6 ELSE 0)
      o3  == o2 + (IF hasopcr THEN 6 ELSE 0)
      o4  == o3 + (IF hassp THEN 1 ELSE 0)
      end == len + 1                             \* last index of the adaptation field
      tpdOK  == ~hastpd \/ (o4 <= end /\ o4 + af[o4] <= end)
      tpdLen == IF hastpd /\ tpdOK THEN af[o4] ELSE 0
      o5  == o4 + (IF hastpd THEN 1 + tpdLen ELSE 0)
      afeOK  == ~hasafe \/ (tpdOK /\ o5 <= end /\ o5 + af[o5] <= end)
      afeLen == IF hasafe /\ afeOK THEN af[o5] ELSE 0
      o6  == o5 + (IF hasafe THEN 1 + afeLen ELSE 0)   \* first stuffing index
      ok  == len >= 1 /\ Len(af) = len + 1 /\ o4 - 1 <= end /\ tpdOK /\ afeOK /\ o6 - 1 <= end
  IN [ ok |-> ok,
       a  |-> IF ~ok THEN [len |-> len] ELSE
              [ len |-> len, disc |-> fb[1] = 1, rai |-> fb[2] = 1, espi |-> fb[3] = 1,
                haspcr |-> haspcr, pcr |-> (IF haspcr THEN SubSeq(af, o1, o1 + 5) ELSE <<>>),
                hasopcr |-> hasopcr, opcr |-> (IF hasopcr THEN SubSeq(af, o2, o2 + 5) ELSE <<>>),
                hassplice |-> hassp, splice |-> (IF hassp THEN af[o3] ELSE 0),
                hastpd |-> hastpd, tpd |-> (IF hastpd THEN SubSeq(af, o4 + 1, o4 + tpdLen) ELSE <<>>),
                hasafe |-> hasafe, afe |-> (IF hasafe THEN SubSeq(af, o5 + 1, o5 + afeLen) ELSE <<>>) ],
       stuffingFrom |-> o6 ]
\* well-formed = parses and everything after the content is 0xFF stuffing
Canonical(af) == LET r == Parse(af) IN r.ok /\ Ser(r.a) = af

Blank(len) == [len |-> len, disc |-> FALSE, rai |-> FALSE, espi |-> FALSE, haspcr |-> FALSE, pcr |-> <<>>,
               hasopcr |-> FALSE, opcr |-> <<>>, hassplice |-> FALSE, splice |-> 0,
               hastpd |-> FALSE, tpd |-> <<>>, hasafe |-> FALSE, afe |-> <<>>]

(***************************************************************************)
(* Edit operations: Edit(a, op, arg) is the SET of acceptable results      *)
(* [a |-> record', err |-> BOOLEAN].  The set has more than one element    *)
(* only where the value of a newly present field is unspecified (PCR,      *)
(* OPCR, splice countdown): then `anyPcr` / `anySplice` stand for "any".   *)
(* Contract (C03): a value for an absent field -> error, unchanged;        *)
(* content would exceed len -> error, unchanged; otherwise no error.       *)
(***************************************************************************)
OrErr(a, b) == IF Fits(b) THEN [a |-> b, err |-> FALSE] ELSE [a |-> a, err |-> TRUE]
OK(b)  == [a |-> b, err |-> FALSE]
Err(a) == [a |-> a, err |-> TRUE]

\* deterministic operations; for the three "newly present, value unspecified" cases the caller
\* supplies the observed new value (nv) so that validation binds it
Apply(a, op, arg, nv) ==
  CASE op = "SetDiscontinuity"              -> OK([a EXCEPT !.disc = arg])
    [] op = "SetRandomAccess"               -> OK([a EXCEPT !.rai = arg])
    [] op = "SetElementaryStreamPriority"   -> OK([a EXCEPT !.espi = arg])
    [] op = "SetHasPCR" ->
         IF arg = a.haspcr THEN OK(a)
         ELSE IF arg THEN OrErr(a, [a EXCEPT !.haspcr = TRUE, !.pcr = nv])
         ELSE OK([a EXCEPT !.haspcr = FALSE, !.pcr = <<>>])
    [] op = "SetPCR"  -> IF a.haspcr THEN OK([a EXCEPT !.pcr = arg]) ELSE Err(a)
    [] op = "SetHasOPCR" ->
         IF arg = a.hasopcr THEN OK(a)
         ELSE IF arg THEN OrErr(a, [a EXCEPT !.hasopcr = TRUE, !.opcr = nv])
         ELSE OK([a EXCEPT !.hasopcr = FALSE, !.opcr = <<>>])
    [] op = "SetOPCR" -> IF a.hasopcr THEN OK([a EXCEPT !.opcr = arg]) ELSE Err(a)
    [] op = "SetHasSplicingPoint" ->
         IF arg = a.hassplice THEN OK(a)
         ELSE IF arg THEN OrErr(a, [a EXCEPT !.hassplice = TRUE, !.splice = nv])
         ELSE OK([a EXCEPT !.hassplice = FALSE, !.splice = 0])
    [] op = "SetSpliceCountdown" -> IF a.hassplice THEN OK([a EXCEPT !.splice = arg]) ELSE Err(a)
    [] op = "SetHasTransportPrivateData" ->
         IF arg = a.hastpd THEN OK(a)
         ELSE IF arg THEN OrErr(a, [a EXCEPT !.hastpd = TRUE, !.tpd = <<>>])      \* newly present: empty
         ELSE OK([a EXCEPT !.hastpd = FALSE, !.tpd = <<>>])                       \* removal removes all of it
    [] op = "SetTransportPrivateData" ->
         IF a.hastpd THEN OrErr(a, [a EXCEPT !.tpd = arg]) ELSE Err(a)
    [] op = "SetHasAdaptationFieldExtension" ->
         IF arg = a.hasafe THEN OK(a)
         ELSE IF arg THEN OrErr(a, [a EXCEPT !.hasafe = TRUE, !.afe = <<>>])
         ELSE OK([a EXCEPT !.hasafe = FALSE, !.afe = <<>>])
    [] op = "SetAdaptationFieldExtension" ->
         IF a.hasafe THEN OrErr(a, [a EXCEPT !.afe = arg]) ELSE Err(a)
    [] op = "SetAdaptationField" ->     \* arg is the source's logical record: copy flags and fields, keep len
         OrErr(a, [arg EXCEPT !.len = a.len])
    [] OTHER -> Err(a)
=============================================================================
