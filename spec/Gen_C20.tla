------------------------------ MODULE Gen_C20 ------------------------------
(* B1: stream-type predicate table for all 256 codes and the Dolby Vision codec strings for profile x level *)
EXTENDS PmtTypes, Json
ASSUME \A c \in 0..255 : PrintT("TAB " \o ToJson([t |-> "st", code |-> c, audio |-> IsAudio(c), video |-> IsVideo(c),
                                  scte35 |-> IsScte35(c), id3 |-> IsId3(c), private |-> IsPrivate(c), lags |-> LagsEbp(c)]))
ASSUME \A p \in 0..127 : PrintT("TAB " \o ToJson([t |-> "dv", profile |-> p, codec |-> [lv \in 1..32 |-> DvCodecOf(p, lv - 1)]]))
=============================================================================
