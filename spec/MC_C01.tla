------------------------------- MODULE MC_C01 -------------------------------
(***************************************************************************)
(* Design-level check of the header model: starting from every value of    *)
(* (b1, b2) x a few (b0, b3) x one body byte, any setter with any value    *)
(* from a boundary set is applied repeatedly.  Action property Frame: after*)
(* Set(f, v) the getter of f returns v, every other field and the body are *)
(* unchanged.  Invariant Partition: the eight fields determine the header. *)
(***************************************************************************)
EXTENDS TsHeader, TLC
CONSTANTS Depth, B12, B0, B3S        \* explored (b1*256+b2) values, sync bytes, b3 values
VARIABLES p, lastf, lastv, n
vars == <<p, lastf, lastv, n>>
Vals(f) == IF f = "pid" THEN {0, 1, 255, 256, 4095, 4096, 8190, 8191} ELSE FieldRange(f)
Init == /\ \E x \in B12, b0 \in B0, b3 \in B3S, body \in {0, 255} :
              p = <<b0, x \div 256, x % 256, b3, body>>
        /\ lastf = "none" /\ lastv = 0 /\ n = 0
Next == \E f \in SettableFields : \E v \in Vals(f) :
          /\ n < Depth /\ n' = n + 1 /\ p' = Set(f, p, v) /\ lastf' = f /\ lastv' = v
Frame == [][ /\ Get(lastf', p') = lastv'
             /\ \A g \in FieldNames \ {lastf'} : Get(g, p') = Get(g, p)
             /\ p'[5] = p[5] /\ Len(p') = 5 ]_vars
\* a header is determined by its field values (the fields partition the 32 bits)
Rebuild(q) == LET z  == <<0, 0, 0, 0>> \o SubSeq(q, 5, Len(q))
                  s1 == Set("sync", z, Get("sync", q))   s2 == Set("tei", s1, Get("tei", q))
                  s3 == Set("pusi", s2, Get("pusi", q))  s4 == Set("tp", s3, Get("tp", q))
                  s5 == Set("pid", s4, Get("pid", q))    s6 == Set("tsc", s5, Get("tsc", q))
                  s7 == Set("afc", s6, Get("afc", q))    s8 == Set("cc", s7, Get("cc", q))
              IN s8
Partition == Rebuild(p) = p
\* mask-and-shift reading of the same table (what an implementation would write)
MaskReading ==
  /\ Get("tei", p)  = p[2] \div 128
  /\ Get("pusi", p) = (p[2] \div 64) % 2
  /\ Get("tp", p)   = (p[2] \div 32) % 2
  /\ Get("pid", p)  = (p[2] % 32) * 256 + p[3]
  /\ Get("tsc", p)  = p[4] \div 64
  /\ Get("afc", p)  = (p[4] \div 16) % 4
  /\ Get("cc", p)   = p[4] % 16
  /\ Get("sync", p) = p[1]
CCLaws == /\ Get("cc", IncCC(p)) = (Get("cc", p) + 1) % 16
          /\ Get("cc", ZeroCC(p)) = 0
          /\ \A g \in FieldNames \ {"cc"} : Get(g, IncCC(p)) = Get(g, p)
Spec == Init /\ [][Next]_vars
=============================================================================
