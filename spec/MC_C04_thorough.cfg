CONSTANT ExtSet <- ExtAll
INIT Init
NEXT Next
INVARIANTS PcrRoundTrip PcrBitPositions PcrIgnoresReserved PtsRoundTrip PtsBitPositions PtsIgnoresMarkers
CHECK_DEADLOCK FALSE
