----------------------------- MODULE Trace_C09 -----------------------------
(***************************************************************************)
(* Trace validation for C09 (SCTE-35 encoding and the setter API).         *)
(*  "set"    one setter call: the matching getter read back must be the    *)
(*           argument truncated to the field width (flags: the argument),  *)
(*           and Data() must still be the last encoding.                   *)
(*  "encode" UpdateData(): the bytes must be Scte35!SectionOf of the       *)
(*           abstract section assembled from ALL getters read just before  *)
(*           the call (plus the header fields that have no getter, known   *)
(*           from creation or from the decoded source); encoding twice is  *)
(*           idempotent; Data() returns it; decoding the bytes reports the *)
(*           same values; a decoded canonical section re-encodes to itself.*)
(* The history state is the last encoding (for the Data() clause).         *)
(***************************************************************************)
EXTENDS TraceBase, Scte35
VARIABLE st          \* [ok, raw]

\* ---- assembling the abstract section from the getters ----
InsOf(gi, hp, pts) == [kind |-> "insert", eid |-> gi.eid, cancel |-> gi.cancel, out |-> gi.out, program |-> gi.program, hasdur |-> gi.hasdur,
              immediate |-> gi.immediate, spec |-> hp, pts |-> pts,
              comps |-> [i \in 1..Len(gi.comps) |-> [tag |-> gi.comps[i].tag, spec |-> gi.comps[i].haspts, pts |-> gi.comps[i].pts]],
              autoret |-> gi.autoret, dur |-> gi.dur, upid |-> gi.upid, avail |-> gi.avail, avails |-> gi.avails]
CmdOf(g) == CASE g.cmdtype = 0 -> [kind |-> "null"]
              [] g.cmdtype = 6 -> [kind |-> "time", spec |-> g.cmd_haspts, pts |-> g.cmd_pts]
              [] g.cmdtype = 5 -> InsOf(g.insert, g.cmd_haspts, g.cmd_pts)
              [] OTHER -> [kind |-> "other", type |-> g.cmdtype, body |-> <<>>]
SegOf(d) == [kind |-> "seg", ident |-> CUEI, eid |-> d.eid, cancel |-> d.cancel, progseg |-> d.progseg, hasdur |-> d.hasdur, dnr |-> d.dnr,
             web |-> d.web, noblk |-> d.noblk, arch |-> d.arch, dev |-> d.dev % 4,
             comps |-> [i \in 1..Len(d.comps) |-> [tag |-> d.comps[i].tag, off |-> d.comps[i].off]],
             dur |-> d.dur, upidtype |-> d.upidtype, upid |-> d.upid,
             mid |-> [i \in 1..Len(d.mid) |-> [type |-> d.mid[i].type, upid |-> d.mid[i].upid]],
             type |-> d.type, segnum |-> d.segnum, segexp |-> d.segexp,
             hassub |-> (d.hassub /\ d.type \in {52, 54}), subnum |-> d.subnum, subexp |-> d.subexp]
\* descriptors in the order given by `order` ("s" = next segmentation descriptor, "f" = next foreign one)
RECURSIVE Interleave(_, _, _, _, _)
Interleave(order, segs, fors, i, acc) ==
  IF i > Len(order) THEN acc
  ELSE IF order[i] = "s" THEN Interleave(order, Tail(segs), fors, i + 1, Append(acc, SegOf(Head(segs))))
  ELSE Interleave(order, segs, Tail(fors), i + 1, Append(acc, [kind |-> "foreign", tag |-> Head(fors).tag, body |-> Head(fors).body]))
\* pts_adjustment: (signal PTS - command pts_time) mod 2^33 when the command carries a time; otherwise not determined
AdjOf(g, observed) ==
  LET c == CmdOf(g) IN
  IF CmdHasPts(c) THEN (IF WLe(Mod33(g.cmd_pts), Mod33(g.pts)) THEN WSub(Mod33(g.pts), Mod33(g.cmd_pts))
                        ELSE WSub(WAdd(Mod33(g.pts), WPow2(33, 8), 8), Mod33(g.cmd_pts)))
  ELSE observed
AbsOf(e, observedAdj) ==
  [tableid |-> e.fixed.tableid, ssi |-> e.fixed.ssi, priv |-> e.fixed.priv, protocol |-> e.fixed.protocol, enc |-> FALSE,
   encalg |-> e.fixed.encalg, ptsadj |-> AdjOf(e.g, observedAdj), cw |-> e.fixed.cw, tier |-> e.g.tier, cmd |-> CmdOf(e.g),
   descs |-> Interleave(e.order, e.g.descs, e.foreign, 1, <<>>), astuff |-> [i \in 1..e.g.astuff |-> 0]]
\* the pts_adjustment carried by encoded bytes (bytes 5..9 of the section, low 33 bits)
ObservedAdj(b) == IF Len(b) >= 9 THEN WFromBitsN(SubSeq(BytesToBits(SubSeq(b, 5, 9)), 8, 40), 8) ELSE WZero(8)

\* which part of the section differs first (diagnosis for signatures)
Where(b, x, s) ==
  LET cb == Len(CmdBytes(s.cmd)) IN
  IF Len(b) >= 3 /\ SubSeq(b, 1, 3) # SubSeq(x, 1, 3) THEN "table-header-or-section-length"
  ELSE IF Len(b) >= 14 /\ SubSeq(b, 4, 14) # SubSeq(x, 4, 14) THEN "fixed-fields-or-command-length"
  ELSE IF Len(b) >= 14 + cb /\ SubSeq(b, 15, 14 + cb) # SubSeq(x, 15, 14 + cb) THEN "splice-command-" \o s.cmd.kind
  ELSE IF Len(b) = Len(x) /\ SubSeq(b, 1, Len(b) - 4) = SubSeq(x, 1, Len(x) - 4) THEN "crc"
  ELSE IF b = SectionOf([s EXCEPT !.descs = SelectSeq(s.descs, LAMBDA d : d.kind = "foreign") \o SelectSeq(s.descs, LAMBDA d : d.kind = "seg")])
       THEN "descriptor-loop-foreign-descriptors-moved-in-front-of-segmentation-descriptors"
  ELSE "descriptor-loop"

EncodeVerdict(e, raw) ==
  LET b == e.bytes
      s == AbsOf(e, ObservedAdj(b))
      x == SectionOf(s) IN
  IF Len(e.order) # Len(e.g.descs) + Len(e.foreign) THEN "harness-bad-order"
  ELSE IF \E i \in 1..Len(e.g.descs) : ~e.g.descs[i].backref THEN "descriptor-does-not-refer-to-the-signal-that-carries-it"
  ELSE IF e.data_before # raw THEN "data-changed-without-encoding"
  ELSE IF ~Representable(s) THEN ""      \* the value has no encoding (a length exceeds its field): nothing to compare
  ELSE IF b # x THEN "not-canonical-" \o Where(b, x, s)
  ELSE IF e.bytes2 # b THEN "encoding-not-idempotent"
  ELSE IF e.data_after # b THEN "data-accessor-not-updated"
  ELSE IF e.has_src /\ e.src # b THEN "reencoding-differs-from-canonical-source"
  ELSE IF Supported(s) /\ e.err2 # "nil" THEN "own-encoding-rejected-" \o e.err2
  ELSE IF Supported(s) /\ Getters(e.g2, s) # "" THEN "decode-of-encoding-reports-different-" \o Getters(e.g2, s)
  ELSE ""

\* ---- setter -> getter ----
Expect(e) ==
  CASE e.field = "tier" -> e.arg % 4096
    [] e.field \in {"cmd.pts", "ins.comp.pts"} -> Mod33(e.arg)
    [] e.field = "seg.dur" -> Mod40(e.arg)
    [] e.field = "seg.upid" -> (IF e.ctx_upidtype = 13 THEN <<>> ELSE e.arg)
    [] e.field = "seg.mid" -> (IF e.ctx_upidtype = 13 THEN e.arg ELSE <<>>)
    [] OTHER -> e.arg
\* ---- frame condition: a setter changes its own field (and the documented coupled ones) only ----
SigKeys == {"tier", "pts", "haspts", "cmd_pts", "cmd_haspts", "astuff", "cmdtype"}
Strip(field) == CASE field = "seg.eid" -> "eid" [] field = "seg.type" -> "type" [] field = "seg.cancel" -> "cancel"
                  [] field = "seg.hasdur" -> "hasdur" [] field = "seg.dur" -> "dur" [] field = "seg.upidtype" -> "upidtype"
                  [] field = "seg.upid" -> "upid" [] field = "seg.segnum" -> "segnum" [] field = "seg.segexp" -> "segexp"
                  [] field = "seg.subnum" -> "subnum" [] field = "seg.subexp" -> "subexp" [] field = "seg.progseg" -> "progseg"
                  [] field = "seg.dnr" -> "dnr" [] field = "seg.web" -> "web" [] field = "seg.arch" -> "arch" [] field = "seg.noblk" -> "noblk"
                  [] field = "seg.dev" -> "dev" [] field = "seg.hassub" -> "hassub" [] field = "seg.mid" -> "mid" [] field = "seg.comps" -> "comps"
                  [] field = "ins.eid" -> "eid" [] field = "ins.out" -> "out" [] field = "ins.cancel" -> "cancel" [] field = "ins.hasdur" -> "hasdur"
                  [] field = "ins.dur" -> "dur" [] field = "ins.autoret" -> "autoret" [] field = "ins.upid" -> "upid" [] field = "ins.avail" -> "avail"
                  [] field = "ins.avails" -> "avails" [] field = "ins.program" -> "program" [] field = "ins.immediate" -> "immediate"
                  [] field \in {"ins.comp.tag", "ins.comp.haspts", "ins.comp.pts"} -> "comps"
                  [] OTHER -> field
\* getter keys a setter may change
MayChange(field) ==
  CASE field = "seg.type" -> {"type", "hassub"}
    [] field = "seg.upidtype" -> {"upidtype", "upid", "mid"}
    [] field = "pts" -> {"pts", "cmd_pts"}
    [] field = "adjustpts" -> {"pts"}
    [] field = "haspts" -> {"haspts", "cmd_haspts"}
    [] field = "cmd.pts" -> {"cmd_pts"}
    [] field = "cmd.haspts" -> {"cmd_haspts", "haspts"}
    [] OTHER -> {Strip(field)}
SameExcept(x, y, keys) == DOMAIN x = DOMAIN y /\ \A k \in DOMAIN x : k \in keys \/ x[k] = y[k]
FrameBroken(e) ==
  LET b == e.before  a == e.after  ch == MayChange(e.field)
      sigOK == \A k \in SigKeys : (e.seg_index < 0 /\ k \in ch) \/ b[k] = a[k]
      insOK == IF DOMAIN b.insert = {} \/ DOMAIN a.insert = {} THEN b.insert = a.insert
               ELSE IF e.target = "cmd" THEN SameExcept(b.insert, a.insert, ch) ELSE b.insert = a.insert
      segOK == /\ Len(b.descs) = Len(a.descs)
               /\ \A j \in 1..Len(b.descs) :
                     IF j = e.seg_index + 1 THEN SameExcept(b.descs[j], a.descs[j], ch) ELSE b.descs[j] = a.descs[j]
  IN IF ~sigOK THEN "signal-level-getter"
     ELSE IF ~insOK THEN "splice-insert-getter"
     ELSE IF ~segOK THEN "descriptor-getter"
     ELSE ""
CompKey(field) == CASE field = "ins.comp.tag" -> "tag" [] field = "ins.comp.haspts" -> "haspts" [] OTHER -> "pts"
CompFrameBroken(e) ==
  LET b == e.before.insert.comps  a == e.after.insert.comps IN
  \/ Len(a) # Len(b)
  \/ \E j \in 1..Len(b) : IF j = e.k + 1 THEN ~SameExcept(b[j], a[j], {CompKey(e.field)}) ELSE a[j] # b[j]
IsCompOp(e) == e.field \in {"ins.comp.tag", "ins.comp.haspts", "ins.comp.pts"}
SetVerdict(e, raw) ==
  IF IsCompOp(e) /\ e.nocomp THEN (IF e.data_after # raw \/ e.before # e.after THEN "getters-or-encoding-changed-although-no-setter-was-called" ELSE "")   \* no component to edit: no call was made
  ELSE IF e.got # Expect(e) THEN "setter-not-reflected-" \o e.field
  ELSE IF IsCompOp(e) /\ CompFrameBroken(e) THEN "component-setter-changed-another-component-or-attribute"
  ELSE IF FrameBroken(e) # "" THEN "setter-" \o e.field \o "-changed-another-" \o FrameBroken(e)
  ELSE IF e.repeat /\ e.after # e.before THEN "repeating-a-setter-call-with-the-same-argument-changed-the-object"
  \* (type 0 = "not used" is excluded: giving it again legitimately drops UPID bytes that were stored under it)
  ELSE IF e.field = "seg.upidtype" /\ e.arg # 0 /\ e.arg = e.before.descs[e.seg_index + 1].upidtype /\ e.after # e.before THEN "setting-the-upid-type-it-already-has-changed-the-descriptor"
  ELSE IF e.field = "seg.type" /\ e.arg \in {52, 54} /\ e.after.descs[e.seg_index + 1].hassub # e.before.descs[e.seg_index + 1].hassub THEN "settype-changes-sub-segments"
  ELSE IF e.field = "seg.type" /\ e.arg \notin {52, 54} /\ e.hassub_after THEN "settype-keeps-sub-segments"
  ELSE IF e.data_after # raw THEN "data-changed-by-setter"
  ELSE ""

Fresh == [ok |-> TRUE, raw |-> <<>>]
Dead  == [ok |-> FALSE, raw |-> <<>>]
Init == l = 1 /\ st = Fresh
Next == /\ l <= Len(Trace) /\ l' = l + 1
        /\ LET e == Trace[l]
               cur == IF e.first THEN [ok |-> TRUE, raw |-> e.raw0] ELSE st IN
           IF ~cur.ok THEN st' = Dead
           ELSE IF e.panic # "" THEN Report(l, "panic") /\ st' = Dead
           ELSE IF ~e.bystander_same THEN Report(l, "another-signal-changed-by-a-call-on-this-one") /\ st' = Dead
           ELSE IF e.op = "set" THEN Report(l, SetVerdict(e, cur.raw)) /\ st' = cur
           ELSE IF e.op = "encode" THEN Report(l, EncodeVerdict(e, cur.raw)) /\ st' = [ok |-> TRUE, raw |-> e.bytes]
           ELSE Report(l, "harness-unknown-op") /\ st' = Dead
=============================================================================
