------------------------------ MODULE Gen_C18 ------------------------------
(***************************************************************************)
(* B2 for C18 (exhaustive in the bounded model): every reader script that  *)
(* MC_C18 explores - every fragmentation of up to MaxBytes abstract bytes  *)
(* into chunks, with EOF or a failure attached to any result - x every     *)
(* failing write position is printed with the deliveries, result class and *)
(* byte count the specification expects.  The harness expands each         *)
(* abstract byte to 188/PS real bytes (PS = 4 here, 47 real bytes each)    *)
(* and runs the real ReadFrom on the scripted reader.                      *)
(***************************************************************************)
EXTENDS MC_C18, Json
Emit == (~building /\ res # "") =>
          PrintT("TAB " \o ToJson([script |-> script, fail_at |-> fa,
                                   calls |-> ExpectReadFrom(script, fa).calls, err |-> ExpectReadFrom(script, fa).err, n |-> ExpectReadFrom(script, fa).n]))
=============================================================================
