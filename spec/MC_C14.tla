------------------------------- MODULE MC_C14 -------------------------------
(***************************************************************************)
(* Filter semantics on small PMTs: <= 3 streams over 3 PIDs, every request *)
(* list of length <= 3 over {those PIDs, an absent PID, PAT PID 0, the PMT *)
(* PID} including duplicates: kept streams are exactly the requested ones  *)
(* in original order, the filtered section is a well-formed PMT with zero  *)
(* CRC residue, Missing/Keep/Remove are consistent.                        *)
(***************************************************************************)
EXTENDS Pmt, TLC
VARIABLES pmt, req
PmtPid == 4096
AllStreams == <<[type |-> 27, pid |-> 257, descs |-> <<[tag |-> 82, body |-> <<1>>]>>],
                [type |-> 15, pid |-> 258, descs |-> <<>>],
                [type |-> 134, pid |-> 259, descs |-> <<[tag |-> 5, body |-> <<67, 85, 69, 73>>]>>]>>
Init == /\ \E n \in 0..3 : pmt = [program |-> 7, version |-> 3, cni |-> TRUE, pcrpid |-> 257,
                                 progdescs |-> <<[tag |-> 9, body |-> <<1, 2>>]>>, streams |-> SubSeq(AllStreams, 1, n)]
        /\ req = <<>>
Next == Len(req) < 3 /\ \E q \in {257, 258, 259, 300, 0, PmtPid} : req' = Append(req, q) /\ UNCHANGED pmt
K == Keep(pmt, req)
Checks ==
  /\ WFPmt(K) /\ Residue0(PmtSection(K)) /\ ThLen(PmtSection(K)) = Len(PmtSection(K)) - 3
  /\ \A i \in 1..Len(K.streams) : InSeq(K.streams[i].pid, req) /\ InSeq(K.streams[i], pmt.streams)
  /\ \A i \in 1..Len(pmt.streams) : InSeq(pmt.streams[i].pid, req) => InSeq(pmt.streams[i], K.streams)
  /\ \A i, j \in 1..Len(K.streams) : i < j =>
        (CHOOSE a \in 1..Len(pmt.streams) : pmt.streams[a] = K.streams[i]) < (CHOOSE b \in 1..Len(pmt.streams) : pmt.streams[b] = K.streams[j])
  /\ K.progdescs = pmt.progdescs /\ K.program = pmt.program /\ K.pcrpid = pmt.pcrpid
  /\ \A i \in 1..Len(Missing(pmt, req, PmtPid)) : LET m == Missing(pmt, req, PmtPid)[i] IN m \notin {0, PmtPid} /\ ~InSeq(m, PidList(pmt)) /\ InSeq(m, req)
  /\ \A i \in 1..Len(req) : (req[i] \notin {0, PmtPid} /\ ~InSeq(req[i], PidList(pmt))) => InSeq(req[i], Missing(pmt, req, PmtPid))
  /\ Len(Keep(pmt, req).streams) + Len(Remove(pmt, req).streams) = Len(pmt.streams)
=============================================================================
