----------------------------- MODULE Trace_C17 -----------------------------
(***************************************************************************)
(* Trace validation for C17.  Each line is one call on a real accumulator: *)
(* the packet bytes, the predicate thresholds, the error class returned    *)
(* and Bytes()/Packets() read back after the call (packets as indices of   *)
(* the history step that wrote them, -1 = unknown bytes).  The spec state  *)
(* is carried along the history (one state per accumulator of the history);*)
(* a rejected line ends the history of that accumulator.                   *)
(***************************************************************************)
EXTENDS TraceBase, TsHeader
A == INSTANCE Accumulator WITH mode <- "", buf <- <<>>, pkts <- <<>>, last <- ""
VARIABLE st            \* [ok, mode, buf, pkts]; ok = FALSE once a line of the history was rejected

\* payload of a well-formed 188-byte packet (ISO 13818-1 2.4.3.2 / 2.4.3.4)
PayloadOf(p) == IF ~HasPayload(p) THEN <<>>
                ELSE IF HasAF(p) THEN SubSeq(p, 6 + p[5], 188) ELSE SubSeq(p, 5, 188)
AbsPacket(e) == [id |-> e.i, pusi |-> (Get("pusi", e.pkt) = 1), haspay |-> HasPayload(e.pkt), payload |-> PayloadOf(e.pkt)]

Matches(r, e) == r.last = e.err /\ r.buf = e.bytes /\ r.pkts = e.pk
Candidates(s, e) == { r \in { A!WriteF(s, AbsPacket(e), e.pred, k) : k \in BOOLEAN } : Matches(r, e) }

Why(s, e) ==    \* diagnosis against the keep=TRUE/FALSE results
  LET r == A!WriteF(s, AbsPacket(e), e.pred, TRUE) IN
  IF r.last # e.err THEN "result-" \o r.last \o "-expected-got-" \o e.err
  ELSE IF r.buf # e.bytes THEN "bytes"
  ELSE "packets"

Fresh == [ok |-> TRUE, mode |-> "starting", buf |-> <<>>, pkts |-> <<>>]
Big   == [ok |-> TRUE, mode |-> "big", buf |-> <<>>, pkts |-> <<>>]      \* a started unit whose content is not carried along
Skip  == [ok |-> FALSE, mode |-> "", buf |-> <<>>, pkts |-> <<>>]
Step(s, e) ==   \* <<verdict, next state>>
  IF e.panic # "" THEN <<"panic", Skip>>
  ELSE IF ~e.input_same THEN <<"input-packet-modified", Skip>>
  ELSE IF ~e.snaps_same THEN <<"earlier-bytes-or-packets-result-changed-by-a-later-call", Skip>>
  ELSE IF ~e.others_same THEN <<"another-accumulator-reads-differently-after-a-call-on-this-one", Skip>>
  ELSE IF e.op = "reset" THEN
       IF e.bytes # <<>> \/ e.pk # <<>> THEN <<"reset-not-empty", Skip>>
       ELSE <<"", Fresh>>
  ELSE IF e.op = "write_rep" THEN
       \* the same continuation packet written e.n times to a started, never completing unit: every call succeeds, the
       \* unit grows by n payloads and n packets; the bytes themselves are not carried along (Big), because the history
       \* must go on with a reset or a new unit start, which discard them
       LET ap == AbsPacket(e) IN
       IF s.mode # "accumulating" \/ ap.pusi \/ ~ap.haspay \/ e.pred.done # 0 \/ e.pred.fail # 0 THEN <<"harness-bad-repeat", Skip>>
       ELSE IF e.nonnil # 0 THEN <<"repeated-write-failed", Skip>>
       ELSE IF e.bytes_len # Len(s.buf) + (e.n * Len(ap.payload)) THEN <<"bytes", Skip>>
       ELSE IF e.pk_len # Len(s.pkts) + e.n THEN <<"packets", Skip>>
       ELSE <<"", Big>>
  ELSE IF s.mode = "big" /\ ~(e.op = "write" /\ AbsPacket(e).pusi) THEN <<"harness-bad-history-after-repeat", Skip>>
  ELSE IF e.op = "write" THEN
       LET c == Candidates(s, e) IN
       IF c = {} THEN <<Why(s, e), Skip>>
       ELSE LET r == CHOOSE x \in c : TRUE IN <<"", [ok |-> TRUE, mode |-> r.mode, buf |-> r.buf, pkts |-> r.pkts]>>
  ELSE <<"harness-unknown-op", Skip>>

\* several accumulators may live side by side (e.acc names the one called): one specification state for each
Accs == 0..3
FreshAll == [a \in Accs |-> Fresh]
Init == l = 1 /\ st = FreshAll
Next == /\ l <= Len(Trace) /\ l' = l + 1
        /\ LET e == Trace[l]
               all == IF e.first THEN FreshAll ELSE st
               s == all[e.acc] IN
           IF ~s.ok THEN st' = [all EXCEPT ![e.acc] = Skip]
           ELSE LET r == Step(s, e) IN
                /\ Report(l, r[1])
                /\ st' = IF e.panic # "" THEN [a \in Accs |-> Skip] ELSE [all EXCEPT ![e.acc] = r[2]]
=============================================================================
