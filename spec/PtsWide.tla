------------------------------ MODULE PtsWide ------------------------------
(* PtsCore over 8-digit wides at the real constants of ISO/IEC 13818-1 *)
EXTENDS Wide
W8(x) == WFromNat(x, 8)
M33   == WPow2(33, 8)
L33   == W8(162000000)
U33   == WSub(WSub(M33, W8(1)), L33)
WADD(a, b) == WAdd(a, b, 8)
P == INSTANCE PtsCore WITH M <- M33, L <- L33, U <- U33, Z <- WZero(8),
                           LT <- WLt, ADD <- WADD, SUB <- WSub
PosInf == Rep(255, 8)
NegInf == Rep(255, 7) \o <<254>>
IsFinite(w) == IsWide(w, 8) /\ WLt(w, M33)
=============================================================================
