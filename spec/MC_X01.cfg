CONSTANTS MaxLen = 5 Need = 3
SPECIFICATION Spec
INVARIANTS Refines Terminates
CHECK_DEADLOCK FALSE
