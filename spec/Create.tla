------------------------------- MODULE Create -------------------------------
EXTENDS TsPacket, Timecodes, SequencesExt

(***************************************************************************)
(* packet.Create(pid, options...) with every option helper of create.go    *)
(* (spec growth, not one of the given properties), as the library has it:  *)
(* the options are byte operations applied in the caller's order to a zero *)
(* packet that carries the PID; the sync byte is written last.  The three  *)
(* adaptation-field helpers write byte 5 whether or not an adaptation      *)
(* field was requested, and WithPES writes a 184-byte PES start at the     *)
(* payload offset of the packet *as it is at that moment*.                 *)
(***************************************************************************)
CreateBase(pid) == <<0, (pid \div 256) % 32, pid % 256>> \o [i \in 1..185 |-> 0]
PesStart(pts) == <<0, 0, 1, 184, 0, 0, 64, 128, 14>> \o EncPTS(<<0, 0, 1, 0>>, pts) \o [i \in 1..170 |-> 0]
CreateOpt(p, o) ==
  IF o.k = "pay"  THEN [p EXCEPT ![4] = OrByte(@, 16)]
  ELSE IF o.k = "af"   THEN [p EXCEPT ![4] = OrByte(@, 32)]
  ELSE IF o.k = "priv" THEN [p EXCEPT ![6] = OrByte(@, 2)]
  ELSE IF o.k = "pusi" THEN [p EXCEPT ![2] = OrByte(@, 64)]
  ELSE IF o.k = "cont" THEN [p EXCEPT ![6] = OrByte(@, 127)]
  ELSE IF o.k = "disc" THEN [p EXCEPT ![6] = OrByte(@, 128)]
  ELSE LET q == ExpectSetPayloadFn(p, PesStart(o.pts)).pkt IN [q EXCEPT ![4] = OrByte(@, 16)]   \* "pes"
ExpectCreate(pid, opts) == [FoldLeft(CreateOpt, CreateBase(pid), opts) EXCEPT ![1] = 71]
=============================================================================
