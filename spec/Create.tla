------------------------------- MODULE Create -------------------------------
EXTENDS TsPacket, Timecodes, SequencesExt

(***************************************************************************)
(* packet.Create(pid, options...) with every option helper of create.go    *)
(* (spec growth, not one of the given properties), as the library has it:  *)
(* the options are byte operations applied in the caller's order to a zero *)
(* packet that carries the PID; the sync byte is written last.  The three  *)
(* adaptation-field helpers write byte 5 whether or not an adaptation      *)
(* field was requested, and WithPES writes a 184-byte PES start at the     *)
(* payload offset of the packet *as it is at that moment*.                 *)
(***************************************************************************)
CreateBase(pid) == <<0, (pid \div 256) % 32, pid % 256>> \o [i \in 1..185 |-> 0]
PesStart(pts) == <<0, 0, 1, 184, 0, 0, 64, 128, 14>> \o EncPTS(<<0, 0, 1, 0>>, pts) \o [i \in 1..170 |-> 0]
CreateOpt(p, o) ==
  IF o.k = "pay"  THEN [p EXCEPT ![4] = OrByte(@, 16)]
  ELSE IF o.k = "af"   THEN [p EXCEPT ![4] = OrByte(@, 32)]
  ELSE IF o.k = "priv" THEN [p EXCEPT ![6] = OrByte(@, 2)]
  ELSE IF o.k = "pusi" THEN [p EXCEPT ![2] = OrByte(@, 64)]
  ELSE IF o.k = "cont" THEN [p EXCEPT ![6] = OrByte(@, 127)]
  ELSE IF o.k = "disc" THEN [p EXCEPT ![6] = OrByte(@, 128)]
  ELSE IF o.k = "setpay" THEN ExpectSetPayloadFn(p, o.d).pkt          \* the closure of CreatePacketWithPayload
  ELSE LET q == ExpectSetPayloadFn(p, PesStart(o.pts)).pkt IN [q EXCEPT ![4] = OrByte(@, 16)]   \* "pes"
ExpectCreate(pid, opts) == [FoldLeft(CreateOpt, CreateBase(pid), opts) EXCEPT ![1] = 71]

\* the convenience constructors are compositions of Create and SetCC (create.go)
B2O(c, k) == IF c THEN <<[k |-> k, pts |-> <<0, 0, 0, 0, 0, 0, 0, 0>>, d |-> <<>>]>> ELSE <<>>
ExpectCreateFn(kind, pid, cc, pusi, haspay, d) ==
  LET opts == IF kind = "CreateTestPacket" THEN B2O(haspay, "pay") \o B2O(TRUE, "cont") \o B2O(pusi, "pusi")
              ELSE IF kind = "CreateDCPacket" THEN B2O(TRUE, "disc") \o B2O(TRUE, "pay")
              ELSE B2O(TRUE, "pay") \o B2O(TRUE, "cont") \o <<[k |-> "setpay", pts |-> <<0, 0, 0, 0, 0, 0, 0, 0>>, d |-> d]>>
  IN Set("cc", ExpectCreate(pid, opts), cc)
=============================================================================
