------------------------------ MODULE Gen_C02 ------------------------------
(***************************************************************************)
(* B2 for C02: the structural space MC_C02 proves the postconditions on    *)
(* (every adaptation-field shape x packet kind x payload length) is        *)
(* printed as concrete (packet, data) pairs; the harness calls the real    *)
(* SetPayload on each and the recorded calls go through Trace_C02.         *)
(***************************************************************************)
EXTENDS MC_C02, Json
Emit == Feasible => PrintT("TAB " \o ToJson([pkt |-> Pkt, data |-> Data]))
=============================================================================
