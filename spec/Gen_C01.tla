------------------------------ MODULE Gen_C01 ------------------------------
(* B1: emits the complete getter tables of TsHeader as JSON rows (prefix TAB) *)
EXTENDS TsHeader, TLC, Json
Pkt(b0, b1, b2, b3) == <<b0, b1, b2, b3, 0>>
RowB12(b1) == [ t |-> "b12", b1 |-> b1,
                tei  |-> Get("tei",  Pkt(71, b1, 0, 16)),
                pusi |-> Get("pusi", Pkt(71, b1, 0, 16)),
                tp   |-> Get("tp",   Pkt(71, b1, 0, 16)),
                pid  |-> [b2 \in 1..256 |-> Get("pid", Pkt(71, b1, b2 - 1, 16))],
                null |-> [b2 \in 1..256 |-> IsNull(Pkt(71, b1, b2 - 1, 16))],
                pat  |-> [b2 \in 1..256 |-> IsPat(Pkt(71, b1, b2 - 1, 16))] ]
RowB3(b3) == [ t |-> "b3", b3 |-> b3,
               tsc |-> Get("tsc", Pkt(71, 0, 0, b3)), afc |-> Get("afc", Pkt(71, 0, 0, b3)),
               cc  |-> Get("cc",  Pkt(71, 0, 0, b3)),
               haspay |-> HasPayload(Pkt(71, 0, 0, b3)), hasaf |-> HasAF(Pkt(71, 0, 0, b3)),
               valid47 |-> Valid(Pkt(71, 0, 0, b3)),
               validother |-> \E b0 \in (0..255) \ {71} : Valid(Pkt(b0, 0, 0, b3)),
               inccc |-> IncCC(Pkt(71, 0, 0, b3))[4], zerocc |-> ZeroCC(Pkt(71, 0, 0, b3))[4],
               setcc |-> [n \in 1..16 |-> SetCC(Pkt(71, 0, 0, b3), n - 1)[4]] ]
ASSUME \A b1 \in 0..255 : PrintT("TAB " \o ToJson(RowB12(b1)))
ASSUME \A b3 \in 0..255 : PrintT("TAB " \o ToJson(RowB3(b3)))
=============================================================================
