----------------------------- MODULE Trace_C04 -----------------------------
(* Trace validation for C04: InsertPCR / ExtractPCR / InsertPTS / both ExtractTime against Timecodes *)
EXTENDS TraceBase, Timecodes
Verdict(e) ==
  IF e.panic # "" THEN "panic"
  ELSE IF e.op = "inspcr" THEN
       IF ~IsPcrValue(e.v) \/ Len(e.prior) # 8 THEN "harness-bad-input"
       ELSE IF SubSeq(e.after, 1, 6) # EncPCR(e.v) THEN "pcr-bytes"
       ELSE IF SubSeq(e.after, 7, 8) # SubSeq(e.prior, 7, 8) THEN "pcr-wrote-beyond-field"
       ELSE IF e.back # e.v THEN "pcr-round-trip"
       ELSE ""
  ELSE IF e.op = "extpcr" THEN
       IF e.v # DecPCR(e.bytes) THEN "pcr-decode" ELSE ""
  ELSE IF e.op = "inspts" THEN
       IF ~IsPtsValue(e.v) \/ Len(e.prior) # 7 THEN "harness-bad-input"
       ELSE IF ~IsEncPTS(SubSeq(e.after, 1, 5), e.v) THEN "pts-bytes"
       ELSE IF SubSeq(e.after, 6, 7) # SubSeq(e.prior, 6, 7) THEN "pts-wrote-beyond-field"
       ELSE IF e.back_gots # e.v \/ e.back_pes # e.v THEN "pts-round-trip"
       ELSE ""
  ELSE IF e.op = "exttime" THEN
       IF e.v_gots # DecPTS(e.bytes) THEN "pts-decode-gots"
       ELSE IF e.v_pes # DecPTS(e.bytes) THEN "pts-decode-pes"
       ELSE ""
  ELSE "harness-unknown-op"
Init == l = 1
Next == /\ l <= Len(Trace) /\ l' = l + 1
        /\ Report(l, Verdict(Trace[l]))
=============================================================================
