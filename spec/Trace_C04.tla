----------------------------- MODULE Trace_C04 -----------------------------
(* Trace validation for C04: InsertPCR / ExtractPCR / InsertPTS / both ExtractTime against Timecodes *)
EXTENDS TraceBase, Timecodes
Verdict(e) ==
  IF e.panic # "" THEN "panic"
  ELSE IF e.op = "inspcr" THEN
       IF ~IsPcrValue(e.v) \/ Len(e.prior) # 8 THEN "harness-bad-input"
       ELSE IF SubSeq(e.after, 1, 6) # EncPCR(e.v) THEN "pcr-bytes"
       ELSE IF SubSeq(e.after, 7, 8) # SubSeq(e.prior, 7, 8) THEN "pcr-wrote-beyond-field"
       ELSE IF e.back # e.v THEN "pcr-round-trip"
       ELSE ""
  ELSE IF e.op = "extpcr" THEN
       IF e.v # DecPCR(SubSeq(e.bytes, 1, 6)) THEN "pcr-decode" ELSE ""
  ELSE IF e.op = "inspts" THEN
       IF ~IsPtsValue(e.v) \/ Len(e.prior) # 7 THEN "harness-bad-input"
       ELSE IF ~IsEncPTS(SubSeq(e.after, 1, 5), e.v) THEN "pts-bytes"
       ELSE IF SubSeq(e.after, 6, 7) # SubSeq(e.prior, 6, 7) THEN "pts-wrote-beyond-field"
       ELSE IF e.back_gots # e.v \/ e.back_pes # e.v THEN "pts-round-trip"
       ELSE IF e.back_gots_whole # e.v \/ e.back_pes_whole # e.v THEN "pts-round-trip-from-longer-slice"
       ELSE ""
  ELSE IF e.op = "exttime" THEN
       IF e.v_gots # DecPTS(SubSeq(e.bytes, 1, 5)) THEN "pts-decode-gots"
       ELSE IF e.v_pes # DecPTS(SubSeq(e.bytes, 1, 5)) THEN "pts-decode-pes"
       ELSE ""
  ELSE IF e.op = "e2e_withpes" THEN
       \* Create(pid, WithPUSI, WithPES(v)): payload 00 00 01 sid len len flags flags hlen PTS(5) ... at bytes 5.. of the packet
       IF ~IsPtsValue(e.v) \/ Len(e.pkt) # 188 THEN "harness-bad-input"
       ELSE IF ~IsEncPTS(SubSeq(e.pkt, 14, 18), e.v) THEN "e2e-pes-header-pts-bytes"
       ELSE IF ~e.haspts \/ e.back # e.v THEN "e2e-pts-not-read-back-from-pes-header"
       ELSE IF e.back_gots # e.v \/ e.back_pes # e.v THEN "e2e-pts-round-trip"
       ELSE ""
  ELSE IF e.op = "e2e_pes" THEN
       IF ~IsPtsValue(e.v) \/ ~IsPtsValue(e.w) THEN "harness-bad-input"
       ELSE IF ~IsEncPTS(SubSeq(e.bytes, 10, 14), e.v) \/ ~IsEncPTS(SubSeq(e.bytes, 15, 19), e.w) THEN "pts-bytes"
       ELSE IF ~e.haspts \/ e.pts # e.v THEN "e2e-pts-not-read-back-from-pes-header"
       ELSE IF ~e.hasdts \/ e.dts # e.w THEN "e2e-dts-not-read-back-from-pes-header"
       ELSE ""
  ELSE IF e.op = "e2e_pcr" THEN
       LET hasP == e.which # "opcr"
           hasO == e.which # "pcr"
           offO == IF hasP THEN 13 ELSE 7
       IN IF ~IsPcrValue(e.v) \/ ~IsPcrValue(e.w) \/ Len(e.pkt) # 188 THEN "harness-bad-input"
          ELSE IF e.setter_err # "" THEN "e2e-setter-refused-a-call-that-fits"
          ELSE IF hasP /\ SubSeq(e.pkt, 7, 12) # EncPCR(e.v) THEN "e2e-pcr-bytes-in-adaptation-field"
          ELSE IF hasO /\ SubSeq(e.pkt, offO, offO + 5) # EncPCR(e.w) THEN "e2e-opcr-bytes-in-adaptation-field"
          ELSE IF hasP /\ (e.pcr_err \/ e.pcr # e.v \/ e.f_pcr # e.v) THEN "e2e-pcr-not-read-back"
          ELSE IF hasO /\ (e.opcr_err \/ e.opcr # e.w \/ e.f_opcr # e.w) THEN "e2e-opcr-not-read-back"
          ELSE ""
  ELSE "harness-unknown-op"
Init == l = 1
Next == /\ l <= Len(Trace) /\ l' = l + 1
        /\ Report(l, Verdict(Trace[l]))
=============================================================================
