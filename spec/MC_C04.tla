------------------------------- MODULE MC_C04 -------------------------------
(***************************************************************************)
(* The codecs of Timecodes are inverse and bit-positioned, on a boundary   *)
(* family of values: base = single bits / 2^k-1 / sampled, ext = 0..299    *)
(* (PCR); single bits, 2^k-1 and sampled 33-bit values (PTS).  Decoding    *)
(* ignores reserved / marker / prefix bits: flipping any of them leaves    *)
(* the decoded value unchanged.                                            *)
(***************************************************************************)
EXTENDS Timecodes, TLC
CONSTANT ExtSet
VARIABLES k, ext, mode
ExtAll == 1..299
Bases == [m \in {"bit", "ones", "mix"} |->
            [i \in 0..32 |-> CASE m = "bit"  -> WPow2(i, 8)
                              [] m = "ones" -> WSub(WPow2(i + 1, 8), W8(1))
                              [] OTHER      -> WModPow2(WMulSmall(WFromNat(123456789 + (i * 1000003), 5), 4099), 33)]]
Init == k \in 0..32 /\ ext = 0 /\ mode \in {"bit", "ones", "mix"}
\* successors are computed by the workers in parallel (initial states are not)
Next == ext = 0 /\ ext' \in ExtSet /\ UNCHANGED <<k, mode>>
Base == Bases[mode][k]
PcrV == WFit(WAddExt(WMulSmall(Base, 300), W8(ext)), 8)
FlipBit(b, i) == LET bits == BytesToBits(b) IN BitsToBytes([j \in 1..Len(bits) |-> IF j = i THEN 1 - bits[j] ELSE bits[j]])
PcrRoundTrip == /\ IsPcrValue(PcrV) /\ DecPCR(EncPCR(PcrV)) = PcrV
                /\ Len(EncPCR(PcrV)) = 6
                /\ PcrBase(PcrV) = Base /\ PcrExt(PcrV) = ext
PcrBitPositions == LET e == EncPCR(PcrV) IN
   /\ e[6] = ext % 256
   /\ e[5] % 2 = ext \div 256
   /\ (e[5] \div 2) % 64 = 63                         \* six reserved bits set
   /\ e[5] \div 128 = Base[8] % 2                     \* base bit 0
   /\ e[4] = ((Base[8] \div 2) + (Base[7] * 128)) % 256
PcrIgnoresReserved == \A i \in PcrReservedBits : DecPCR(FlipBit(EncPCR(PcrV), i)) = PcrV
PtsRoundTrip == \A pf \in {<<0, 0, 1, 0>>, <<0, 0, 1, 1>>, <<0, 0, 0, 1>>} :
                   /\ DecPTS(EncPTS(pf, Base)) = Base /\ IsEncPTS(EncPTS(pf, Base), Base)
PtsBitPositions == LET e == EncPTS(<<0, 0, 1, 0>>, Base) IN
   /\ e[5] = ((Base[8] % 128) * 2) + 1
   /\ e[4] = ((Base[8] \div 128) + (Base[7] * 2)) % 256
   /\ e[1] \div 16 = 2 /\ e[1] % 2 = 1
PtsIgnoresMarkers == \A i \in PtsMarkerBits \cup PtsPrefixBits : DecPTS(FlipBit(EncPTS(<<0, 0, 1, 0>>, Base), i)) = Base
=============================================================================
