CONSTANTS A = {71, 0, 16, 5, 31} MaxLen = 9
SPECIFICATION Spec
INVARIANTS Refines Tracks Terminates Idempotent
CHECK_DEADLOCK FALSE
