CONSTANTS A = {71, 0, 16, 5, 31} MaxLen = 9
SPECIFICATION Spec
INVARIANTS Refines Tracks Terminates
CHECK_DEADLOCK FALSE
