------------------------------ MODULE Gen_C03 ------------------------------
(***************************************************************************)
(* B2 for C03: the reachable graph of MC_C03 (same operations, same        *)
(* argument sets) explored once more with the logical field as the only    *)
(* variable; every state is printed once with its serialisation.  The      *)
(* harness puts the bytes into a real packet, applies EVERY operation of   *)
(* the model to it (one implementation test per transition of the graph),  *)
(* and the recorded calls are validated by Trace_C03 like any other trace. *)
(***************************************************************************)
EXTENDS AdaptationField, TLC, Json
CONSTANT Lens
VARIABLE a
P1 == <<1, 2, 3, 4, 126, 6>>
P2 == <<255, 255, 255, 255, 255, 255>>
Datas == {<<>>, <<9>>, <<9, 8>>, <<7, 7, 7>>}
BoolOps == {"SetDiscontinuity", "SetRandomAccess", "SetElementaryStreamPriority", "SetHasPCR", "SetHasOPCR",
            "SetHasSplicingPoint", "SetHasTransportPrivateData", "SetHasAdaptationFieldExtension"}
Init == \E n \in Lens : a = Blank(n)
Do(op, arg, nv) == a' = Apply(a, op, arg, nv).a
Next == \/ \E op \in BoolOps, b \in BOOLEAN : Do(op, b, IF op = "SetHasSplicingPoint" THEN 5 ELSE P1)
        \/ \E v \in {P1, P2} : Do("SetPCR", v, 0) \/ Do("SetOPCR", v, 0)
        \/ \E v \in {0, 255} : Do("SetSpliceCountdown", v, 0)
        \/ \E d \in Datas : Do("SetTransportPrivateData", d, 0) \/ Do("SetAdaptationFieldExtension", d, 0)
Spec == Init /\ [][Next]_a
\* evaluated once per distinct state
Emit == PrintT("TAB " \o ToJson([af |-> Ser(a)]))
=============================================================================
