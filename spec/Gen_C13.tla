------------------------------ MODULE Gen_C13 ------------------------------
(* B1: CRC-32/MPEG-2 of every byte string of length 0, 1 and 2 (65 793 values) *)
EXTENDS Crc, TLC, Json
Pair(r) == <<r[1], r[2]>>
ASSUME PrintT("TAB " \o ToJson([t |-> "len0", crc |-> Pair(CrcReg(<<>>))]))
ASSUME PrintT("TAB " \o ToJson([t |-> "len1", crc |-> [x \in 1..256 |-> Pair(CrcReg(<<x - 1>>))]]))
ASSUME \A a \in 0..255 :
   PrintT("TAB " \o ToJson([t |-> "len2", a |-> a, crc |-> [x \in 1..256 |-> Pair(CrcReg(<<a, x - 1>>))]]))
=============================================================================
