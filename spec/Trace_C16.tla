----------------------------- MODULE Trace_C16 -----------------------------
(* Trace validation for C16: every recorded Sync call returns First(stream) and leaves the reader on it *)
EXTENDS TraceBase
S == INSTANCE Sync WITH Stream <- <<>>, pos <- 0, off <- 0, pc <- "", res <- ""
\* IsSynced (the test Sync applies at each candidate position): true exactly for a plausible header at
\* the reader's position; fewer than four bytes cannot be judged (an error); the reader is not advanced
IsSyncedVerdict(e) ==
  IF Len(e.stream) < 4 THEN (IF e.err = "nil" THEN "issynced-no-error-on-short-stream" ELSE "")
  ELSE IF e.err # "nil" THEN "issynced-error"
  ELSE IF e.ok # S!Plausible(e.stream, 0) THEN "issynced-result"
  ELSE IF e.rest # e.stream THEN "issynced-consumed-input"
  ELSE ""
\* a stream with a gap of e.n bytes e.fill between e.pre and e.suf, judged through Sync!GapLemma
GapVerdict(e) ==
  LET c == S!GapShort(e.pre, e.fill, e.suf) IN
  IF e.fill = 71 \/ e.n < 3 THEN "harness-bad-gap"
  ELSE IF S!Found(c) THEN
       IF S!First(c) < Len(e.pre) THEN "harness-gap-prefix-holds-a-header"
       ELSE IF e.err # "nil" THEN "error-though-header-present"
       ELSE IF e.off # S!GapFirst(e.pre, e.fill, e.n, e.suf) THEN "offset"
       ELSE IF e.again_err # "nil" \/ e.again_off # 0 THEN "second-sync-on-a-synced-reader-moved"
       ELSE IF e.rest # S!Rest(c) THEN "reader-position"
       ELSE ""
  ELSE IF e.err # "notfound" THEN "not-found-error"
  ELSE ""
Verdict(e) ==
  IF e.panic # "" THEN "panic"
  ELSE IF e.op = "issynced" THEN IsSyncedVerdict(e)
  ELSE IF e.op = "syncgap" THEN GapVerdict(e)
  ELSE LET st == SubSeq(e.stream, e.skipn + 1, Len(e.stream)) IN    \* (e.skipn bytes were consumed before the reader was handed over)
  IF e.skipn > Len(e.stream) THEN "harness-bad-prefix"
  ELSE IF S!Found(st) THEN
       IF e.err # "nil" THEN "error-though-header-present"
       ELSE IF e.off # S!First(st) THEN "offset"
       ELSE IF e.again_err # "nil" \/ e.again_off # 0 THEN "second-sync-on-a-synced-reader-moved"
       ELSE IF e.rest # S!Rest(st) THEN "reader-position"
       ELSE ""
  ELSE IF e.err # "notfound" THEN "not-found-error"
  ELSE ""
Init == l = 1
Next == /\ l <= Len(Trace) /\ l' = l + 1
        /\ Report(l, Verdict(Trace[l]))
=============================================================================
