----------------------------- MODULE MC_C16gap -----------------------------
(* The gap lemma of module Sync on every small instance: prefixes of up to MaxPre and suffixes of up to MaxSuf bytes (2 / 4 quick, 3 / 5 thorough) over the   *)
(* alphabet of MC_C16, gap bytes that are not the sync byte, gaps of 3..6 bytes (Ns).                                      *)
EXTENDS Naturals, Sequences, TLC
CONSTANTS MaxPre, MaxSuf, Ns
S == INSTANCE Sync WITH Stream <- <<>>, pos <- 0, off <- 0, pc <- "", res <- ""
A == {71, 0, 16, 5, 31}
Fills == {0, 16, 255}
SeqsUpTo(n) == UNION { [1..k -> A] : k \in 0..n }
ASSUME \A pre \in SeqsUpTo(MaxPre), suf \in SeqsUpTo(MaxSuf), fill \in Fills, n \in Ns : S!GapLemma(pre, fill, n, suf)
VARIABLE x
Init == x = 0
Next == UNCHANGED x
=============================================================================
