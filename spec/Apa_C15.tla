------------------------------ MODULE Apa_C15 ------------------------------
(***************************************************************************)
(* C15 at the real constants (2^33 ticks, 162 000 000-tick window) over    *)
(* unbounded integers, discharged symbolically by Apalache:                *)
(*   apalache-mc check --init=Init --inv=PairInv --length=0 Apa_C15.tla    *)
(* The state is an arbitrary triple (p, q, d); the invariants are the laws *)
(* of PtsCore applied to its reference operators, i.e. "for all 2^66 pairs"*)
(***************************************************************************)
EXTENDS Integers
VARIABLES
  \* @type: Int;
  p,
  \* @type: Int;
  q,
  \* @type: Int;
  d

\* @type: (Int, Int) => Bool;
ILT(a, b) == a < b
\* @type: (Int, Int) => Int;
IADD(a, b) == a + b
\* @type: (Int, Int) => Int;
ISUB(a, b) == a - b

MM == 8589934592
LL == 162000000

P == INSTANCE PtsCore WITH M <- MM, L <- LL, U <- MM - 1 - LL, Z <- 0,
                           LT <- ILT, ADD <- IADD, SUB <- ISUB

Init == /\ p \in Int /\ q \in Int /\ d \in Int
        /\ 0 <= p /\ p < MM /\ 0 <= q /\ q < MM /\ 1 <= d /\ d <= LL
Next == UNCHANGED <<p, q, d>>

PairInv == P!PairLawFailed(p, q, P!RolledOver(p, q), P!RolledOver(q, p), P!After(p, q), P!After(q, p),
                           P!GreaterOrEqual(p, q), P!GreaterOrEqual(q, p), P!Dur(p, q), P!Dur(q, p)) = ""
AddInv == LET r == P!AddMod(p, d) IN
          /\ r = (p + d) % MM
          /\ P!AddLawFailed(p, d, r, P!After(r, p), P!After(p, r), P!RolledOver(r, p), P!Dur(r, p), P!Dur(p, r)) = ""
=============================================================================
