INIT Init
NEXT Next
INVARIANT Checks
CHECK_DEADLOCK FALSE
