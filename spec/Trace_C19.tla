----------------------------- MODULE Trace_C19 -----------------------------
(***************************************************************************)
(* Trace validation for C19: for recorded triples (a, b, c) of real        *)
(* descriptors, every observed Equal / CanClose / IsIn / IsOut result is   *)
(* the value SegRules assigns to the logged field values.                  *)
(***************************************************************************)
EXTENDS TraceBase, SegRules
Verdict(e) ==
  IF e.panic # "" THEN "panic"
  ELSE IF e.eq_ab # Equal(e.a, e.b) \/ e.eq_ba # Equal(e.b, e.a) THEN "equal-ab"
  ELSE IF e.eq_bc # Equal(e.b, e.c) \/ e.eq_ac # Equal(e.a, e.c) THEN "equal-c"
  ELSE IF e.eq_aa # Equal(e.a, e.a) THEN "equal-reflexive"
  ELSE IF e.cc_ac # CanClose(e.a, e.c) \/ e.cc_bc # CanClose(e.b, e.c) THEN "canclose-incoming"
  ELSE IF e.cc_ca # CanClose(e.c, e.a) \/ e.cc_cb # CanClose(e.c, e.b) THEN "canclose-open"
  ELSE IF e.cc_ab # CanClose(e.a, e.b) THEN "canclose-ab"
  ELSE IF e.in_a # IsIn(e.a.type) \/ e.out_a # IsOut(e.a.type) THEN "in-out"
  \* the laws themselves, on the observed values
  ELSE IF e.eq_ab # e.eq_ba THEN "law-symmetric"
  ELSE IF e.eq_ab /\ e.eq_bc /\ ~e.eq_ac THEN "law-transitive"
  ELSE IF e.eq_ab /\ (e.cc_ac # e.cc_bc \/ e.cc_ca # e.cc_cb) THEN "law-congruence"
  ELSE ""
Init == l = 1
Next == /\ l <= Len(Trace) /\ l' = l + 1
        /\ Report(l, Verdict(Trace[l]))
=============================================================================
