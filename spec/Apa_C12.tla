------------------------------ MODULE Apa_C12 ------------------------------
(***************************************************************************)
(* C12's time clause at full width over unbounded integers (Apalache,      *)
(* --length=0).  An instant is (s, n): s seconds since 1900 in the         *)
(* representable range [2^31, 2^32 + 2^31) and n nanoseconds in [0, 10^9). *)
(* The EBP carries sec32 = s mod 2^32 (era bit = most significant bit) and *)
(* a 32-bit binary fraction.  Stated for ALL (s, n):                       *)
(*   Era      the era reading of sec32 gives s back;                       *)
(*   Frac     SOME fraction of [0, 2^32) reads back within one nanosecond  *)
(*            (the rounded-up fraction clamped to 2^32 - 1 does), so the   *)
(*            property is satisfiable at every instant;                    *)
(*   Reading  the nanosecond reading of any fraction is below 10^9.        *)
(* Ebp!Nanos / Ebp!Secs1900 (Wide arithmetic) are tied to this integer     *)
(* reading by MC_C12 on boundary families.                                 *)
(***************************************************************************)
EXTENDS Integers
VARIABLES
  \* @type: Int;
  s,
  \* @type: Int;
  n,
  \* @type: Int;
  f
B32 == 4294967296
B31 == 2147483648
Billion == 1000000000
Sec32(x) == x % B32
\* era reading: most significant bit set -> era 0 (since 1900), clear -> era 1 (since 2036-02-07T06:28:16Z = 1900 + 2^32 s)
EraRead(w) == IF w >= B31 THEN w ELSE w + B32
NanosOf(fr) == (fr * Billion) \div B32
\* the fraction a writer rounds up so that truncation on reading does not lose a nanosecond, clamped to the field
FracOf(x) == LET q == ((x + 1) * B32) \div Billion IN IF q > B32 - 1 THEN B32 - 1 ELSE q
Init == /\ s \in Int /\ n \in Int /\ f \in Int
        /\ B31 <= s /\ s < B32 + B31 /\ 0 <= n /\ n < Billion /\ 0 <= f /\ f < B32
Next == UNCHANGED <<s, n, f>>
EraInv == EraRead(Sec32(s)) = s
FracInv == LET back == NanosOf(FracOf(n)) IN back >= n - 1 /\ back <= n + 1 /\ FracOf(n) >= 0 /\ FracOf(n) < B32
ReadingInv == NanosOf(f) >= 0 /\ NanosOf(f) < Billion
=============================================================================
