------------------------------- MODULE MC_C10 -------------------------------
(***************************************************************************)
(* Design-level check of the tracker: every history of ProcessDescriptor / *)
(* Close calls up to Depth over a descriptor alphabet.  Ghost variables    *)
(* (processed, gone, last) are kept out of the fingerprint by VIEW.  The   *)
(* invariants and action properties are the clauses of C10.                *)
(***************************************************************************)
EXTENDS Scte35State, TLC
CONSTANTS Depth, Types, PtsVals
D == { [id |-> <<t, e, p, sx, v>>, type |-> t, eid |-> e, haspts |-> (p # 0), pts |-> p, segnum |-> 1, segexp |-> sx,
        hassub |-> FALSE, subnum |-> 0, subexp |-> 0, vss |-> v]
       : t \in Types, e \in {1, 2}, p \in PtsVals,
         sx \in {1, 2}, v \in {"none", "a", "b"} }
\* keep only meaningful variations: segexp matters for PO ends, vss for 0x40
Alphabet == { d \in D : /\ (d.type \notin {53, 55} => d.segexp = 1)
                        /\ (d.type # 64 => d.vss = "none") /\ (d.type = 64 => d.vss # "none" \/ d.eid = 2) }
VARIABLES s, n, processed, gone, last
vars == <<s, n, processed, gone, last>>
View == <<s, n>>
Init == s = InitState /\ n = 0 /\ processed = {} /\ gone = {} /\ last = [op |-> "none"]
Insts(es) == { es[i].inst : i \in 1..Len(es) }
DoProcess(d) == LET r == ProcessF(s, d) IN
  /\ s' = r.s /\ n' = n + 1
  /\ processed' = processed \cup {d.id}
  /\ gone' = gone \cup Insts(r.closed) \cup Insts(r.discarded)
  /\ last' = [op |-> "process", d |-> d, res |-> r.res, closed |-> r.closed, before |-> s, warn |-> r.warn]
DoClose(d) == LET r == CloseF(s, d) IN
  /\ s' = r.s /\ n' = n + 1 /\ UNCHANGED processed
  /\ gone' = gone \cup Insts(r.closed)
  /\ last' = [op |-> "close", d |-> d, res |-> r.res, closed |-> r.closed, before |-> s]
Next == n < Depth /\ \E d \in Alphabet : DoProcess(d) \/ DoClose(d)
Spec == Init /\ [][Next]_vars

\* ---- C10, clause by clause ----
OpenIsConsistent ==
  /\ \A i \in 1..Len(s.open) : s.open[i].d.id \in processed /\ s.open[i].inst \notin gone
  /\ \A i, j \in 1..Len(s.open) : i < j => s.open[i].inst < s.open[j].inst        \* no element twice, opening order
HiddenIsTheBreakaway == s.hidden = 0 \/ (s.hidden <= Len(s.open) /\ s.open[s.hidden].d.type = Breakaway)
\* the clauses about one call are action properties: TLC evaluates them on every transition,
\* including those whose target state was already seen under VIEW
ClosedWereOpenA(L, t) ==
  /\ \A i \in 1..Len(L.closed) :
        /\ \E j \in 1..Len(L.before.open) : L.before.open[j] = L.closed[i]
        /\ IF L.op = "process" THEN CanClose(L.d, L.closed[i].d) ELSE Equal(L.d, L.closed[i].d)
  /\ \A i, j \in 1..Len(L.closed) : i < j => L.closed[i].inst > L.closed[j].inst   \* last opened first
  /\ \A i \in 1..Len(L.closed) : \A j \in 1..Len(t.open) : t.open[j].inst # L.closed[i].inst
  /\ \A i \in 1..Len(L.closed) : L.closed[i].inst \notin gone                       \* returned at most once
RejectedA(L, t) == (L.op = "process" /\ L.res \in {"nopts", "dup", "vsserr"}) => OpenView(t) = OpenView(L.before)
NoPtsA(L) == (L.op = "process" /\ ~L.d.haspts) => L.res = "nopts"
TwiceA(L, t) == (L.op = "process" /\ L.d.haspts /\ L.res \in {"ok", "dup"}) => ProcessF(t, L.d).res = "dup"
\* sanity of the validation verdict (X03, beyond C10): who can be warned about, and the two anchor cases
WarnA(L) == L.op = "process" =>
  /\ (L.warn = "invalid" => L.d.type = Resumption)
  /\ (L.warn = "missingout" => L.d.type = 17 \/ L.d.type \in ValidatedEnds)
  /\ (L.res # "ok" => L.warn = "none")
  /\ ((L.res = "ok" /\ (L.d.type = 17 \/ L.d.type \in ValidatedEnds) /\ Len(L.before.open) = 0) => L.warn = "missingout")
  /\ ((L.res = "ok" /\ L.d.type \in ValidatedEnds /\ Len(L.closed) > 0
        /\ L.closed[Len(L.closed)].d.type = L.d.type - 1 /\ L.closed[Len(L.closed)].d.eid = L.d.eid) => L.warn = "none")
CallClauses == [][ /\ ClosedWereOpenA(last', s') /\ RejectedA(last', s') /\ NoPtsA(last') /\ TwiceA(last', s') /\ WarnA(last') ]_vars
=============================================================================
