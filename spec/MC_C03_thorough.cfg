CONSTANT Lens = {1, 2, 3, 7, 8, 9, 13, 14, 15, 16, 20, 23, 24, 30}
SPECIFICATION Spec
INVARIANT Faithful
PROPERTIES ErrorMeansUnchanged LenNeverChanges
CHECK_DEADLOCK FALSE
