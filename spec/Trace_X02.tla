----------------------------- MODULE Trace_X02 -----------------------------
(* Trace validation of SetAdaptationFieldControl against TsPacket!ExpectSetAfc (spec growth; not in MANIFEST.json) *)
EXTENDS TraceBase, Create
CreateKinds == {"pay", "af", "priv", "pusi", "cont", "disc", "pes"}
Verdict(e) ==
  IF e.panic # "" THEN "panic"
  ELSE IF e.op = "createfn" THEN
       IF e.pid \notin 0..8191 \/ e.cc \notin 0..15 \/ e.kind \notin {"CreateTestPacket", "CreateDCPacket", "CreatePacketWithPayload"} THEN "harness-bad-input"
       ELSE IF e.after # ExpectCreateFn(e.kind, e.pid, e.cc, e.pusi, e.haspay, e.d) THEN "createfn-bytes"
       ELSE ""
  ELSE IF e.op = "createseq" THEN
       IF e.pid \notin 0..8191 \/ \E i \in 1..Len(e.opts) : e.opts[i].k \notin CreateKinds \/ ~IsPtsValue(e.opts[i].pts) THEN "harness-bad-input"
       ELSE IF e.after # ExpectCreate(e.pid, e.opts) THEN "create-bytes"
       ELSE ""
  ELSE IF ~WFLoose(e.before) THEN "harness-not-wellformed"
  ELSE LET x == ExpectSetAfc(e.before, e.v) IN
  IF x.err # (e.err # "nil") THEN "setafc-error-contract"
  ELSE IF e.after # x.pkt THEN "setafc-bytes"
  ELSE ""
Init == l = 1
Next == /\ l <= Len(Trace) /\ l' = l + 1
        /\ Report(l, Verdict(Trace[l]))
=============================================================================
