----------------------------- MODULE Trace_X02 -----------------------------
(* Trace validation of SetAdaptationFieldControl against TsPacket!ExpectSetAfc (spec growth; not in MANIFEST.json) *)
EXTENDS TraceBase, TsPacket
Verdict(e) ==
  IF e.panic # "" THEN "panic"
  ELSE IF ~WFLoose(e.before) THEN "harness-not-wellformed"
  ELSE LET x == ExpectSetAfc(e.before, e.v) IN
  IF x.err # (e.err # "nil") THEN "setafc-error-contract"
  ELSE IF e.after # x.pkt THEN "setafc-bytes"
  ELSE ""
Init == l = 1
Next == /\ l <= Len(Trace) /\ l' = l + 1
        /\ Report(l, Verdict(Trace[l]))
=============================================================================
