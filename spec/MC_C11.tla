------------------------------- MODULE MC_C11 -------------------------------
(* PesSer and the decoder-side readings of Pes are inverse: all 256 stream ids x PTS_DTS_flags x header lengths x timestamps from a 4-value set *)
EXTENDS Pes, TLC
VARIABLES sid, pd, ex, tv
TVals == <<W8(0), WSub(WPow2(33, 8), W8(1)), WPow2(32, 8), WFromNat(123456789, 8)>>
Init == sid \in 0..255 /\ pd = 9 /\ ex = 0 /\ tv = 1
Next == pd = 9 /\ pd' \in {0, 2, 3} /\ ex' \in {0, 1, 3} /\ tv' \in 1..4 /\ UNCHANGED sid
X == [sid |-> sid, plen |-> 1000 + sid, flags1 |-> 128 + ((sid % 2) * 4) + (sid % 4), ptsdts |-> pd, flags2lo |-> sid % 64,
      hdrlen |-> (IF pd = 2 THEN 5 ELSE IF pd = 3 THEN 10 ELSE 0) + ex,
      pts |-> TVals[tv], dts |-> TVals[5 - tv], extra |-> [i \in 1..ex |-> 255], data |-> <<9, 8, 7>>]
RoundTrip == pd = 9 \/
  LET b == PesSer(X) IN
  /\ WFAbs(X) /\ WellFormed(b)
  /\ Prefix(b) = 1 /\ Sid(b) = sid
  /\ Data(b) = X.data
  /\ HasOptional(sid) => /\ Dai(b) = ((sid % 2) = 1)
                         /\ HasPTS(b) = (pd \in {2, 3}) /\ HasDTS(b) = (pd = 3)
                         /\ (HasPTS(b) => PTS(b) = X.pts) /\ (HasDTS(b) => DTS(b) = X.dts)
                         /\ Len(b) = 9 + X.hdrlen + 3
  /\ ~HasOptional(sid) => (~HasPTS(b) /\ ~HasDTS(b) /\ Len(b) = 9)
=============================================================================
