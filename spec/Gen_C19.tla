------------------------------ MODULE Gen_C19 ------------------------------
(* B1: the complete closing relation (256 x 256 types x 8 condition combinations) and in/out lists *)
EXTENDS SegRules, TLC, Json
Bools == <<FALSE, TRUE>>
Row(tin) == [ t |-> "cc", tin |-> tin, isin |-> IsIn(tin), isout |-> IsOut(tin),
              cc |-> [k \in 1..2048 |->
                        LET tout == (k - 1) \div 8   c == (k - 1) % 8 IN
                        CanCloseBy(tin, tout, Bools[(c \div 4) + 1], Bools[((c \div 2) % 2) + 1], Bools[(c % 2) + 1])] ]
ASSUME \A tin \in 0..255 : PrintT("TAB " \o ToJson(Row(tin)))
=============================================================================
