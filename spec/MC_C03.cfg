CONSTANT Lens = {1, 2, 7, 8, 13, 14, 16, 23}
SPECIFICATION Spec
INVARIANT Faithful
PROPERTIES ErrorMeansUnchanged LenNeverChanges
CHECK_DEADLOCK FALSE
