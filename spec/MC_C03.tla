------------------------------- MODULE MC_C03 -------------------------------
(***************************************************************************)
(* All edit histories of the logical adaptation field from every blank     *)
(* field of length in Lens, operations with arguments from small sets.     *)
(* Because the next state depends only on the current one, exhausting the  *)
(* reachable graph covers every finite history of the bounded model.       *)
(* Invariants: the serialisation parses back to the record (faithful       *)
(* encoding), is canonical and has the declared length; action property:   *)
(* an erroring call leaves the record unchanged and a fitting result never *)
(* errors.                                                                 *)
(***************************************************************************)
EXTENDS AdaptationField, TLC
CONSTANT Lens
VARIABLES a, lastop, lasterr
vars == <<a, lastop, lasterr>>
P1 == <<1, 2, 3, 4, 126, 6>>
P2 == <<255, 255, 255, 255, 255, 255>>
Datas == {<<>>, <<9>>, <<9, 8>>, <<7, 7, 7>>}
BoolOps == {"SetDiscontinuity", "SetRandomAccess", "SetElementaryStreamPriority", "SetHasPCR", "SetHasOPCR",
            "SetHasSplicingPoint", "SetHasTransportPrivateData", "SetHasAdaptationFieldExtension"}
Init == \E n \in Lens : a = Blank(n) /\ lastop = "none" /\ lasterr = FALSE
Do(op, arg, nv) == LET r == Apply(a, op, arg, nv) IN a' = r.a /\ lasterr' = r.err /\ lastop' = op
Next == \/ \E op \in BoolOps, b \in BOOLEAN, nv \in {P1} : Do(op, b, IF op = "SetHasSplicingPoint" THEN 5 ELSE nv)
        \/ \E v \in {P1, P2} : Do("SetPCR", v, 0) \/ Do("SetOPCR", v, 0)
        \/ \E v \in {0, 255} : Do("SetSpliceCountdown", v, 0)
        \/ \E d \in Datas : Do("SetTransportPrivateData", d, 0) \/ Do("SetAdaptationFieldExtension", d, 0)
Spec == Init /\ [][Next]_vars
Faithful == /\ Fits(a)
            /\ Len(Ser(a)) = a.len + 1
            /\ Parse(Ser(a)).ok /\ Parse(Ser(a)).a = a
            /\ Canonical(Ser(a))
ErrorMeansUnchanged == [][lasterr' => a' = a]_vars
LenNeverChanges == [][a'.len = a.len]_vars
=============================================================================
