CONSTANTS Depth = 5
SPECIFICATION Spec
INVARIANTS BytesAreConcat PacketsAreThose RefusedBeforeStart NoPayloadIsError DoneExactlyAtThreshold DoneMeansPredicateHolds NotDoneMeansNotYet
CHECK_DEADLOCK FALSE
