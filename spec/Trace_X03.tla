----------------------------- MODULE Trace_X03 -----------------------------
(***************************************************************************)
(* Spec growth (not a listed property): the validation error returned by   *)
(* ProcessDescriptor next to the closed list (missing out / invalid        *)
(* resumption), checked against Scte35State!Warn on the same histories as  *)
(* C10.  Lines the C10 clauses would reject end the history silently here. *)
(* Histories of ProcessDescriptor / Close / Open                           *)
(* on a real scte35.State.  Each line carries the abstract fields of the   *)
(* descriptor (read from the real object), the error class, the ids of the *)
(* descriptors returned as closed and the ids listed by Open() after the   *)
(* call.  The spec state is carried along the history.                     *)
(***************************************************************************)
EXTENDS TraceBase
T == INSTANCE Scte35State WITH RingLen <- 10
VARIABLE st
Fresh == [ok |-> TRUE, s |-> T!InitState]
Skip  == [ok |-> FALSE, s |-> T!InitState]
Step(s, e) ==
  IF e.panic # "" THEN <<"", Skip>>
  ELSE IF e.op = "process" THEN
       LET r == T!ProcessF(s, e.d) IN
       \* duplicate detection beyond "twice in a row" depends on the capacity of the record of received times (ten
       \* distinct times): modelled as the library has it, reported here and not under C10
       IF r.res # e.res /\ r.res \in {"ok", "dup"} /\ e.res \in {"ok", "dup"} THEN <<"duplicate-detection-" \o r.res \o "-expected-got-" \o e.res, Skip>>
       ELSE IF r.res # e.res \/ T!Ids(r.closed) # e.closed \/ T!Ids(T!OpenView(r.s)) # e.open THEN <<"", Skip>>   \* C10's business
       ELSE IF r.res = "ok" /\ r.warn # e.warn THEN <<"validation-error-" \o r.warn \o "-expected-got-" \o e.warn, [ok |-> TRUE, s |-> r.s]>>
       ELSE <<"", [ok |-> TRUE, s |-> r.s]>>
  ELSE IF e.op = "close" THEN
       LET r == T!CloseF(s, e.d) IN
       IF r.res # e.res \/ T!Ids(r.closed) # e.closed \/ T!Ids(T!OpenView(r.s)) # e.open THEN <<"", Skip>>
       ELSE <<"", [ok |-> TRUE, s |-> r.s]>>
  ELSE IF e.op = "open" THEN
       IF T!Ids(T!OpenView(s)) # e.open THEN <<"", Skip>> ELSE <<"", [ok |-> TRUE, s |-> s]>>
  ELSE <<"harness-unknown-op", Skip>>
Init == l = 1 /\ st = Fresh
Next == /\ l <= Len(Trace) /\ l' = l + 1
        /\ LET e == Trace[l]
               cur == IF e.first THEN Fresh ELSE st IN
           IF ~cur.ok THEN st' = Skip
           ELSE LET r == Step(cur.s, e) IN Report(l, r[1]) /\ st' = r[2]
=============================================================================
