----------------------------- MODULE Trace_C20 -----------------------------
(* Trace validation for C20: descriptor decoders on (tag, body), and PMT-level lag queries *)
EXTENDS TraceBase, PmtTypes
DescVerdict(e) ==
  LET t == e.tag  b == e.body IN
  IF e.maxbr # MaxBitrate(t, b) THEN "max-bitrate"
  ELSE IF e.es_bitrate # BitRate(t, b) THEN "es-bitrate"
  ELSE IF ~e.es_among_others_same THEN "stream-level-answer-depends-on-position-among-other-descriptors-or-on-the-descriptor-type-of-the-caller"
  ELSE IF e.lang # LangCode(t, b) THEN "iso639-language"
  ELSE IF e.audiotype # AudioType(t, b) THEN "iso639-audio-type"
  ELSE IF e.ttml_lang # TtmlLang(t, b) THEN "ttml-language"
  ELSE IF e.ttml_purpose # TtmlPurpose(t, b) THEN "ttml-purpose"
  ELSE IF e.es_ttml # IsTtmlEs(t, b) THEN "ttml-es"
  ELSE IF e.is_dovi # IsDovi(t, b) THEN "dovi-registration"
  ELSE IF e.dv_codec # DvCodec(t, b) THEN "dolby-vision-codec"
  ELSE IF ~e.dv_codec_same THEN "dolby-vision-codec-depends-on-the-codec-string-passed-in-or-on-calls-running-at-the-same-time"
  ELSE IF e.is_lang # (t = TagLanguage) \/ e.is_maxbr # (t = TagMaxBitrate) \/ e.is_ttml # (t = TagExtension) THEN "tag-test"
  ELSE IF e.tag_got # t THEN "tag"
  ELSE ""
PmtVerdict(e) ==
  IF \E k \in 1..Len(e.streams) : e.streams[k].lags # LagsEbp(e.streams[k].type) THEN "pmt-lags-by-pid"
  ELSE IF e.absent_lags THEN "pmt-lags-absent-pid"
  ELSE IF \E k \in 1..Len(e.after_remove) : e.after_remove[k].lags # (~e.after_remove[k].removed /\ LagsEbp(e.after_remove[k].type)) THEN "pmt-lags-after-removing-streams"
  ELSE ""
Verdict(e) == IF e.panic # "" THEN "panic"
              ELSE IF e.op = "desc" THEN DescVerdict(e)
              ELSE IF e.op = "pmtlags" THEN PmtVerdict(e)
              ELSE "harness-unknown-op"
Init == l = 1
Next == /\ l <= Len(Trace) /\ l' = l + 1
        /\ Report(l, Verdict(Trace[l]))
=============================================================================
