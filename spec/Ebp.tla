-------------------------------- MODULE Ebp --------------------------------
(***************************************************************************)
(* Encoder boundary point structures carried in transport private data     *)
(* (OC-SP-EBP-I01 / the earlier Comcast form), property C12.               *)
(*  Comcast   : 0xA9 len flags [ext] [sap] [grouping 1 byte] [time 8] tail *)
(*  CableLabs : 0xDF len 'EBP0' flags [ext] [sap] [grouping chain] [time 8]*)
(*              [partition flags] tail                                     *)
(*  flags byte: fragment 80, segment 40, SAP 20, grouping 10, time 08,     *)
(*              discontinuity/concealment 04, reserved 02, extension 01    *)
(*  grouping chain (CableLabs): bit 80 = another id follows, low 7 bits id *)
(* Parse reads a well-formed non-empty EBP; the same readings give what    *)
(* every getter must report and what re-encoding must reproduce.           *)
(***************************************************************************)
EXTENDS Wide

TagComcast   == 169
TagCableLabs == 223
FormatId     == <<69, 66, 80, 48>>       \* "EBP0"

Bit8(x, m) == (x \div m) % 2 = 1

\* index (1-based) of the last byte of the grouping chain starting at i
RECURSIVE ChainEnd(_, _)
ChainEnd(b, i) == IF i > Len(b) THEN 0 ELSE IF b[i] >= 128 THEN ChainEnd(b, i + 1) ELSE i

\* Parse is total: a string too short to hold the flags byte is simply not an EBP
NotAnEbp == [ok |-> FALSE, cablelabs |-> FALSE, tag |-> 0, flags |-> 0, fragment |-> FALSE, segment |-> FALSE, sapflag |-> FALSE,
             grouping |-> FALSE, timeflag |-> FALSE, disc |-> FALSE, extflag |-> FALSE, extbyte |-> 0, partition |-> FALSE, sap |-> 0,
             groups |-> <<>>, seconds |-> <<0, 0, 0, 0>>, fraction |-> <<0, 0, 0, 0>>, partflags |-> 0, tail |-> <<>>]
Parse(b) ==
  IF Len(b) < 3 \/ (b[1] = TagCableLabs /\ Len(b) < 7) THEN NotAnEbp ELSE
  LET tag   == b[1]
      cl    == tag = TagCableLabs
      fi    == IF cl THEN 7 ELSE 3                 \* index of the flags byte
      fl    == b[fi]
      ext   == Bit8(fl, 1)      sap == Bit8(fl, 32)   grp == Bit8(fl, 16)   tim == Bit8(fl, 8)
      i1    == fi + 1                                \* next unread index
      i2    == i1 + (IF ext THEN 1 ELSE 0)
      part  == cl /\ ext /\ i1 <= Len(b) /\ Bit8(b[i1], 128)
      i3    == i2 + (IF sap THEN 1 ELSE 0)
      gend  == IF ~grp THEN i3 - 1 ELSE IF cl THEN ChainEnd(b, i3) ELSE i3
      i4    == gend + 1
      i5    == i4 + (IF tim THEN 8 ELSE 0)
      i6    == i5 + (IF part THEN 1 ELSE 0)
      ok    == /\ Len(b) >= fi /\ b[2] = Len(b) - 2 /\ b[2] >= 1
               /\ (cl => SubSeq(b, 3, 6) = FormatId)
               /\ (grp => gend >= i3) /\ i6 - 1 <= Len(b)
  IN [ ok |-> ok, cablelabs |-> cl, tag |-> tag, flags |-> fl,
       fragment |-> Bit8(fl, 128), segment |-> Bit8(fl, 64), sapflag |-> sap, grouping |-> grp, timeflag |-> tim,
       disc |-> Bit8(fl, 4), extflag |-> ext,
       extbyte |-> IF ok /\ ext THEN b[i1] ELSE 0,
       partition |-> ok /\ part,
       sap |-> IF ok /\ sap THEN b[i2] ELSE 0,
       groups |-> IF ok /\ grp THEN [k \in 1..(gend - i3 + 1) |-> IF cl THEN b[i3 + k - 1] % 128 ELSE b[i3 + k - 1]] ELSE <<>>,
       seconds |-> IF ok /\ tim THEN SubSeq(b, i4, i4 + 3) ELSE <<0, 0, 0, 0>>,
       fraction |-> IF ok /\ tim THEN SubSeq(b, i4 + 4, i4 + 7) ELSE <<0, 0, 0, 0>>,
       partflags |-> IF ok /\ part THEN b[i5] ELSE 0,
       tail |-> IF ok THEN SubSeq(b, i6, Len(b)) ELSE <<>> ]

\* stream-sync signal: the first grouping id equal to 0x1C/0x1D, else 0xFF
RECURSIVE FirstSync(_, _)
FirstSync(g, i) == IF i > Len(g) THEN 255 ELSE IF g[i] \in {28, 29} THEN g[i] ELSE FirstSync(g, i + 1)
StreamSync(p) == FirstSync(p.groups, 1)

(***************************************************************************)
(* NTP-style time.  seconds/fraction are 4-digit wides.  The instant is    *)
(* reported as <<whole seconds since 1900-01-01T00:00:00Z, nanoseconds>>:  *)
(* era 0 (most significant bit of seconds set) counts from 1900, era 1     *)
(* from 2036-02-07T06:28:16Z = 1900 + 2^32 s.                              *)
(***************************************************************************)
Billion == <<59, 154, 202, 0>>                      \* 10^9
EraBase(sec) == IF sec[1] >= 128 THEN WZero(8) ELSE WPow2(32, 8)
Secs1900(sec) == WAdd(EraBase(sec), sec, 8)
\* floor(fraction * 10^9 / 2^32): the top four digits of the 8-digit product
Nanos(frac) == WToNat(SubSeq(WMul(frac, Billion), 1, 4))
\* an instant as total nanoseconds since 1900 (fits 8 digits up to year 2104)
TotalNs(secs1900, ns) == WAdd(WFit(WMul(WFit(secs1900, 5), Billion), 8), WFromNat(ns, 8), 8)
Within1ns(a, b) == IF WLe(a, b) THEN WLe(WSub(b, a), WFromNat(1, 8)) ELSE WLe(WSub(a, b), WFromNat(1, 8))
RangeLo == WPow2(31, 8)                              \* 1968-01-20T03:14:08Z
RangeHi == WAdd(WPow2(32, 8), WPow2(31, 8), 8)       \* 2104-02-26T09:42:24Z (exclusive)
=============================================================================
