CONSTANT Lens = {1, 2, 7, 8, 13, 14, 16, 23, 182, 183}
SPECIFICATION Spec
INVARIANT Emit
CHECK_DEADLOCK FALSE
