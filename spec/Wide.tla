------------------------------- MODULE Wide -------------------------------
(***************************************************************************)
(* Naturals wider than TLC's 32-bit integers, as big-endian base-256 digit *)
(* sequences ("wides").  A wide *is* the byte string that carries the      *)
(* value on the wire, so 33-bit PTS, 42-bit PCR, 40-bit durations, NTP     *)
(* seconds/fractions and 64-bit Go integers cross the Go/TLA+ boundary     *)
(* unchanged.  MC_Wide checks every operator against Integers on all       *)
(* 2-digit operands.                                                       *)
(***************************************************************************)
EXTENDS Bits

IsWide(a, n) == Len(a) = n /\ \A i \in 1..n : a[i] \in Byte

WZero(n) == [i \in 1..n |-> 0]

\* natural x (< 2^31) as an n-digit wide (n >= 4 to be lossless)
WFromNat(x, n) == [i \in 1..n |-> IF n - i <= 3 THEN (x \div (256^(n - i))) % 256 ELSE 0]

\* value of a wide known to be < 2^31
RECURSIVE WToNatAcc(_, _, _)
WToNatAcc(a, i, acc) == IF i > Len(a) THEN acc ELSE WToNatAcc(a, i + 1, acc * 256 + a[i])
WToNat(a) == WToNatAcc(a, 1, 0)

\* pad / truncate on the left to n digits (truncation = mod 256^n)
WFit(a, n) == IF Len(a) >= n THEN SubSeq(a, Len(a) - n + 1, Len(a))
              ELSE WZero(n - Len(a)) \o a

\* lexicographic comparison of equal-length wides
RECURSIVE WLtFrom(_, _, _)
WLtFrom(a, b, i) == IF i > Len(a) THEN FALSE
                    ELSE IF a[i] < b[i] THEN TRUE
                    ELSE IF a[i] > b[i] THEN FALSE
                    ELSE WLtFrom(a, b, i + 1)
WLt(a, b) == LET n == Max(Len(a), Len(b)) IN WLtFrom(WFit(a, n), WFit(b, n), 1)
WLe(a, b) == ~WLt(b, a)
WEq(a, b) == LET n == Max(Len(a), Len(b)) IN WFit(a, n) = WFit(b, n)

\* a + b, result has Max(len)+1 digits (never overflows)
RECURSIVE WAddAcc(_, _, _, _, _)
WAddAcc(a, b, i, carry, acc) ==
  IF i = 0 THEN <<carry>> \o acc
  ELSE LET s == a[i] + b[i] + carry IN WAddAcc(a, b, i - 1, s \div 256, <<s % 256>> \o acc)
WAddExt(a, b) == LET n == Max(Len(a), Len(b)) IN WAddAcc(WFit(a, n), WFit(b, n), n, 0, <<>>)
\* (a + b) mod 256^n
WAdd(a, b, n) == WFit(WAddExt(a, b), n)

\* a - b for a >= b, n = Max(len) digits
RECURSIVE WSubAcc(_, _, _, _, _)
WSubAcc(a, b, i, borrow, acc) ==
  IF i = 0 THEN acc
  ELSE LET d == a[i] + 256 - b[i] - borrow IN
       WSubAcc(a, b, i - 1, IF d < 256 THEN 1 ELSE 0, <<d % 256>> \o acc)
WSub(a, b) == LET n == Max(Len(a), Len(b)) IN WSubAcc(WFit(a, n), WFit(b, n), n, 0, <<>>)

\* a * k for a natural k < 2^22; result has Len(a)+3 digits
RECURSIVE WMulSmallAcc(_, _, _, _, _)
WMulSmallAcc(a, k, i, carry, acc) ==
  IF i = 0 THEN WFromNat(carry, 3) \o acc
  ELSE LET p == a[i] * k + carry IN WMulSmallAcc(a, k, i - 1, p \div 256, <<p % 256>> \o acc)
WMulSmall(a, k) == WMulSmallAcc(a, k, Len(a), 0, <<>>)

\* quotient and remainder of a by a natural k, 0 < k < 2^22
RECURSIVE WDivModAcc(_, _, _, _, _)
WDivModAcc(a, k, i, rem, acc) ==
  IF i > Len(a) THEN <<acc, rem>>
  ELSE LET cur == rem * 256 + a[i] IN WDivModAcc(a, k, i + 1, cur % k, Append(acc, cur \div k))
WDiv(a, k) == WDivModAcc(a, k, 1, 0, <<>>)[1]
WMod(a, k) == WDivModAcc(a, k, 1, 0, <<>>)[2]

\* full product, Len(a)+Len(b) digits (schoolbook via repeated small multiply)
RECURSIVE WMulAcc(_, _, _, _)
WMulAcc(a, b, j, acc) ==   \* acc holds a * (b[1..j-1]) ; shift-and-add
  IF j > Len(b) THEN acc
  ELSE WMulAcc(a, b, j + 1,
               WAddExt(acc \o <<0>>, WMulSmall(a, b[j])))
WMul(a, b) == WFit(WMulAcc(a, b, 1, <<0>>), Len(a) + Len(b))

\* bit views
WBits(a) == BytesToBits(a)
\* the low w bits of a as a bit string (w <= 8*Len(a))
WLowBits(a, w) == LET b == BytesToBits(a) IN SubSeq(b, Len(b) - w + 1, Len(b))
\* bit string (any length) -> wide of n digits (left-padded with zero bits)
WFromBitsN(b, n) == BitsToBytes(Zeros(8 * n - Len(b)) \o b)

\* 2^k as an n-digit wide
WPow2(k, n) == [i \in 1..n |-> IF n - i = k \div 8 THEN Pow2(k % 8) ELSE 0]

\* a mod 2^k
WModPow2(a, k) == WFromBitsN(WLowBits(a, k), Len(a))
=============================================================================
