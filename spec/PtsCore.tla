------------------------------ MODULE PtsCore ------------------------------
(***************************************************************************)
(* 33-bit presentation-time arithmetic across rollover (property C15),     *)
(* written once against an abstract numeric back-end so that the same      *)
(* text is checked (a) by TLC on a scaled-down width with native integers, *)
(* (b) by Apalache on unbounded integers at the real constants, and        *)
(* (c) by TLC on real 33-bit values from implementation traces through     *)
(* module Wide.                                                            *)
(*   M  = number of ticks on the timeline (2^33)                           *)
(*   L  = lower rollover threshold (162 000 000 = 30 min at 90 kHz)        *)
(*   U  = upper rollover threshold, M - 1 - L                              *)
(***************************************************************************)
CONSTANTS M, L, U, Z,          \* Z is the back-end's zero
          LT(_, _),            \* strict order on back-end numbers
          ADD(_, _),           \* exact addition (operands < 2M)
          SUB(_, _)            \* exact subtraction, first operand >= second

LE(a, b) == ~LT(b, a)

\* p counts as rolled over relative to q (both finite)
RolledOver(p, q) == LT(p, L) /\ LT(U, q)

\* reference ordering of two finite times
After(p, q) == IF RolledOver(p, q) THEN TRUE
               ELSE IF RolledOver(q, p) THEN FALSE
               ELSE LT(q, p)

GreaterOrEqual(p, q) == p = q \/ After(p, q)

\* (a + b) mod M for a, b < M
AddMod(a, b) == LET s == ADD(a, b) IN IF LT(s, M) THEN s ELSE SUB(s, M)

\* reference duration: distance travelled from the earlier to the later time
Dur(p, q) == IF RolledOver(p, q) THEN ADD(SUB(M, q), p)
             ELSE IF RolledOver(q, p) THEN ADD(SUB(M, p), q)
             ELSE IF LT(p, q) THEN SUB(q, p) ELSE SUB(p, q)

Wrapped(p, d) == ~LT(ADD(p, d), M)

(***************************************************************************)
(* The laws of property C15, as predicates over *observed* results so that *)
(* the same text judges the reference operators (model checking) and the   *)
(* implementation (trace validation).                                      *)
(***************************************************************************)
\* observations for an ordered pair of finite times p, q
PairLaws(p, q, roPQ, roQP, aftPQ, aftQP, gePQ, geQP, durPQ, durQP) ==
  /\ roPQ = RolledOver(p, q)
  /\ roQP = RolledOver(q, p)
  /\ (p = q) => (~aftPQ /\ ~aftQP)                      \* irreflexive
  /\ ~(aftPQ /\ aftQP)                                  \* asymmetric
  /\ (p # q) => (aftPQ \/ aftQP)                        \* total
  /\ gePQ = (aftPQ \/ p = q)
  /\ geQP = (aftQP \/ p = q)
  /\ durPQ = durQP                                      \* symmetric
  /\ (durPQ = Z) = (p = q)                              \* zero only on equal times

\* names of the PairLaws conjuncts, for diagnostics
PairLawFailed(p, q, roPQ, roQP, aftPQ, aftQP, gePQ, geQP, durPQ, durQP) ==
  IF roPQ # RolledOver(p, q) \/ roQP # RolledOver(q, p) THEN "rolledover"
  ELSE IF (p = q) /\ (aftPQ \/ aftQP) THEN "irreflexive"
  ELSE IF aftPQ /\ aftQP THEN "asymmetric"
  ELSE IF (p # q) /\ ~(aftPQ \/ aftQP) THEN "total"
  ELSE IF gePQ # (aftPQ \/ p = q) \/ geQP # (aftQP \/ p = q) THEN "greaterorequal"
  ELSE IF durPQ # durQP THEN "dur-symmetric"
  ELSE IF (durPQ = Z) # (p = q) THEN "dur-zero"
  ELSE ""

\* observations for r = p.Add(d), 1 <= d <= L
AddLawFailed(p, d, r, aftRP, aftPR, roRP, durRP, durPR) ==
  IF r # AddMod(p, d) THEN "add-value"
  ELSE IF ~aftRP THEN "add-after"
  ELSE IF aftPR THEN "add-notbefore"
  ELSE IF roRP # Wrapped(p, d) THEN "add-rolledover"
  ELSE IF durRP # d \/ durPR # d THEN "add-duration"
  ELSE ""
=============================================================================
