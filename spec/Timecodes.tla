------------------------------ MODULE Timecodes ------------------------------
(***************************************************************************)
(* PCR and PTS/DTS field layouts of ISO/IEC 13818-1 (property C04).        *)
(*  PCR (2.4.3.5): program_clock_reference_base 33 | reserved 6 |          *)
(*                 program_clock_reference_extension 9; value = base*300+ext*)
(*  PTS/DTS (2.4.3.7): prefix 4 | v[32..30] | marker | v[29..15] | marker  *)
(*                 | v[14..0] | marker                                     *)
(* Values are 8-digit wides (module Wide); fields are bit strings.         *)
(***************************************************************************)
EXTENDS Wide

W8(x) == WFromNat(x, 8)
PcrLimit == WMulSmall(WPow2(33, 8), 300)          \* 2^33 * 300 (11 digits)
IsPcrValue(v) == IsWide(v, 8) /\ WLt(v, PcrLimit)
IsPtsValue(v) == IsWide(v, 8) /\ WLt(v, WPow2(33, 8))

\* ---- PCR ----
PcrBase(v) == WDiv(v, 300)
PcrExt(v)  == WMod(v, 300)
EncPCR(v)  == BitsToBytes(WLowBits(PcrBase(v), 33) \o Ones(6) \o ToBits(PcrExt(v), 9))
\* decoding reads only the value bits
DecPCR(b)  == LET bits == BytesToBits(b)
                  base == WFromBitsN(SubSeq(bits, 1, 33), 8)
                  ext  == FromBits(SubSeq(bits, 40, 48))
              IN WFit(WAddExt(WMulSmall(base, 300), W8(ext)), 8)
PcrReservedBits == 34..39

\* ---- PTS / DTS ----
PtsValueBits(v) == WLowBits(v, 33)
\* the 40-bit field for a 4-bit prefix (0010 PTS only, 0011 PTS of PTS+DTS, 0001 DTS)
EncPTS(prefix, v) == LET vb == PtsValueBits(v) IN
   BitsToBytes(prefix \o SubSeq(vb, 1, 3) \o <<1>> \o SubSeq(vb, 4, 18) \o <<1>> \o SubSeq(vb, 19, 33) \o <<1>>)
DecPTS(b) == LET bits == BytesToBits(b) IN
   WFromBitsN(SubSeq(bits, 5, 7) \o SubSeq(bits, 9, 23) \o SubSeq(bits, 25, 39), 8)
PtsMarkerBits == {8, 24, 40}
PtsPrefixBits == 1..4
\* an encoding is acceptable when value and marker bits are right (the prefix depends on the use)
IsEncPTS(b, v) == /\ Len(b) = 5
                  /\ LET bits == BytesToBits(b) IN
                     /\ DecPTS(b) = WModPow2(v, 33)
                     /\ \A k \in PtsMarkerBits : bits[k] = 1
=============================================================================
