----------------------------- MODULE Trace_X01 -----------------------------
(***************************************************************************)
(* Trace validation of the Demux composition (spec growth beyond the       *)
(* listed properties; not registered in MANIFEST.json): Sync, ReadPAT,     *)
(* ReadPMT and NewSCTE35 applied in CLI order to one multiplexed stream.   *)
(***************************************************************************)
EXTENDS TraceBase, Demux, Pat, Scte35
S == INSTANCE Sync WITH Stream <- <<>>, pos <- 0, off <- 0, pc <- "", res <- ""
AbsDescs(ds) == [i \in 1..Len(ds) |-> [tag |-> ds[i].tag, body |-> ds[i].body]]
AbsPmt(a) == [program |-> a.program, version |-> a.version, cni |-> a.cni, pcrpid |-> a.pcrpid, progdescs |-> AbsDescs(a.progdescs),
              streams |-> [i \in 1..Len(a.streams) |-> [type |-> a.streams[i].type, pid |-> a.streams[i].pid, descs |-> AbsDescs(a.streams[i].descs)]]]
AbsPat(a) == [tsid |-> a.tsid, version |-> a.version, cni |-> a.cni, entries |-> a.entries]
ObsStreams(o) == [i \in 1..Len(o) |-> [type |-> o[i].type, pid |-> o[i].pid, descs |-> AbsDescs(o[i].descs)]]
\* the harness logs each multiplexed signal as the section bytes it put in the packet and the decoded getters
SctePkts(pkts, pid) == SelectSeq(pkts, LAMBDA p : Get("pid", p) = pid)
\* ---- encoder boundary points carried in transport private data ----
AFm == INSTANCE AdaptationField
E   == INSTANCE Ebp
\* what adaptationfield.EncoderBoundaryPoint must return for packet p: the transport private data when the packet
\* has an adaptation field of non-zero length whose private-data flag is set; "no EBP" otherwise
EbpOf(p) == IF Get("afc", p) \in {2, 3} /\ p[5] > 0 /\ AFm!Parse(SubSeq(p, 5, 5 + p[5])).ok /\ AFm!Parse(SubSeq(p, 5, 5 + p[5])).a.hastpd
            THEN <<AFm!Parse(SubSeq(p, 5, 5 + p[5])).a.tpd>> ELSE <<>>
EbpScanVerdict(e) ==
  IF Len(e.res) # Len(e.packets) THEN "harness-ebpscan-count"
  ELSE IF \E i \in 1..Len(e.packets) : EbpOf(e.packets[i]) = <<>> /\ e.res[i].err # "noebp" THEN "ebp-reported-for-a-packet-without-private-data"
  ELSE IF \E i \in 1..Len(e.packets) : EbpOf(e.packets[i]) # <<>> /\ (e.res[i].err # "nil" \/ e.res[i].bytes # EbpOf(e.packets[i])[1]) THEN "ebp-bytes"
  ELSE IF \E i \in 1..Len(e.packets) : EbpOf(e.packets[i]) # <<>> /\ E!Parse(EbpOf(e.packets[i])[1]).ok
                                         /\ (e.res[i].err2 \/ e.res[i].redata # EbpOf(e.packets[i])[1]) THEN "ebp-decode"
  ELSE ""
Verdict(e) ==
  IF e.panic # "" THEN "panic"
  ELSE IF e.op = "ebpscan" THEN EbpScanVerdict(e)
  ELSE IF ~S!Found(e.stream) THEN "harness-no-sync"
  ELSE IF e.sync_err # "nil" \/ e.sync_off # S!First(e.stream) THEN "demux-sync-offset"
  ELSE LET pkts == PacketsFrom(e.stream, S!First(e.stream))
           pat == AbsPat(e.pat)  pmt == AbsPmt(e.pmt)
           k == PatIndex(pkts) IN
  IF e.variant = "nopat" THEN (IF k # 0 THEN "harness-variant-nopat"
                               ELSE IF e.pat_err # "notfound" THEN "demux-missing-pat-not-reported-as-not-found" ELSE "")
  ELSE IF k = 0 \/ ~PatPayloadOK(pkts[k], PatSection(pat)) THEN "harness-bad-pat-packet"
  ELSE IF e.pat_err # "nil" THEN "demux-pat-not-read"
  ELSE IF e.nump # NumPrograms(pat) \/ ~e.spts_ok \/ e.spts # SptsPid(pat) THEN "demux-pat-values"
  ELSE LET sel  == AfterWithPusi(pkts, k, SptsPid(pat))
           unit == FirstUnit(sel)
           mine == SelectSeq([i \in 1..(Len(pkts) - k) |-> pkts[k + i]], LAMBDA p : Get("pid", p) = SptsPid(pat))
           contFirst == mine # <<>> /\ Get("pusi", mine[1]) = 0 IN
  IF e.variant \in {"nopmt", "cutpmt"} THEN
       \* no unit of the PMT PID completes before the stream ends: the reader must say "not found"
       (IF ~(sel = <<>> \/ (unit = sel /\ ~Done(Flatten([i \in 1..Len(sel) |-> PktPayload(sel[i])])))) THEN "harness-variant-nopmt"
        ELSE IF e.pmt_err = "notfound" THEN ""
        ELSE IF contFirst THEN "demux-pmt-not-read-when-first-pmt-packet-is-a-continuation"
        ELSE "demux-missing-pmt-not-reported-as-not-found")
  ELSE IF unit = <<>> \/ ~IsCarriage(unit, PmtPayload(0, <<>>, pmt, 0)) THEN "harness-bad-pmt-carriage"
  ELSE IF e.pmt_err # "nil" THEN
       (IF contFirst THEN "demux-pmt-not-read-when-first-pmt-packet-is-a-continuation"
        ELSE "demux-pmt-not-read")
  ELSE IF ObsStreams(e.streams) # StreamView(pmt) \/ e.pids # PidList(pmt) THEN "demux-pmt-values"
  \* the readers consume whole packets and nothing behind the packet that completed the table (the caller reads on)
  ELSE IF e.rest_len # Len(e.stream) - (S!First(e.stream) + (188 * DoneIdx(pkts, k, SptsPid(pat)))) THEN "demux-reader-position-after-readpmt"
  ELSE LET sp == SctePkts(pkts, e.scte_pid) IN
  IF Len(sp) # Len(e.scte) THEN "harness-scte-count"
  ELSE IF \E i \in 1..Len(sp) : ~(LET pay == PktPayload(sp[i])  sec == e.scte[i].section IN
                                    Len(pay) >= 1 + Len(sec) /\ SubSeq(pay, 1, 1 + Len(sec)) = <<0>> \o sec) THEN "harness-bad-scte-packet"
  ELSE IF \E i \in 1..Len(sp) : e.scte[i].err # "nil" THEN "demux-scte-rejected"
  ELSE IF \E i \in 1..Len(sp) : e.scte[i].redata # e.scte[i].section THEN "demux-scte-data-differs"
  ELSE ""
Init == l = 1
Next == /\ l <= Len(Trace) /\ l' = l + 1
        /\ Report(l, Verdict(Trace[l]))
=============================================================================
