----------------------------- MODULE Trace_C05 -----------------------------
(* Trace validation for C05: every monitored execution is judged against the Totality contract *)
EXTENDS TraceBase, Totality
Init == l = 1
Next == /\ l <= Len(Trace) /\ l' = l + 1
        /\ Report(l, Judge(Trace[l]))
=============================================================================
