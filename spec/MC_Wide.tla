------------------------------ MODULE MC_Wide ------------------------------
(* Cross-checks module Wide against TLC's native integers on 2-digit operands *)
EXTENDS Wide, TLC
S == (0..70) \cup {k * 251 : k \in 0..261} \cup {65535 - k : k \in 0..40} \cup {255, 256, 257, 511, 512, 32767, 32768}
K == {1, 2, 3, 7, 255, 256, 300, 1000, 65535, 1000000, 4194303}
VARIABLES a, b
Init == a \in S /\ b \in S
Next == UNCHANGED <<a, b>>
W(x) == WFromNat(x, 2)
Inv ==
  /\ WToNat(W(a)) = a
  /\ WLt(W(a), W(b)) = (a < b)
  /\ WLe(W(a), W(b)) = (a <= b)
  /\ WToNat(WAddExt(W(a), W(b))) = a + b
  /\ WToNat(WAdd(W(a), W(b), 2)) = (a + b) % 65536
  /\ (a >= b) => WToNat(WSub(W(a), W(b))) = a - b
  /\ (a < 32768 /\ b < 32768) => WToNat(WMul(W(a), W(b))) = a * b
  /\ WToNat(WMul(WFromNat(a % 256, 1), W(b))) = (a % 256) * b
  /\ \A k \in K : /\ WToNat(WDiv(W(a), k)) = a \div k
                  /\ WMod(W(a), k) = a % k
  /\ \A k \in {1, 2, 3, 255, 300, 1000, 32767} : WToNat(WMulSmall(W(a), k)) = a * k
  /\ WToNat(WModPow2(W(a), b % 17)) = a % (2^(b % 17))
  /\ WFromBitsN(WBits(W(a)), 2) = W(a)
  /\ WToNat(WPow2(b % 16, 2)) = 2^(b % 16)
  /\ WFromNat((a * 32768) + (b % 32768), 4) = <<(a \div 512) % 256, (a \div 2) % 256, (((a % 2) * 128) + ((b % 32768) \div 256)), b % 256>>
=============================================================================
