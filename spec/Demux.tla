-------------------------------- MODULE Demux --------------------------------
(***************************************************************************)
(* System-level composition (beyond the listed properties): what the       *)
(* library's readers, used in the order of cli/parsefile.go on one byte    *)
(* stream, must report for a single-program transport stream.              *)
(*                                                                         *)
(*   stream = garbage ++ packet_1 ++ ... ++ packet_n [++ partial tail]     *)
(*   1. Sync        -> offset of the first plausible header (Sync!First)   *)
(*   2. ReadPAT     -> the PAT carried by the first PID-0 packet at or     *)
(*                     after that offset                                   *)
(*   3. ReadPMT(pid)-> the PMT carried by the packets of the PMT PID that  *)
(*                     FOLLOW the PAT packet (the reader has moved on),    *)
(*                     starting at the first one with PUSI                 *)
(*   4. every later packet: a splice_info_section on a PID whose stream    *)
(*      type is 0x86 decodes to the multiplexed signal; transport private  *)
(*      data starting with an EBP tag decodes to the multiplexed EBP       *)
(* The module composes Sync, TsHeader, Pat and Pmt; SCTE-35 and EBP bytes  *)
(* are compared with what was multiplexed (their codecs are C08 / C12).    *)
(***************************************************************************)
EXTENDS Pmt

\* the complete packets of the stream starting at byte offset off (0-based)
RECURSIVE ChopFrom(_, _, _)
ChopFrom(s, pos, acc) == IF pos + 188 > Len(s) THEN acc ELSE ChopFrom(s, pos + 188, Append(acc, SubSeq(s, pos + 1, pos + 188)))
PacketsFrom(s, off) == ChopFrom(s, off, <<>>)

FirstIdx(pkts, P(_), from) == LET S == { i \in from..Len(pkts) : P(pkts[i]) } IN
                              IF S = {} THEN 0 ELSE CHOOSE i \in S : \A j \in S : i <= j
IsPatPkt(p) == Get("pid", p) = 0
\* index of the first PAT packet, 0 if none
PatIndex(pkts) == FirstIdx(pkts, IsPatPkt, 1)
\* payload of the PAT packet must be pointer_field 0 ++ section ++ 0xFF...
PatPayloadOK(p, sec) == LET pay == PktPayload(p) IN
   /\ Len(pay) >= 1 + Len(sec) /\ SubSeq(pay, 1, 1 + Len(sec)) = <<0>> \o sec
   /\ \A i \in (2 + Len(sec))..Len(pay) : pay[i] = 255

\* the PMT packets seen by ReadPMT: those of pid after index k, from the first with PUSI on
AfterWithPusi(pkts, k, pid) ==
  LET mine == [i \in 1..(Len(pkts) - k) |-> pkts[k + i]]
      sel  == SelectSeq(mine, LAMBDA p : Get("pid", p) = pid)
      st   == { i \in 1..Len(sel) : Get("pusi", sel[i]) = 1 }
  IN IF st = {} THEN <<>> ELSE SubSeq(sel, CHOOSE i \in st : \A j \in st : i <= j, Len(sel))
\* the accumulated unit: from the first PUSI packet up to (not including) the next PUSI packet
FirstUnit(sel) == LET nxt == { i \in 2..Len(sel) : Get("pusi", sel[i]) = 1 } IN
                  IF nxt = {} THEN sel ELSE SubSeq(sel, 1, (CHOOSE i \in nxt : \A j \in nxt : i <= j) - 1)
\* index (in pkts) of the packet at which the first unit of pid after packet k completes (Psi!Done on the payload
\* accumulated since the unit start); 0 if it never does
MineIdx(pkts, k, pid) == { i \in (k + 1)..Len(pkts) : Get("pid", pkts[i]) = pid }
DoneIdx(pkts, k, pid) ==
  LET starts == { i \in MineIdx(pkts, k, pid) : Get("pusi", pkts[i]) = 1 } IN
  IF starts = {} THEN 0 ELSE
  LET s0   == CHOOSE i \in starts : \A j \in starts : i <= j
      rest == { i \in starts : i > s0 }
      stop == IF rest = {} THEN Len(pkts) + 1 ELSE CHOOSE i \in rest : \A j \in rest : i <= j
      unit == { i \in MineIdx(pkts, k, pid) : i >= s0 /\ i < stop }
      Upto(i) == Flatten([j \in 1..Len(pkts) |-> IF j \in unit /\ j <= i THEN PktPayload(pkts[j]) ELSE <<>>])
      done == { i \in unit : Done(Upto(i)) }
  IN IF done = {} THEN 0 ELSE CHOOSE i \in done : \A j \in done : i <= j
=============================================================================
