CONSTANTS RingLen = 2 Depth = 4
  Types = {16, 17, 19, 20, 48, 49, 52, 53, 64, 65, 80, 34}
  PtsVals = {0, 10, 20}
SPECIFICATION Spec
VIEW View
INVARIANTS OpenIsConsistent HiddenIsTheBreakaway
PROPERTY CallClauses
CHECK_DEADLOCK FALSE
