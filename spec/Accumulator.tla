----------------------------- MODULE Accumulator -----------------------------
(***************************************************************************)
(* The payload accumulator (packet/accumulator.go, property C17) as a      *)
(* state machine over abstract packets                                     *)
(*      [id, pusi, haspay, payload]                                        *)
(* with one action per public call.  A completion predicate is abstracted  *)
(* to a pair of thresholds on the accumulated length:                      *)
(*      [done |-> k, fail |-> j]   (0 = never)                             *)
(* fail has priority (the predicate returns its error).                    *)
(* What the property leaves open is left open here: whether a packet that  *)
(* is rejected for lack of payload is listed by Packets() (choice `keep`). *)
(***************************************************************************)
EXTENDS Naturals, Sequences

VARIABLES mode,      \* "starting" | "accumulating" | "done"
          buf,       \* accumulated payload bytes
          pkts,      \* ids of the packets held, in order
          last       \* result class of the last call: "nil","nopusi","nopayload","pred","done","refused-done","reset"
accvars == <<mode, buf, pkts, last>>

PredResult(pred, b) == IF pred.fail > 0 /\ Len(b) >= pred.fail THEN "err"
                       ELSE IF pred.done > 0 /\ Len(b) >= pred.done THEN "done"
                       ELSE "no"

AccInit == mode = "starting" /\ buf = <<>> /\ pkts = <<>> /\ last = "reset"

\* WritePacket(p) under predicate pred as a function of the current state s = [mode, buf, pkts];
\* keep \in BOOLEAN resolves the open choice.  Result: [mode, buf, pkts, last].
WriteF(s, p, pred, keep) ==
  IF s.mode = "done" THEN [mode |-> s.mode, buf |-> s.buf, pkts |-> s.pkts, last |-> "refused-done"]
  ELSE IF s.mode = "starting" /\ ~p.pusi THEN [mode |-> s.mode, buf |-> s.buf, pkts |-> s.pkts, last |-> "nopusi"]
  ELSE LET b0 == IF p.pusi THEN <<>> ELSE s.buf           \* a unit start discards what came before
           k0 == IF p.pusi THEN <<>> ELSE s.pkts
       IN IF ~p.haspay THEN
               [mode |-> "accumulating", buf |-> b0, pkts |-> (IF keep THEN Append(k0, p.id) ELSE k0), last |-> "nopayload"]
          ELSE LET b1 == b0 \o p.payload
                   r  == PredResult(pred, b1) IN
               [mode |-> (IF r = "done" THEN "done" ELSE "accumulating"), buf |-> b1, pkts |-> Append(k0, p.id),
                last |-> (CASE r = "err" -> "pred" [] r = "done" -> "done" [] OTHER -> "nil")]

Cur == [mode |-> mode, buf |-> buf, pkts |-> pkts]
Write(p, pred, keep) == LET r == WriteF(Cur, p, pred, keep) IN
                        mode' = r.mode /\ buf' = r.buf /\ pkts' = r.pkts /\ last' = r.last

ResetF == [mode |-> "starting", buf |-> <<>>, pkts |-> <<>>, last |-> "reset"]
Reset == mode' = "starting" /\ buf' = <<>> /\ pkts' = <<>> /\ last' = "reset"
=============================================================================
