CONSTANTS RingLen = 2 Depth = 12
  Types = {16, 17, 19, 20, 48, 49, 52, 53, 64, 65, 80, 81, 34, 35}
  PtsVals = {0, 10, 20}
SPECIFICATION SimSpec
INVARIANTS Emit OpenIsConsistent HiddenIsTheBreakaway
CHECK_DEADLOCK FALSE
