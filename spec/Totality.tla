------------------------------ MODULE Totality ------------------------------
(***************************************************************************)
(* The totality contract of the decoding entry points (property C05).      *)
(* This part of the specification is thin on purpose: whether Go code      *)
(* panics or loops is not something a TLA+ model observes.  The model      *)
(* contributes (a) the catalogue of entry points with their kind and       *)
(* whether they are read-only, (b) the outcome alphabet and the resource   *)
(* budget as a function of the input length, and (c) the judgement of each *)
(* monitored execution recorded by the harness.                            *)
(***************************************************************************)
EXTENDS Naturals, Sequences

Outcomes == {"value", "error"}             \* the only acceptable outcomes
\* bytes a call may allocate: a small multiple of the input size plus a constant
\* (getters, printers and re-encoders of the returned object run inside the call)
\* (TLC's integers are 32 bits wide: beyond 400 000 input bytes the budget is the cap the harness reports at)
\* The quantity reported is the cumulative number of bytes allocated during the call (a measure of work as much as of memory);
\* what the printing of the returned object allocates is reported apart (print_alloc): the property requires printing not
\* to panic and puts the resource bound on the entry points themselves - String() builds its text by repeated concatenation
\* and allocates 32 MB for a splice_insert of 255 components while holding 25 KB.
Budget(len) == IF len > 400000 THEN 2000000000 ELSE 2097152 + (4096 * len)
PrintBudget(len) == IF len > 400000 THEN 2000000000 ELSE 268435456 + (4096 * len)
\* bytes the stack of the calling goroutine may grow by: the depth of calls must not follow the input (a frame per
\* input byte or per packet makes the Go runtime end the process once the stack passes its limit)
StackBudget(len) == IF len > 100000000 THEN 2000000000 ELSE 1048576 + (16 * len)

\* <<entry point, kind, ro>>; ro: the operation must not modify the caller's buffer
Entries == {
  <<"packet.accessors", "packet", TRUE>>,
  <<"packet.af-getters-method", "packet", TRUE>>,
  <<"packet.af-getters-function", "packet", TRUE>>,
  <<"packet.af-setters", "packet", FALSE>>,
  <<"packet.modify", "packet", FALSE>>,
  <<"psi.accessors", "bytes", TRUE>>,
  <<"psi.NewPAT", "bytes", TRUE>>,
  <<"psi.NewPMT", "bytes", TRUE>>,
  <<"psi.PmtAccumulatorDoneFunc", "bytes", TRUE>>,
  <<"psi.ExtractCRC", "bytes", TRUE>>,
  <<"psi.descriptor", "bytes", TRUE>>,
  <<"psi.FilterPMTPacketsToPids", "bytes", TRUE>>,
  <<"pes.NewPESHeader", "bytes", TRUE>>,
  <<"ebp.ReadEncoderBoundaryPoint", "bytes", TRUE>>,
  <<"scte35.NewSCTE35", "bytes", TRUE>>,
  <<"gots.ComputeCRC", "bytes", TRUE>>,
  <<"packet.Sync", "stream", TRUE>>,
  <<"psi.ReadPAT", "stream", TRUE>>,
  <<"psi.ReadPMT", "stream", TRUE>>,
  <<"packet.Accumulator", "stream", TRUE>>,
  <<"packet.IOWriter", "stream", TRUE>> }
Ops == { x[1] : x \in Entries }
Entry(op) == CHOOSE x \in Entries : x[1] = op
KindOf(op) == Entry(op)[2]
ReadOnly(op) == Entry(op)[3]

Judge(e) ==
  IF e.op \notin Ops THEN "harness-unknown-op"
  ELSE IF e.outcome = "not-run" THEN ""     \* the entry point was retired after three calls without a result
  ELSE IF e.outcome = "panic" THEN "panic"
  ELSE IF e.outcome = "hang" THEN "hang-no-result-within-deadline"
  ELSE IF e.outcome = "oom" THEN "memory-limit-exceeded"
  ELSE IF e.outcome = "fatal" THEN "process-ended-by-a-fatal-runtime-error"
  ELSE IF e.outcome \notin Outcomes THEN "harness-bad-outcome-" \o e.outcome
  ELSE IF e.kind # KindOf(e.op) THEN "harness-bad-kind"
  ELSE IF e.kind = "packet" /\ e.len # 188 THEN "harness-bad-input"
  ELSE IF ReadOnly(e.op) /\ ~e.input_same THEN "read-only-operation-modified-its-input"
  ELSE IF e.alloc > Budget(e.len) THEN "allocation-beyond-budget"
  ELSE IF e.print_alloc > PrintBudget(e.len) THEN "allocation-while-printing-beyond-budget"
  ELSE IF e.stack > StackBudget(e.len) THEN "stack-beyond-budget"
  ELSE ""
=============================================================================
