------------------------------- MODULE MC_C02 -------------------------------
(***************************************************************************)
(* Design-level check of SetPayload on structurally complete packets: for  *)
(* every adaptation field shape (flag and optional-field combination, data *)
(* lengths 0..2) at every feasible adaptation_field_length in Lens (and    *)
(* payload-only / zero-length-AF packets) and every payload length in      *)
(* DLens, the constructive ExpectSetPayload satisfies the declarative      *)
(* postconditions of C02: count, read-back, preserved header fields and    *)
(* adaptation-field content, 0xFF stuffing, well-formedness, partition.    *)
(***************************************************************************)
EXTENDS TsPacket, TLC
CONSTANTS Lens, DLens
VARIABLES shape, dl
Six == <<1, 2, 3, 4, 126, 6>>
Shapes == { [Blank(1) EXCEPT !.disc = f[1], !.haspcr = f[2], !.pcr = (IF f[2] THEN Six ELSE <<>>),
                            !.hasopcr = f[3], !.opcr = (IF f[3] THEN Six ELSE <<>>),
                            !.hassplice = f[4], !.splice = (IF f[4] THEN 9 ELSE 0),
                            !.hastpd = (t >= 0), !.tpd = (IF t > 0 THEN [i \in 1..t |-> 40 + i] ELSE <<>>),
                            !.hasafe = (x >= 0), !.afe = (IF x > 0 THEN [i \in 1..x |-> 50 + i] ELSE <<>>)]
            : f \in [1..4 -> BOOLEAN], t \in {0 - 1, 0, 2}, x \in {0 - 1, 0, 1} }
\* kinds of packet built from a shape: "none" (payload only), "zero" (AF length 0), or a length in Lens
Kinds == {0 - 1, 0} \cup Lens        \* -1: payload only, 0: adaptation field of length 0
Init == shape \in Shapes \X Kinds /\ dl = 999
\* successors are computed in parallel by the workers
Next == dl = 999 /\ dl' \in DLens /\ UNCHANGED shape
Body(n) == [i \in 1..n |-> (i % 200) + 1]            \* payload bytes 1..200: never 0xFF, never 0
Hdr(afc) == <<71, 65, 35, (afc * 16) + 7>>
Pkt == LET a == shape[1]  k == shape[2] IN
       IF k = 0 - 1 THEN Hdr(1) \o Body(184)
       ELSE IF k = 0 THEN Hdr(3) \o <<0>> \o Body(183)
       ELSE Hdr(3) \o Ser([a EXCEPT !.len = k]) \o Body(183 - k)
Feasible == dl # 999 /\ (shape[2] <= 0 \/ Content(shape[1]) <= shape[2])
Data == [i \in 1..dl |-> 201 + (i % 50)]
R == ExpectSetPayload(Pkt, Data)
Post ==
  Feasible =>
  /\ WFLoose(Pkt)
  /\ ~R.err /\ R.n = Min(dl, Capacity(Pkt))
  /\ Len(R.pkt) = 188 /\ WFLoose(R.pkt)
  /\ PayloadPart(R.pkt) = SubSeq(Data, 1, R.n)                         \* read-back
  /\ \A f \in FieldNames \ {"afc"} : Get(f, R.pkt) = Get(f, Pkt)       \* PID, flags, counters
  /\ HasPayload(R.pkt)
  /\ (HasAF(Pkt) /\ AfLen(Pkt) >= 1) =>
        /\ HasAF(R.pkt) /\ AfLen(R.pkt) >= 1
        /\ [AfOf(R.pkt) EXCEPT !.len = 0] = [AfOf(Pkt) EXCEPT !.len = 0]   \* every flag and optional field
  /\ HeaderPart(R.pkt) \o PayloadPart(R.pkt) = R.pkt                   \* partition
  /\ (HasAF(Pkt) /\ AfLen(Pkt) >= 1) => Capacity(R.pkt) = Capacity(Pkt)
  /\ (dl >= Capacity(Pkt)) => (IF HasAF(Pkt) THEN AfContentBytes(R.pkt) = 1 + AfLen(R.pkt) ELSE ~HasAF(R.pkt))  \* no stuffing left
AfOnlyRefused == dl = 999 \/ LET q == Hdr(2) \o Ser(Blank(183)) IN ExpectSetPayload(q, Data).err /\ ExpectSetPayload(q, Data).pkt = q
=============================================================================
