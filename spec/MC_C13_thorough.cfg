CONSTANTS A = {0, 1, 128, 255, 71} MaxLen = 7
INIT Init
NEXT Next
INVARIANTS Agree Residue
CHECK_DEADLOCK FALSE
