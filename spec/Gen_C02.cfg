CONSTANTS Lens = {1, 2, 7, 8, 13, 14, 20, 100, 182}
          DLens = {0, 1, 2, 83, 84, 163, 164, 169, 170, 175, 176, 181, 182, 183, 184, 185, 200}
INIT Init
NEXT Next
INVARIANTS Emit
CHECK_DEADLOCK FALSE
