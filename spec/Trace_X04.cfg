INIT Init
NEXT Next
POSTCONDITION AllConsumed
CHECK_DEADLOCK FALSE
