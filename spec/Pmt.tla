-------------------------------- MODULE Pmt --------------------------------
(***************************************************************************)
(* Program map table (ISO/IEC 13818-1 2.4.4.8, Table 2-33), its carriage   *)
(* in transport packets, and PMT filtering (properties C06, C14).          *)
(*  pmt == [program, version, cni, pcrpid,                                 *)
(*          progdescs : Seq([tag, body]),                                  *)
(*          streams   : Seq([type, pid, descs : Seq([tag, body])])]        *)
(***************************************************************************)
EXTENDS Psi, TsHeader

DescBytes(ds) == Flatten([i \in 1..Len(ds) |-> <<ds[i].tag, Len(ds[i].body)>> \o ds[i].body])
StreamBytes(s) == LET d == DescBytes(s.descs) IN
   <<s.type, 224 + (s.pid \div 256), s.pid % 256, 240 + (Len(d) \div 256), Len(d) % 256>> \o d
PmtBody(pmt) == LET pd == DescBytes(pmt.progdescs) IN
   <<pmt.program \div 256, pmt.program % 256, 192 + (pmt.version * 2) + BoolBit(pmt.cni), 0, 0,
     224 + (pmt.pcrpid \div 256), pmt.pcrpid % 256, 240 + (Len(pd) \div 256), Len(pd) % 256>>
   \o pd \o Flatten([i \in 1..Len(pmt.streams) |-> StreamBytes(pmt.streams[i])])
PmtSection(pmt) == Section(2, TRUE, FALSE, PmtBody(pmt))
WFPmt(pmt) == /\ pmt.program \in 0..65535 /\ pmt.version \in 0..31 /\ pmt.pcrpid \in 0..8191
              /\ \A i \in 1..Len(pmt.streams) : pmt.streams[i].type \in Byte /\ pmt.streams[i].pid \in 0..8191
              /\ Len(PmtBody(pmt)) + 4 <= 1021

\* the payload: pointer_field n with filler, complete sections `before`, the PMT section, k stuffing bytes
PmtPayload(n, before, pmt, k) == Pointer(n) \o Flatten(before) \o PmtSection(pmt) \o Rep(255, k)

\* ---- observable views ----
StreamView(pmt) == [i \in 1..Len(pmt.streams) |->
    [type |-> pmt.streams[i].type, pid |-> pmt.streams[i].pid,
     descs |-> [j \in 1..Len(pmt.streams[i].descs) |-> [tag |-> pmt.streams[i].descs[j].tag, body |-> pmt.streams[i].descs[j].body]]]]
PidList(pmt) == [i \in 1..Len(pmt.streams) |-> pmt.streams[i].pid]

\* ---- completion predicate on the prefixes of a complete well-formed payload ----
\* cumulative ends (number of bytes from the first table_id) of the sections found by walking s
RECURSIVE SectionEnds(_, _, _)
SectionEnds(s, pos, acc) ==
  IF pos > Len(s) \/ s[pos] = 255 \/ pos + 2 > Len(s) THEN acc
  ELSE LET e == pos + 2 + ((s[pos + 1] % 4) * 256) + s[pos + 2] IN
       IF e > Len(s) THEN acc ELSE SectionEnds(s, e + 1, acc \cup {e})
\* the prefix lengths L of payload p for which Done(prefix) holds (closed form of Psi!Done on a complete payload)
DoneLengths(p) ==
  LET ends == SectionEnds(p, 2 + p[1], {})
      last == IF ends = {} THEN 0 ELSE CHOOSE e \in ends : \A f \in ends : f <= e
  IN IF ends = {} THEN { L \in 0..Len(p) : L >= 2 + p[1] /\ p[2 + p[1]] = 255 }
     ELSE ends \cup { L \in 0..Len(p) : L > last }

(***************************************************************************)
(* Carriage: the packets of `pid` in a packet sequence, in order, carry    *)
(* the payload: the first has payload_unit_start_indicator, the others do  *)
(* not, and their payloads concatenate to the payload followed by 0xFF.    *)
(***************************************************************************)
PktPayload(p) == IF ~HasPayload(p) THEN <<>> ELSE IF HasAF(p) THEN SubSeq(p, 6 + p[5], 188) ELSE SubSeq(p, 5, 188)
OnPid(pkts, pid) == SelectSeq(pkts, LAMBDA p : Get("pid", p) = pid)
Carried(pkts) == Flatten([i \in 1..Len(pkts) |-> PktPayload(pkts[i])])
IsCarriage(pkts, payload) ==
  /\ Len(pkts) >= 1 /\ Get("pusi", pkts[1]) = 1
  /\ \A i \in 2..Len(pkts) : Get("pusi", pkts[i]) = 0
  /\ LET c == Carried(pkts) IN
     /\ Len(c) >= Len(payload) /\ SubSeq(c, 1, Len(payload)) = payload
     /\ \A i \in (Len(payload) + 1)..Len(c) : c[i] = 255

(***************************************************************************)
(* Filtering (C14).                                                        *)
(***************************************************************************)
InSeq(x, s) == \E i \in 1..Len(s) : s[i] = x
Keep(pmt, pids) == [pmt EXCEPT !.streams = SelectSeq(pmt.streams, LAMBDA s : InSeq(s.pid, pids))]
\* requested PIDs that are neither in the PMT nor the PAT PID nor the PMT PID, in request order
Missing(pmt, pids, pmtpid) == SelectSeq(pids, LAMBDA q : ~InSeq(q, PidList(pmt)) /\ q # 0 /\ q # pmtpid)
Remove(pmt, pids) == [pmt EXCEPT !.streams = SelectSeq(pmt.streams, LAMBDA s : ~InSeq(s.pid, pids))]
FilteredPayload(n, pmt, pids) == Pointer(n) \o PmtSection(Keep(pmt, pids))
\* header part (4 bytes + adaptation field) of a packet
HeaderOf(p) == IF HasAF(p) THEN SubSeq(p, 1, 5 + p[5]) ELSE SubSeq(p, 1, 4)
=============================================================================
