------------------------------ MODULE SegRules ------------------------------
(***************************************************************************)
(* The segmentation-descriptor closing relation, in/out classification and *)
(* descriptor equality of the scte35 package (properties C19, C10).        *)
(* RuleTable is the library's documented closing-rule table, transcribed   *)
(* once from scte35/segmentationdescriptor.go at the pinned commit         *)
(* (including the four program-breakaway entries added after the literal); *)
(* a later edit of the Go table is exactly what the conformance check must *)
(* detect.  Rows: <<incoming type, {<<open type, rule kind>>}>>.           *)
(* A descriptor is a record [type, eid, haspts, pts, segnum, segexp,       *)
(* hassub, subnum, subexp]; pts is any value comparable with =.            *)
(***************************************************************************)
EXTENDS Naturals, Sequences, FiniteSets

RuleTable == {
  <<16, {<<16, "NoBreakaway">>, <<20, "Normal">>, <<23, "NoBreakaway">>, <<25, "NoBreakaway">>, <<32, "Normal">>, <<34, "Normal">>, <<36, "Normal">>, <<38, "Normal">>, <<48, "Normal">>, <<52, "Normal">>, <<54, "Normal">>, <<60, "Normal">>, <<64, "Normal">>, <<66, "Normal">>, <<68, "Normal">>}>>,
  <<17, {<<16, "EventID">>, <<20, "EventID">>, <<23, "EventID">>, <<25, "EventID">>, <<32, "Normal">>, <<34, "Normal">>, <<36, "Normal">>, <<38, "Normal">>, <<48, "Normal">>, <<52, "Normal">>, <<54, "Normal">>, <<60, "Normal">>, <<64, "Normal">>, <<66, "Normal">>, <<68, "Normal">>}>>,
  <<18, {<<16, "EventID">>, <<20, "EventID">>, <<23, "EventID">>, <<25, "EventID">>, <<32, "Normal">>, <<48, "Normal">>, <<50, "Normal">>, <<52, "Normal">>, <<54, "Normal">>}>>,
  <<19, {<<32, "Normal">>, <<48, "Normal">>, <<50, "Normal">>, <<52, "Normal">>, <<54, "Normal">>}>>,
  <<20, {<<16, "Breakaway">>, <<23, "Breakaway">>, <<25, "Breakaway">>, <<32, "Normal">>, <<48, "Normal">>, <<50, "Normal">>, <<52, "Normal">>, <<54, "Normal">>}>>,
  <<25, {<<16, "NoBreakaway">>, <<20, "Normal">>, <<23, "NoBreakaway">>, <<25, "NoBreakaway">>, <<32, "Normal">>, <<48, "Normal">>, <<50, "Normal">>, <<52, "Normal">>, <<54, "Normal">>}>>,
  <<32, {<<32, "Normal">>, <<48, "Normal">>, <<50, "Normal">>, <<52, "Normal">>, <<54, "Normal">>}>>,
  <<33, {<<32, "EventID">>, <<48, "Normal">>, <<50, "Normal">>, <<52, "Normal">>, <<54, "Normal">>}>>,
  <<34, {<<32, "Normal">>, <<34, "Normal">>, <<36, "Normal">>, <<38, "Normal">>, <<48, "Normal">>, <<52, "Normal">>, <<54, "Normal">>, <<60, "Normal">>, <<68, "Normal">>}>>,
  <<35, {<<34, "EventID">>, <<48, "Normal">>, <<52, "Normal">>, <<54, "Normal">>, <<60, "Normal">>, <<68, "Normal">>}>>,
  <<36, {<<32, "Normal">>, <<34, "Normal">>, <<36, "Normal">>, <<38, "Normal">>, <<48, "Normal">>, <<52, "Normal">>, <<54, "Normal">>, <<60, "Normal">>, <<68, "Normal">>}>>,
  <<37, {<<36, "EventID">>, <<48, "Normal">>, <<52, "Normal">>, <<54, "Normal">>, <<60, "Normal">>, <<68, "Normal">>}>>,
  <<38, {<<32, "Normal">>, <<34, "Normal">>, <<36, "Normal">>, <<38, "Normal">>, <<48, "Normal">>, <<52, "Normal">>, <<54, "Normal">>, <<60, "Normal">>, <<68, "Normal">>}>>,
  <<39, {<<38, "EventID">>, <<48, "Normal">>, <<52, "Normal">>, <<54, "Normal">>, <<60, "Normal">>, <<68, "Normal">>}>>,
  <<48, {<<48, "Normal">>, <<50, "Normal">>}>>,
  <<49, {<<48, "EventID">>}>>,
  <<50, {<<48, "Normal">>, <<50, "Normal">>}>>,
  <<51, {<<50, "EventID">>}>>,
  <<52, {<<48, "DiffPTS">>, <<60, "DiffPTS">>, <<68, "DiffPTS">>}>>,
  <<53, {<<48, "Normal">>, <<52, "EventIDNotNested">>, <<60, "Normal">>, <<68, "Normal">>}>>,
  <<54, {<<48, "DiffPTS">>, <<60, "DiffPTS">>, <<68, "DiffPTS">>}>>,
  <<55, {<<48, "Normal">>, <<54, "EventIDNotNested">>, <<60, "Normal">>, <<68, "Normal">>}>>,
  <<60, {<<48, "Normal">>, <<60, "Normal">>}>>,
  <<61, {<<60, "EventID">>}>>,
  <<64, {<<19, "Normal">>, <<64, "Normal">>}>>,
  <<65, {<<19, "Normal">>, <<64, "EventID">>}>>,
  <<66, {<<32, "Normal">>, <<34, "Normal">>, <<36, "Normal">>, <<38, "Normal">>, <<48, "Normal">>, <<52, "Normal">>, <<54, "Normal">>, <<60, "Normal">>, <<66, "Normal">>, <<68, "Normal">>}>>,
  <<67, {<<32, "Normal">>, <<34, "Normal">>, <<36, "Normal">>, <<38, "Normal">>, <<48, "Normal">>, <<52, "Normal">>, <<54, "Normal">>, <<60, "Normal">>, <<66, "EventID">>, <<68, "Normal">>}>>,
  <<68, {<<48, "DiffPTS">>, <<60, "DiffPTS">>, <<68, "Normal">>}>>,
  <<69, {<<48, "Normal">>, <<60, "Normal">>, <<68, "EventID">>}>>,
  <<80, {<<16, "Normal">>, <<19, "Normal">>, <<20, "Normal">>, <<23, "Normal">>, <<25, "Normal">>, <<32, "Normal">>, <<48, "Normal">>, <<50, "Normal">>, <<52, "Normal">>, <<54, "Normal">>, <<64, "Unconditional">>, <<80, "Normal">>}>>,
  <<81, {<<16, "Normal">>, <<19, "Normal">>, <<20, "Normal">>, <<23, "Normal">>, <<25, "Normal">>, <<32, "Normal">>, <<48, "Normal">>, <<50, "Normal">>, <<52, "Normal">>, <<54, "Normal">>, <<64, "Unconditional">>, <<80, "EventID">>}>> }

InTypes  == { r[1] : r \in RuleTable }
RulesFor(tin) == UNION { r[2] : r \in { x \in RuleTable : x[1] = tin } }
\* "none" when the pair has no rule
Kind(tin, tout) == LET ks == { e[2] : e \in { x \in RulesFor(tin) : x[1] = tout } }
                   IN IF ks = {} THEN "none" ELSE CHOOSE k \in ks : TRUE

\* the closing relation as a function of the conditions the property names
CanCloseBy(tin, tout, eidEq, ptsEq, segNumIsExp) ==
  LET k == Kind(tin, tout) IN
  CASE k = "none"             -> FALSE
    [] k \in {"Normal", "Unconditional", "Breakaway", "NoBreakaway"} -> TRUE
    [] k = "EventID"          -> eidEq
    [] k = "DiffPTS"          -> ~ptsEq
    [] k = "EventIDNotNested" -> eidEq /\ segNumIsExp
    [] OTHER                  -> FALSE

\* incoming descriptor d closes open descriptor o
CanClose(d, o) == CanCloseBy(d.type, o.type, d.eid = o.eid, d.pts = o.pts, d.segnum = d.segexp)

OutTypes == {16, 20, 23, 25, 32, 34, 48, 50, 52, 54, 64, 68, 80}
InTypesList == {17, 18, 19, 21, 22, 24, 33, 35, 49, 51, 53, 55, 65, 69, 81}
IsOut(t) == t \in OutTypes
IsIn(t)  == t \in InTypesList

SubView(d) == IF d.hassub THEN <<d.subnum, d.subexp>> ELSE <<>>
Equal(a, b) == /\ a.type = b.type /\ a.haspts /\ b.haspts /\ a.pts = b.pts /\ a.eid = b.eid
               /\ a.segnum = b.segnum /\ a.segexp = b.segexp
               /\ a.hassub = b.hassub /\ SubView(a) = SubView(b)
=============================================================================
