----------------------------- MODULE Trace_C13 -----------------------------
(* Trace validation for C13: every recorded ComputeCRC result is Crc32 of its input *)
EXTENDS TraceBase, Crc
Verdict(e) ==
  IF e.panic # "" THEN "panic"
  ELSE IF e.op = "emitted" THEN
       (IF Len(e.section) < 7 THEN "emitted-section-too-short"
        ELSE IF ((e.section[2] % 16) * 256) + e.section[3] # Len(e.section) - 3 THEN "emitted-section-length"
        ELSE IF ~Residue0(e.section) THEN "emitted-" \o e.kind \o "-section-crc-residue-nonzero"
        ELSE "")
  ELSE IF e.crc # Crc32(e.data) THEN "crc-value"
  ELSE IF e.crc_appended # <<0, 0, 0, 0>> THEN "residue-nonzero"
  ELSE IF ~e.input_same THEN "input-or-surrounding-bytes-modified"
  ELSE IF ~e.earlier_same THEN "checksum-returned-earlier-changed-by-a-later-call"
  ELSE IF Len(e.edited) # Len(e.data) THEN "harness-bad-edit"
  ELSE IF e.crc_edited # Crc32(e.edited) THEN "crc-value-after-the-buffer-was-edited-in-place"
  ELSE IF e.crc_restored # e.crc THEN "crc-value-after-the-edit-was-undone"
  ELSE IF ~e.par_same THEN "result-differs-when-calls-on-separate-strings-overlap-in-time"
  ELSE ""
Init == l = 1
Next == /\ l <= Len(Trace) /\ l' = l + 1
        /\ Report(l, Verdict(Trace[l]))
=============================================================================
