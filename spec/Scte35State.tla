----------------------------- MODULE Scte35State -----------------------------
(***************************************************************************)
(* The SCTE-35 open/closed state tracker (scte35/state.go, property C10),  *)
(* implementation-shaped: a stack of open descriptors, a marker for the    *)
(* pending program breakaway that Open() hides, and a ring of recently     *)
(* received (pts, descriptors) used for duplicate detection.               *)
(*                                                                         *)
(* A descriptor is a record with the fields of SegRules plus               *)
(*    id  : identity of the descriptor object                              *)
(*    vss : "none" | signal id, the stream-switch signal id of a 0x40      *)
(* State s = [open, hidden, ring, head, cnt]:                              *)
(*    open   : Seq([d, inst]) bottom first; inst numbers opening events    *)
(*    hidden : 0, or the position in open of the pending breakaway. It is  *)
(*             maintained on EVERY removal (this is what C10 demands; the  *)
(*             code keeps a raw index, whose staleness is a defect).       *)
(*    ring   : RingLen slots, each [used, pts, descs : Seq(desc)]          *)
(* Named implementation choices modelled as they are: ring length, ring    *)
(* scan order (slot order, insertion order), the rule that a same-event    *)
(* 0x40 with the same signal id is a duplicate, error precedence.          *)
(* Deliberate deviation from the code, following the property: a processed *)
(* descriptor is always recorded in the ring (the code skips recording     *)
(* after a same-event 0x40 with a different signal id).                    *)
(***************************************************************************)
EXTENDS SegRules

CONSTANT RingLen

Breakaway  == 19   \* 0x13
Resumption == 20   \* 0x14
Vss        == 64   \* 0x40
PushTypes  == {16, 32, 34, 48, 50, 52, 54, 68, 64, 80, 23, 25}

EmptySlot == [used |-> FALSE, pts |-> <<>>, descs |-> <<>>]
InitState == [open |-> <<>>, hidden |-> 0, ring |-> [i \in 1..RingLen |-> EmptySlot], head |-> 1, cnt |-> 0]

\* ---- duplicate detection: scan slots in slot order, descriptors in insertion order ----
\* Comparing incoming d with one recorded r in a slot with time p happens in two steps, as in the code:
\*  (1) same time: Equal -> "dup", otherwise d is appended to the slot;
\*  (2) same event id and both 0x40: a missing signal id -> "vsserr", equal signal ids -> "dup".
VssOutcome(d, r) == IF d.eid = r.eid /\ d.type = Vss /\ r.type = Vss
                    THEN IF d.vss = "none" \/ r.vss = "none" THEN "vsserr"
                         ELSE IF d.vss = r.vss THEN "dup" ELSE "none"
                    ELSE "none"

\* scan one slot: [out |-> "dup"|"vsserr"|"none", app |-> d was appended to this slot before the scan ended]
RECURSIVE ScanDescs(_, _, _, _, _)
ScanDescs(d, p, rs, i, app) ==
  IF i > Len(rs) THEN [out |-> "none", app |-> app]
  ELSE IF p = d.pts /\ Equal(d, rs[i]) THEN [out |-> "dup", app |-> app]
  ELSE LET app1 == app \/ (p = d.pts)
           v    == VssOutcome(d, rs[i]) IN
       IF v # "none" THEN [out |-> v, app |-> app1] ELSE ScanDescs(d, p, rs, i + 1, app1)

\* scan the ring: [out, ring'] where ring' carries the appends made before the scan ended
RECURSIVE ScanRing(_, _, _)
ScanRing(d, ring, k) ==
  IF k > Len(ring) THEN [out |-> "none", ring |-> ring, added |-> FALSE]
  ELSE IF ~ring[k].used THEN ScanRing(d, ring, k + 1)
  ELSE LET r  == ScanDescs(d, ring[k].pts, ring[k].descs, 1, FALSE)
           rk == IF r.app THEN [ring EXCEPT ![k].descs = Append(@, d)] ELSE ring IN
       IF r.out # "none" THEN [out |-> r.out, ring |-> rk, added |-> r.app]
       ELSE LET rest == ScanRing(d, rk, k + 1) IN
            [out |-> rest.out, ring |-> rest.ring, added |-> r.app \/ rest.added]

\* record d unless the scan already appended it to a slot with its time: a new slot at head
Record(d, scan, head) ==
  IF scan.added THEN [ring |-> scan.ring, head |-> head]
  ELSE [ring |-> [scan.ring EXCEPT ![head] = [used |-> TRUE, pts |-> d.pts, descs |-> <<d>>]],
        head |-> (head % Len(scan.ring)) + 1]

\* ---- the close loop: topmost elements closable by d, last opened first ----
RECURSIVE TopClosable(_, _, _)
TopClosable(d, open, i) == IF i = 0 THEN 0
                           ELSE IF CanClose(d, open[i].d) THEN 1 + TopClosable(d, open, i - 1) ELSE 0
Reverse(s) == [i \in 1..Len(s) |-> s[Len(s) + 1 - i]]

\* ---- the tracker's validation verdict (returned as an error next to the closed list; spec growth, X03) ----
\* cl: closed list (last opened first), o1: the stack after removing it, h1: pending breakaway index after it.
\*  - program resumption without a pending breakaway: "invalid" (the descriptor is pushed all the same);
\*  - program end that closed nothing: "missingout";
\*  - the other "end" types the library validates: satisfied when something was closed and nothing is left open;
\*    otherwise the descriptor it is matched against - the deepest closed one if that is the matching start type
\*    (end type - 1), else the top of the remaining stack ("missingout" if there is none) - must have the same event id.
ValidatedEnds == {33, 49, 53, 51, 55, 65, 81}   \* 0x21 0x31 0x35 0x33 0x37 0x41 0x51
Warn(d, cl, o1, h1) ==
  IF d.type = Resumption THEN (IF h1 = 0 THEN "invalid" ELSE "none")
  ELSE IF d.type = 17 THEN (IF Len(cl) = 0 THEN "missingout" ELSE "none")
  ELSE IF d.type \in ValidatedEnds THEN
       IF Len(cl) # 0 /\ Len(o1) = 0 THEN "none"
       ELSE IF Len(cl) = 0 \/ cl[Len(cl)].d.type # d.type - 1 THEN
            (IF Len(o1) = 0 THEN "missingout"
             ELSE IF o1[Len(o1)].d.eid # d.eid THEN "missingout" ELSE "none")
       ELSE IF cl[Len(cl)].d.eid # d.eid THEN "missingout" ELSE "none"
  ELSE "none"

\* ---- ProcessDescriptor ----
\* result: [s |-> state', res |-> "nopts" | "dup" | "vsserr" | "ok", closed |-> Seq([d, inst]), discarded |-> Seq]
ProcessF(s, d) ==
  IF ~d.haspts THEN [s |-> s, res |-> "nopts", closed |-> <<>>, discarded |-> <<>>, warn |-> "none"]
  ELSE LET scan == ScanRing(d, s.ring, 1) IN
  IF scan.out \in {"dup", "vsserr"} THEN [s |-> [s EXCEPT !.ring = scan.ring], res |-> scan.out, closed |-> <<>>, discarded |-> <<>>, warn |-> "none"]
  ELSE
    LET rec == Record(d, scan, s.head)
        k   == TopClosable(d, s.open, Len(s.open))
        n1  == Len(s.open) - k
        cl  == Reverse(SubSeq(s.open, n1 + 1, Len(s.open)))
        o1  == SubSeq(s.open, 1, n1)
        h1  == IF s.hidden > n1 THEN 0 ELSE s.hidden
        me  == [d |-> d, inst |-> s.cnt + 1]
        base == [s EXCEPT !.ring = rec.ring, !.head = rec.head]
    IN
    IF d.type = Breakaway THEN
         [s |-> [base EXCEPT !.open = Append(o1, me), !.hidden = n1 + 1, !.cnt = s.cnt + 1],
          res |-> "ok", closed |-> cl, discarded |-> <<>>, warn |-> "none"]
    ELSE IF d.type = Resumption /\ h1 # 0 THEN
         [s |-> [base EXCEPT !.open = Append(SubSeq(o1, 1, h1 - 1), me), !.hidden = 0, !.cnt = s.cnt + 1],
          res |-> "ok", closed |-> cl, discarded |-> SubSeq(o1, h1, n1), warn |-> "none"]
    ELSE IF d.type = Resumption \/ d.type \in PushTypes THEN
         [s |-> [base EXCEPT !.open = Append(o1, me), !.hidden = h1, !.cnt = s.cnt + 1],
          res |-> "ok", closed |-> cl, discarded |-> <<>>, warn |-> Warn(d, cl, o1, h1)]
    ELSE [s |-> [base EXCEPT !.open = o1, !.hidden = h1], res |-> "ok", closed |-> cl, discarded |-> <<>>, warn |-> Warn(d, cl, o1, h1)]

\* ---- Close(d): the topmost element Equal to d ----
EqualIdx(d, open) == { i \in 1..Len(open) : Equal(d, open[i].d) }
CloseF(s, d) ==
  IF EqualIdx(d, s.open) = {} THEN [s |-> s, res |-> "notfound", closed |-> <<>>]
  ELSE LET i == CHOOSE x \in EqualIdx(d, s.open) : \A y \in EqualIdx(d, s.open) : y <= x
           o1 == SubSeq(s.open, 1, i - 1) \o SubSeq(s.open, i + 1, Len(s.open))
           h1 == IF s.hidden = i THEN 0 ELSE IF s.hidden > i THEN s.hidden - 1 ELSE s.hidden
       IN [s |-> [s EXCEPT !.open = o1, !.hidden = h1], res |-> "ok", closed |-> <<s.open[i]>>]

\* ---- Open(): the stack without the pending breakaway ----
OpenView(s) == IF s.hidden = 0 THEN s.open
               ELSE SubSeq(s.open, 1, s.hidden - 1) \o SubSeq(s.open, s.hidden + 1, Len(s.open))
Ids(es) == [i \in 1..Len(es) |-> es[i].d.id]
=============================================================================
