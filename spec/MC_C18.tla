------------------------------- MODULE MC_C18 -------------------------------
(***************************************************************************)
(* Every way a reader can fragment a stream of up to MaxBytes bytes (chunk *)
(* sizes 0..MaxChunk, an error or EOF attached to any result, data         *)
(* returned together with the error) x every failing write position: the   *)
(* read loop delivers exactly ExpectReadFrom.  Bytes are numbered 1,2,3... *)
(* so that order and identity of delivered packets are observable.         *)
(***************************************************************************)
EXTENDS PacketWriter, TLC
CONSTANTS MaxBytes, MaxChunk, MaxFail
VARIABLES script, building
allvars == <<rd, buf, calls, n, res, fa, script, building>>
Produced(rs) == Len(StreamOf(rs, 1, <<>>))
TotalData(rs) == IF rs = <<>> THEN 0 ELSE Len(rs[Len(rs)].data) + 0
RECURSIVE SumLen(_, _)
SumLen(rs, i) == IF i > Len(rs) THEN 0 ELSE Len(rs[i].data) + SumLen(rs, i + 1)
Init == /\ script = <<>> /\ building = TRUE /\ fa \in 0..MaxFail
        /\ rd = <<>> /\ buf = <<>> /\ calls = <<>> /\ n = 0 /\ res = ""
Build == /\ building
         /\ \/ \E k \in 0..MaxChunk, e \in {"nil", "eof", "fail"} :
                 /\ SumLen(script, 1) + k <= MaxBytes
                 /\ (IF script = <<>> THEN TRUE ELSE script[Len(script)].err = "nil")
                 /\ (IF k > 0 THEN TRUE ELSE e # "nil")                 \* no empty non-error results (a reader must not spin)
                 /\ LET base == SumLen(script, 1) IN
                    script' = Append(script, [data |-> [i \in 1..k |-> base + i], err |-> e])
                 /\ UNCHANGED <<rd, buf, calls, n, res, fa, building>>
            \/ /\ building' = FALSE /\ rd' = script /\ UNCHANGED <<script, buf, calls, n, res, fa>>
Run == ~building /\ LoopNext /\ UNCHANGED <<script, building>>
Next == Build \/ Run
Spec == Init /\ [][Next]_allvars
Refines == (~building /\ res # "") =>
             LET x == ExpectReadFrom(script, fa) IN
             /\ calls = x.calls /\ res = x.err /\ n = x.n
Terminates == (~building /\ ~ENABLED Run) => res # ""
\* Write(b): purely declarative, checked for sanity on all lengths
WriteSane == \A len \in 0..(3 * PS) : \A f \in 0..3 :
               LET b == [i \in 1..len |-> i]  x == ExpectWrite(b, f) IN
               /\ (x.err = "invalidlength") = (len % PS # 0)
               /\ x.err = "invalidlength" => x.calls = <<>>
               /\ x.err = "nil" => (Len(x.calls) = len \div PS /\ x.full)
               /\ x.err = "writer" => Len(x.calls) = f
ASSUME WriteSane
=============================================================================
