----------------------------- MODULE Trace_C15 -----------------------------
(* Trace validation for C15: every recorded PTS call obeys the laws of PtsCore *)
EXTENDS TraceBase, PtsWide

Verdict(e) ==
  IF e.panic # "" THEN "panic"
  ELSE IF e.op = "pair" THEN
       IF ~(IsFinite(e.p) /\ IsFinite(e.q)) THEN "harness-bad-input"
       ELSE P!PairLawFailed(e.p, e.q, e.ro_pq, e.ro_qp, e.aft_pq, e.aft_qp, e.ge_pq, e.ge_qp, e.dur_pq, e.dur_qp)
  ELSE IF e.op = "add" THEN
       IF ~(IsFinite(e.p) /\ WLe(W8(1), e.d) /\ WLe(e.d, L33)) THEN "harness-bad-input"
       ELSE P!AddLawFailed(e.p, e.d, e.r, e.aft_rp, e.aft_pr, e.ro_rp, e.dur_rp, e.dur_pr)
  ELSE IF e.op = "sent" THEN
       IF ~IsFinite(e.p) THEN "harness-bad-input"
       ELSE IF ~e.aft_neg THEN "after-neginf"
       ELSE IF e.aft_pos THEN "after-posinf"
       ELSE ""
  ELSE "harness-unknown-op"

Init == l = 1
Next == /\ l <= Len(Trace) /\ l' = l + 1
        /\ Report(l, Verdict(Trace[l]))
=============================================================================
