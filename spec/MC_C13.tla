------------------------------- MODULE MC_C13 -------------------------------
(***************************************************************************)
(* Checks the CRC specification against itself: the table-driven byte step *)
(* equals eight serial steps for every byte and a sample of registers      *)
(* (linearity makes {0, unit vectors, all-ones} sufficient); the catalogue *)
(* check value CRC("123456789") = 0x0376E6E7; and, walking all strings of  *)
(* length <= MaxLen over alphabet A, serial = table-driven and the residue *)
(* of s ++ Crc32(s) is zero.                                               *)
(***************************************************************************)
EXTENDS Crc, TLC
CONSTANTS A, MaxLen
VARIABLE s
Init == s = <<>>
Next == Len(s) < MaxLen /\ \E x \in A : s' = Append(s, x)
RegSamples == {<<0, 0>>, <<65535, 65535>>, <<1217, 7607>>, <<43690, 21845>>}
              \cup {<<2^k, 0>> : k \in 0..15} \cup {<<0, 2^k>> : k \in 0..15}
ASSUME \A x \in 0..255 : \A r \in RegSamples : StepByteTable(r, x) = StepByteSerial(r, x)
ASSUME Crc32(<<49, 50, 51, 52, 53, 54, 55, 56, 57>>) = <<3, 118, 230, 231>>
ASSUME Crc32(<<>>) = <<255, 255, 255, 255>>
Agree == Crc32(s) = Crc32Serial(s)
Residue == Residue0(s \o Crc32(s))
=============================================================================
