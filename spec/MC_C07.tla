------------------------------- MODULE MC_C07 -------------------------------
(* all PATs with 0..3 entries over program numbers {0,1,2} and three PIDs: serialisation is consistent and the derived views are what C07 states *)
EXTENDS Pat, TLC
VARIABLE pat
Pids == {16, 256, 8191}
Entries == UNION { [1..n -> ({0, 1, 2} \X Pids)] : n \in 0..3 }
Init == \E es \in Entries : pat = [tsid |-> 513, version |-> 21, cni |-> TRUE, entries |-> es]
Next == UNCHANGED pat
Valid == WFPat(pat)
Checks == Valid =>
  LET s == PatSection(pat)  p == PatPayload(pat, 2) IN
  /\ Len(s) = 12 + (4 * Len(pat.entries))
  /\ ThLen(s) = Len(s) - 3 /\ ThTableId(s) = 0 /\ ThSsi(s) /\ ~ThPriv(s)
  /\ Residue0(s)
  /\ PSecLen(p) = ThLen(s) /\ PointerField(p) = 0
  /\ (ThLen(s) - 9) \div 4 = NumPrograms(pat)
  /\ Done(p) /\ \A k \in 1..(Len(s)) : ~Done(SubSeq(p, 1, k))
  /\ Cardinality(MapPids(pat)) <= Len(pat.entries)
  /\ SptsDefined(pat) => (Len(ProgramMap(pat)) = 1 /\ IsPmtPid(SptsPid(pat), pat))
=============================================================================
