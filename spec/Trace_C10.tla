----------------------------- MODULE Trace_C10 -----------------------------
(***************************************************************************)
(* Trace validation for C10: histories of ProcessDescriptor / Close / Open *)
(* on a real scte35.State.  Each line carries the abstract fields of the   *)
(* descriptor (read from the real object), the error class, the ids of the *)
(* descriptors returned as closed and the ids listed by Open() after the   *)
(* call.  The spec state is carried along the history.                     *)
(***************************************************************************)
EXTENDS TraceBase
T == INSTANCE Scte35State WITH RingLen <- 10
VARIABLE st
Fresh == [ok |-> TRUE, s |-> T!InitState]
Skip  == [ok |-> FALSE, s |-> T!InitState]
Step(s, e) ==
  IF e.panic # "" THEN <<"panic", Skip>>
  ELSE IF e.op = "process" THEN
       LET r == T!ProcessF(s, e.d) IN
       IF r.res # e.res THEN <<"process-result-" \o r.res \o "-expected-got-" \o e.res, Skip>>
       ELSE IF T!Ids(r.closed) # e.closed THEN <<"process-closed-list", Skip>>
       ELSE IF T!Ids(T!OpenView(r.s)) # e.open THEN <<"process-open-list", Skip>>
       ELSE <<"", [ok |-> TRUE, s |-> r.s]>>
  ELSE IF e.op = "close" THEN
       LET r == T!CloseF(s, e.d) IN
       IF r.res # e.res THEN <<"close-result-" \o r.res \o "-expected-got-" \o e.res, Skip>>
       ELSE IF T!Ids(r.closed) # e.closed THEN <<"close-closed-list", Skip>>
       ELSE IF T!Ids(T!OpenView(r.s)) # e.open THEN <<"close-open-list", Skip>>
       ELSE <<"", [ok |-> TRUE, s |-> r.s]>>
  ELSE IF e.op = "open" THEN
       IF T!Ids(T!OpenView(s)) # e.open THEN <<"open-list", Skip>> ELSE <<"", [ok |-> TRUE, s |-> s]>>
  ELSE <<"harness-unknown-op", Skip>>
Init == l = 1 /\ st = Fresh
Next == /\ l <= Len(Trace) /\ l' = l + 1
        /\ LET e == Trace[l]
               cur == IF e.first THEN Fresh ELSE st IN
           IF ~cur.ok THEN st' = Skip
           ELSE LET r == Step(cur.s, e) IN Report(l, r[1]) /\ st' = r[2]
=============================================================================
