----------------------------- MODULE Trace_C10 -----------------------------
(***************************************************************************)
(* Trace validation for C10: histories of ProcessDescriptor / Close / Open *)
(* on a real scte35.State.  Each line carries the abstract fields of the   *)
(* descriptor (read from the real object), the error class, the ids of the *)
(* descriptors returned as closed and the ids listed by Open() after the   *)
(* call.  The spec state is carried along the history.                     *)
(***************************************************************************)
EXTENDS TraceBase
T == INSTANCE Scte35State WITH RingLen <- 10
VARIABLE st
\* The spec state carried along a history: the tracker model and the descriptor of the immediately preceding
\* call when that call was a ProcessDescriptor that went through or was itself rejected as a duplicate.
NoLast == [ok |-> FALSE]
Fresh == [ok |-> TRUE, s |-> T!InitState, lp |-> NoLast]
Skip  == [ok |-> FALSE, s |-> T!InitState, lp |-> NoLast]
\* How long a descriptor is remembered for duplicate detection (the record of received times holds ten distinct
\* times) is not part of C10: only "twice in a row" is.  When model and code disagree on duplicate / not duplicate
\* for a descriptor that is NOT an immediate repeat, the code's answer is adopted: "dup" leaves the state as it
\* is, "ok" is the model's step from a state that remembers nothing.  (The capacity itself is checked by X03.)
ImmediateRepeat(lp, d) == lp.ok /\ T!Equal(d, lp.d)
Forget(s) == [s EXCEPT !.ring = T!InitState.ring]
ProcessAs(s, e, lp) ==
  LET r == T!ProcessF(s, e.d) IN
  IF r.res # e.res /\ r.res \in {"ok", "dup"} /\ e.res \in {"ok", "dup"} /\ ~ImmediateRepeat(lp, e.d)
  THEN IF e.res = "dup" THEN [s |-> s, res |-> "dup", closed |-> <<>>, discarded |-> <<>>, warn |-> "none"]
       ELSE T!ProcessF(Forget(s), e.d)
  ELSE r
Step(s, e, lp) ==
  IF e.panic # "" THEN <<"panic", Skip>>
  ELSE IF ~e.bystander_same THEN <<"another-tracker-changed-by-a-call-on-this-one", Skip>>
  ELSE IF e.op = "process" THEN
       LET r == ProcessAs(s, e, lp)
           nlp == IF e.res \in {"ok", "dup"} THEN [ok |-> TRUE, d |-> e.d] ELSE NoLast IN
       IF r.res # e.res THEN <<"process-result-" \o r.res \o "-expected-got-" \o e.res, Skip>>
       ELSE IF T!Ids(r.closed) # e.closed THEN <<"process-closed-list", Skip>>
       ELSE IF T!Ids(T!OpenView(r.s)) # e.open THEN <<"process-open-list", Skip>>
       ELSE <<"", [ok |-> TRUE, s |-> r.s, lp |-> nlp]>>
  ELSE IF e.op = "close" THEN
       LET r == T!CloseF(s, e.d) IN
       IF r.res # e.res THEN <<"close-result-" \o r.res \o "-expected-got-" \o e.res, Skip>>
       ELSE IF T!Ids(r.closed) # e.closed THEN <<"close-closed-list", Skip>>
       ELSE IF T!Ids(T!OpenView(r.s)) # e.open THEN <<"close-open-list", Skip>>
       ELSE <<"", [ok |-> TRUE, s |-> r.s, lp |-> NoLast]>>
  ELSE IF e.op = "open" THEN
       IF T!Ids(T!OpenView(s)) # e.open THEN <<"open-list", Skip>> ELSE <<"", [ok |-> TRUE, s |-> s, lp |-> NoLast]>>
  ELSE <<"harness-unknown-op", Skip>>
Init == l = 1 /\ st = Fresh
Next == /\ l <= Len(Trace) /\ l' = l + 1
        /\ LET e == Trace[l]
               cur == IF e.first THEN Fresh ELSE st IN
           IF ~cur.ok THEN st' = Skip
           ELSE LET r == Step(cur.s, e, cur.lp) IN Report(l, r[1]) /\ st' = r[2]
=============================================================================
