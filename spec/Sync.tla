-------------------------------- MODULE Sync --------------------------------
(***************************************************************************)
(* Sync search (packet/io.go, property C16).                               *)
(*  Declarative part: First(s) is the least 0-based offset i such that     *)
(*  s[i] is the sync byte, the four header bytes s[i..i+3] exist, the      *)
(*  adaptation_field_control is not the reserved 00 and the PID is not in  *)
(*  the reserved range 0x0004-0x000F.                                      *)
(*  Algorithmic part: the read-byte / unread / peek(4) loop an             *)
(*  implementation over a PeekScanner runs, as a state machine             *)
(*  (variables pos, off, pc, res).  MC_C16 checks that the loop refines    *)
(*  First on all streams over a small alphabet: it terminates with         *)
(*  off = First(s) and the reader positioned on that byte, or with         *)
(*  not-found exactly when First(s) does not exist.                        *)
(***************************************************************************)
EXTENDS Naturals, Sequences

SyncByte == 71
Afc(b3) == (b3 \div 16) % 4
Pid(b1, b2) == ((b1 % 32) * 256) + b2
\* s is 1-based; offset i is 0-based
Plausible(s, i) == /\ i + 4 <= Len(s)
                   /\ s[i + 1] = SyncByte
                   /\ Afc(s[i + 4]) # 0
                   /\ ~(Pid(s[i + 2], s[i + 3]) \in 4..15)
Candidates(s) == { i \in 0..Len(s) : Plausible(s, i) }
Found(s) == Candidates(s) # {}
First(s) == CHOOSE i \in Candidates(s) : \A j \in Candidates(s) : i <= j
\* what the caller can read after a successful search
Rest(s) == SubSeq(s, First(s) + 1, Len(s))

(***************************************************************************)
(* Streams with a very long gap: pre, then the byte fill (not the sync     *)
(* byte) n >= 3 times, then suf.  No header can begin inside the gap, and  *)
(* a header beginning in pre sees at most three gap bytes, so the search   *)
(* on the stream is decided by the same stream with a gap of three bytes:  *)
(* GapLemma (checked by TLC on all small instances, MC_C16gap) lets the    *)
(* trace validation judge gaps of millions of bytes without building them. *)
(***************************************************************************)
Gap(fill, n) == [i \in 1..n |-> fill]
GapStream(pre, fill, n, suf) == pre \o Gap(fill, n) \o suf
GapShort(pre, fill, suf) == GapStream(pre, fill, 3, suf)
GapFound(pre, fill, suf) == Found(GapShort(pre, fill, suf))
GapFirst(pre, fill, n, suf) == LET f == First(GapShort(pre, fill, suf)) IN IF f < Len(pre) THEN f ELSE f + (n - 3)
GapLemma(pre, fill, n, suf) ==
  LET full == GapStream(pre, fill, n, suf) IN
  /\ Found(full) = GapFound(pre, fill, suf)
  /\ Found(full) => First(full) = GapFirst(pre, fill, n, suf)
  /\ (Found(full) /\ First(full) >= Len(pre)) => Rest(full) = Rest(GapShort(pre, fill, suf))

(************************* the loop as a state machine *********************)
VARIABLES Stream,        \* the byte stream being searched (never changed by the search)
          pos,           \* reader position: number of bytes consumed
          off,           \* offset counter kept by the search
          pc,            \* "read", "peek", "skip", "done"
          res            \* "", "found", "notfound"
vars == <<Stream, pos, off, pc, res>>

AlgInit == pos = 0 /\ off = 0 /\ pc = "read" /\ res = ""

\* ReadByte: EOF ends the search; a non-sync byte is skipped and counted
ReadStep == /\ pc = "read"
            /\ IF pos >= Len(Stream)
               THEN pc' = "done" /\ res' = "notfound" /\ UNCHANGED <<pos, off>>
               ELSE IF Stream[pos + 1] # SyncByte
                    THEN pos' = pos + 1 /\ off' = off + 1 /\ UNCHANGED <<pc, res>>
                    ELSE \* sync byte read, then unread: position unchanged
                         pc' = "peek" /\ UNCHANGED <<pos, off, res>>
\* Peek(4) on the candidate
PeekStep == /\ pc = "peek"
            /\ IF pos + 4 > Len(Stream)
               THEN pc' = "done" /\ res' = "notfound" /\ UNCHANGED <<pos, off>>     \* peek hits EOF
               ELSE IF Plausible(Stream, pos)
                    THEN pc' = "done" /\ res' = "found" /\ UNCHANGED <<pos, off>>
                    ELSE pc' = "skip" /\ UNCHANGED <<pos, off, res>>
\* consume the false sync byte - and count it
SkipStep == /\ pc = "skip"
            /\ pos' = pos + 1 /\ off' = off + 1 /\ pc' = "read" /\ UNCHANGED res
AlgNext == (ReadStep \/ PeekStep \/ SkipStep) /\ UNCHANGED Stream
AlgSpec == AlgInit /\ [][AlgNext]_vars

\* refinement of the declarative definition
Refines == pc = "done" =>
             /\ (res = "found") = Found(Stream)
             /\ res = "found" => (off = First(Stream) /\ pos = First(Stream))
OffsetTracksPosition == off = pos
=============================================================================
