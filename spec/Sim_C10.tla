------------------------------ MODULE Sim_C10 ------------------------------
(***************************************************************************)
(* B2 for C10: TLC simulates behaviours of the tracker specification       *)
(* (MC_C10's state machine, deeper than the exhaustive run) and prints     *)
(* each complete behaviour with the expected result of every call: error   *)
(* class, ids returned closed, ids listed by Open().  The harness replays  *)
(* the same calls on a real scte35.State and compares after each step.     *)
(*   tlc -simulate num=N -depth D Sim_C10                                  *)
(***************************************************************************)
EXTENDS MC_C10, Json
VARIABLE hist
simvars == <<s, n, processed, gone, last, hist>>
Lite(d) == [id |-> d.id, type |-> d.type, eid |-> d.eid, haspts |-> d.haspts, pts |-> d.pts, segnum |-> d.segnum, segexp |-> d.segexp, vss |-> d.vss]
SimInit == Init /\ hist = <<>>
SimNext == /\ n < Depth
           /\ \E d \in Alphabet :
                \/ /\ DoProcess(d)
                   /\ LET r == ProcessF(s, d) IN
                      hist' = Append(hist, [op |-> "process", d |-> Lite(d), res |-> r.res, closed |-> Ids(r.closed), open |-> Ids(OpenView(r.s))])
                \/ /\ DoClose(d)
                   /\ LET r == CloseF(s, d) IN
                      hist' = Append(hist, [op |-> "close", d |-> Lite(d), res |-> r.res, closed |-> Ids(r.closed), open |-> Ids(OpenView(r.s))])
SimSpec == SimInit /\ [][SimNext]_simvars
Emit == n = Depth => PrintT("TAB " \o ToJson([steps |-> hist]))
=============================================================================
