------------------------------- MODULE Bits -------------------------------
(***************************************************************************)
(* Bit- and byte-level vocabulary shared by every format module.           *)
(* A "byte" is a natural 0..255, a "bit" 0..1.  Bit sequences are written  *)
(* most significant bit first, exactly as the syntax tables of ISO/IEC     *)
(* 13818-1 and SCTE 35 list fields ("bslbf"/"uimsbf"), so a format is the  *)
(* concatenation of its fields' bit strings.                               *)
(* TLC integers are 32-bit signed: nothing here exceeds 2^31-1; values     *)
(* wider than 31 bits live in module Wide.                                 *)
(***************************************************************************)
EXTENDS Naturals, Sequences, FiniteSets

Byte == 0..255
Bit  == 0..1

Pow2(n) == 2^n     \* n <= 30

Min(a, b) == IF a <= b THEN a ELSE b
Max(a, b) == IF a >= b THEN a ELSE b

\* bit k (0 = least significant) of natural x
BitOf(x, k) == (x \div Pow2(k)) % 2

\* the w-bit big-endian bit string of natural x (x < 2^w, w <= 30)
ToBits(x, w) == [i \in 1..w |-> BitOf(x, w - i)]

\* value of a big-endian bit string of length <= 30
RECURSIVE FromBitsAcc(_, _, _)
FromBitsAcc(b, i, acc) == IF i > Len(b) THEN acc ELSE FromBitsAcc(b, i + 1, 2 * acc + b[i])
FromBits(b) == FromBitsAcc(b, 1, 0)

BoolBit(x) == IF x THEN 1 ELSE 0

\* flatten a sequence of sequences
RECURSIVE FlattenAcc(_, _, _)
FlattenAcc(ss, i, acc) == IF i > Len(ss) THEN acc ELSE FlattenAcc(ss, i + 1, acc \o ss[i])
Flatten(ss) == FlattenAcc(ss, 1, <<>>)

\* bytes -> bits and back (Len(bits) a multiple of 8).  The per-byte table is a
\* constant TLC evaluates once; concatenation yields concrete tuples (fast to index).
ByteBitsTab == [x \in 0..255 |-> <<(x \div 128) % 2, (x \div 64) % 2, (x \div 32) % 2, (x \div 16) % 2,
                                    (x \div 8) % 2, (x \div 4) % 2, (x \div 2) % 2, x % 2>>]
RECURSIVE BytesToBitsAcc(_, _, _)
BytesToBitsAcc(bs, i, acc) == IF i > Len(bs) THEN acc ELSE BytesToBitsAcc(bs, i + 1, acc \o ByteBitsTab[bs[i]])
BytesToBits(bs) == BytesToBitsAcc(bs, 1, <<>>)
RECURSIVE BitsToBytesAcc(_, _, _)
BitsToBytesAcc(b, j, acc) ==
  IF 8 * j > Len(b) THEN acc
  ELSE BitsToBytesAcc(b, j + 1, Append(acc, b[8*j-7]*128 + b[8*j-6]*64 + b[8*j-5]*32 + b[8*j-4]*16
                                           + b[8*j-3]*8 + b[8*j-2]*4 + b[8*j-1]*2 + b[8*j]))
BitsToBytes(b)  == BitsToBytesAcc(b, 1, <<>>)

Ones(n)  == [i \in 1..n |-> 1]
Zeros(n) == [i \in 1..n |-> 0]
Rep(x, n) == [i \in 1..n |-> x]

\* sub-sequence helpers that are total (empty when out of range)
Take(s, n) == SubSeq(s, 1, Min(n, Len(s)))
Drop(s, n) == SubSeq(s, n + 1, Len(s))
Slice(s, from, to) == SubSeq(s, from, to)      \* 1-based inclusive

\* bitwise helpers on bytes
AndByte(x, m) == FromBits([i \in 1..8 |-> BitOf(x, 8 - i) * BitOf(m, 8 - i)])
OrByte(x, m)  == FromBits([i \in 1..8 |-> Max(BitOf(x, 8 - i), BitOf(m, 8 - i))])

\* 16-bit big-endian
U16(hi, lo) == hi * 256 + lo

IsByteSeq(s) == \A i \in 1..Len(s) : s[i] \in Byte
=============================================================================
