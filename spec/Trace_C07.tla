----------------------------- MODULE Trace_C07 -----------------------------
(* Trace validation for C07: NewPAT / ReadPAT / IsPMT against Pat, for the three carriers *)
EXTENDS TraceBase, Pat, TsHeader
Abs(e) == [tsid |-> e.abs.tsid, version |-> e.abs.version, cni |-> e.abs.cni, entries |-> e.abs.entries]
IsPatPayload(b, pat) == LET s == PatSection(pat) IN
   /\ Len(b) >= 1 + Len(s) /\ SubSeq(b, 1, 1 + Len(s)) = <<0>> \o s
   /\ \A i \in (2 + Len(s))..Len(b) : b[i] = 255
PayloadOf(p) == IF Get("afc", p) = 1 THEN SubSeq(p, 5, 188) ELSE SubSeq(p, 6 + p[5], 188)
PatPkts(st) == { i \in 1..Len(st) : Get("pid", st[i]) = 0 }
FirstPatIdx(st) == CHOOSE i \in PatPkts(st) : \A j \in PatPkts(st) : i <= j
Observed(e, pat) ==
  IF e.err # "nil" THEN "wellformed-pat-rejected"
  ELSE IF e.nump # NumPrograms(pat) THEN "num-programs"
  ELSE IF Len(e.pmap) # Len(ProgramMap(pat)) \/ { e.pmap[i] : i \in 1..Len(e.pmap) } # { ProgramMap(pat)[i] : i \in 1..Len(ProgramMap(pat)) } THEN "program-map"
  ELSE IF e.spts_ok # SptsDefined(pat) THEN "spts-defined"
  ELSE IF e.spts_ok /\ e.spts # SptsPid(pat) THEN "spts-pid"
  ELSE ""
PatVerdict(e) ==
  LET pat == Abs(e) IN
  IF ~WFPat(pat) THEN "harness-bad-abs"
  ELSE IF e.carrier = "payload" THEN
       IF ~IsPatPayload(e.bytes, pat) \/ Len(e.bytes) = 188 \/ Len(e.bytes) < 13 THEN "harness-bad-bytes" ELSE Observed(e, pat)
  ELSE IF e.carrier = "packet" THEN
       IF Len(e.bytes) # 188 \/ Get("pid", e.bytes) # 0 \/ ~HasPayload(e.bytes) \/ ~IsPatPayload(PayloadOf(e.bytes), pat) THEN "harness-bad-bytes"
       ELSE Observed(e, pat)
  ELSE IF e.carrier = "stream" THEN
       \* (e.lead_n copies of the packet e.lead of another PID come first: they do not change which PID-0 packet is the first)
       IF e.lead_n > 0 /\ (Len(e.lead) # 188 \/ Get("pid", e.lead) = 0) THEN "harness-bad-lead"
       ELSE IF e.skip > Len(e.stream) THEN "harness-bad-skip"
       \* (the first e.skip packets were consumed by the caller before the reader was handed over: the stream is what is left)
       ELSE LET rest == SubSeq(e.stream, e.skip + 1, Len(e.stream)) IN
       IF PatPkts(rest) = {} THEN (IF e.err # "notfound" THEN "pat-not-found-error" ELSE "")
       ELSE LET p == rest[FirstPatIdx(rest)] IN
            IF ~HasPayload(p) \/ ~IsPatPayload(PayloadOf(p), pat) THEN "harness-bad-bytes" ELSE Observed(e, pat)
  ELSE "harness-unknown-carrier"
IsPmtVerdict(e) ==
  LET pat == Abs(e) IN
  IF ~(IF e.dup THEN Encodable(pat) ELSE WFPat(pat)) \/ ~IsPatPayload(e.bytes, pat) THEN "harness-bad-bytes"
  ELSE IF e.true_pids # e.map_pids THEN "is-pmt-differs-from-the-values-of-the-reported-map"
  ELSE IF ~e.dup /\ { e.true_pids[i] : i \in 1..Len(e.true_pids) } # MapPids(pat) THEN "is-pmt-classification"
  ELSE IF e.any_err THEN "is-pmt-error"
  ELSE IF ~e.nil_err THEN "nil-pat-not-an-error"
  ELSE ""
Verdict(e) == IF e.panic # "" THEN "panic"
  ELSE IF ~e.earlier_same THEN "object-returned-earlier-reads-differently-after-a-later-call"
              ELSE IF e.op = "pat" THEN PatVerdict(e)
              ELSE IF e.op = "ispmt" THEN IsPmtVerdict(e)
              ELSE "harness-unknown-op"
Init == l = 1
Next == /\ l <= Len(Trace) /\ l' = l + 1
        /\ Report(l, Verdict(Trace[l]))
=============================================================================
