------------------------------- MODULE MC_C16 -------------------------------
(* all streams of length <= MaxLen over alphabet A: the search loop refines First *)
EXTENDS Naturals, Sequences, TLC
CONSTANTS A, MaxLen
VARIABLES stream, pos, off, pc, res, building
S == INSTANCE Sync WITH Stream <- stream
vars == <<stream, pos, off, pc, res, building>>
Init == stream = <<>> /\ building = TRUE /\ S!AlgInit
\* phase 1 builds an arbitrary stream, phase 2 runs the loop on it
Build == /\ building
         /\ \/ (Len(stream) < MaxLen /\ \E x \in A : stream' = Append(stream, x) /\ UNCHANGED <<pos, off, pc, res, building>>)
            \/ (building' = FALSE /\ UNCHANGED <<stream, pos, off, pc, res>>)
Run == ~building /\ S!AlgNext /\ UNCHANGED building
Next == Build \/ Run
Spec == Init /\ [][Next]_vars
Refines == ~building => S!Refines
Tracks == S!OffsetTracksPosition
\* a reader left on a header is synced: searching again from there finds it at offset 0
R == INSTANCE Sync WITH Stream <- S!Rest(stream)
Idempotent == S!Found(stream) => (R!Found(S!Rest(stream)) /\ R!First(S!Rest(stream)) = 0)
\* every run terminates: in a terminal (deadlocked) state the search has finished
Terminates == (~building /\ ~ENABLED Run) => pc = "done"
=============================================================================
