------------------------------ MODULE TsHeader ------------------------------
(***************************************************************************)
(* The 4-byte transport packet header of ISO/IEC 13818-1 section 2.4.3.2   *)
(* (Table 2-2), as a list of bit fields in transmission order:             *)
(*   sync_byte 8 | transport_error_indicator 1 | payload_unit_start 1 |    *)
(*   transport_priority 1 | PID 13 | transport_scrambling_control 2 |      *)
(*   adaptation_field_control 2 | continuity_counter 4                     *)
(* A packet is a sequence of PacketSize bytes (188 on the wire; model      *)
(* checking uses smaller packets).  Get/Set are defined on the bit string, *)
(* not with masks and shifts, so they are independent of the Go code.      *)
(***************************************************************************)
EXTENDS Bits

\* field name -> <<bit offset in the 32-bit header, width>>
Field == [ sync |-> <<0, 8>>, tei |-> <<8, 1>>, pusi |-> <<9, 1>>, tp |-> <<10, 1>>,
           pid |-> <<11, 13>>, tsc |-> <<24, 2>>, afc |-> <<26, 2>>, cc |-> <<28, 4>> ]
FieldNames == DOMAIN Field
SettableFields == {"tei", "pusi", "tp", "pid", "tsc", "cc"}
FieldRange(f) == 0..(Pow2(Field[f][2]) - 1)

HeaderBits(p) == BytesToBits(SubSeq(p, 1, 4))

Get(f, p) == LET o == Field[f][1]  w == Field[f][2] IN FromBits(SubSeq(HeaderBits(p), o + 1, o + w))

\* the packet equal to p except that field f holds v
Set(f, p, v) ==
  LET o == Field[f][1]  w == Field[f][2]  hb == HeaderBits(p)
      nb == SubSeq(hb, 1, o) \o ToBits(v, w) \o SubSeq(hb, o + w + 1, 32)
  IN  BitsToBytes(nb) \o SubSeq(p, 5, Len(p))

\* derived classifications
NullPid == 8191
IsNull(p) == Get("pid", p) = NullPid
IsPat(p)  == Get("pid", p) = 0
HasPayload(p) == Get("afc", p) \in {1, 3}
HasAF(p)      == Get("afc", p) \in {2, 3}

\* packet validation: error exactly for a bad sync byte, reserved TSC 01, reserved AFC 00
Valid(p) == Get("sync", p) = 71 /\ Get("tsc", p) # 1 /\ Get("afc", p) # 0

\* continuity counter helpers (pure: they return a new packet)
IncCC(p)     == Set("cc", p, (Get("cc", p) + 1) % 16)
ZeroCC(p)    == Set("cc", p, 0)
SetCC(p, n)  == Set("cc", p, n)
=============================================================================
