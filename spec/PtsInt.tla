------------------------------- MODULE PtsInt -------------------------------
(* PtsCore over native integers; constants scaled by MC cfg or real (Apalache) *)
EXTENDS Integers
CONSTANTS
  \* @type: Int;
  MM,
  \* @type: Int;
  LL
ILT(a, b) == a < b
IADD(a, b) == a + b
ISUB(a, b) == a - b
P == INSTANCE PtsCore WITH M <- MM, L <- LL, U <- MM - 1 - LL, Z <- 0,
                           LT <- ILT, ADD <- IADD, SUB <- ISUB
=============================================================================
