CONSTANTS PS = 4 MaxBytes = 9 MaxChunk = 5 MaxFail = 3
SPECIFICATION Spec
INVARIANTS Emit Refines
CHECK_DEADLOCK FALSE
