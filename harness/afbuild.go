package main

import (
	"math/rand"

	"github.com/Comcast/gots/v2/packet"
)

// Abstract adaptation field used by the generators of C02 / C03 (inputs only:
// TLC re-parses every packet and skips events whose `before` is not canonical).
type absAF struct {
	Len                     int
	Disc, Rai, Espi         bool
	HasPCR, HasOPCR, HasSpl bool
	PCR, OPCR               []byte // 6 bytes
	Splice                  byte
	HasTPD, HasAFE          bool
	TPD, AFE                []byte
}

func (a absAF) content() int {
	n := 1
	if a.HasPCR {
		n += 6
	}
	if a.HasOPCR {
		n += 6
	}
	if a.HasSpl {
		n++
	}
	if a.HasTPD {
		n += 1 + len(a.TPD)
	}
	if a.HasAFE {
		n += 1 + len(a.AFE)
	}
	return n
}

// bytes returns the 1+Len bytes of the adaptation field (content must fit).
func (a absAF) bytes() []byte {
	b := []byte{byte(a.Len), 0}
	set := func(bit byte, v bool) {
		if v {
			b[1] |= bit
		}
	}
	set(0x80, a.Disc)
	set(0x40, a.Rai)
	set(0x20, a.Espi)
	set(0x10, a.HasPCR)
	set(0x08, a.HasOPCR)
	set(0x04, a.HasSpl)
	set(0x02, a.HasTPD)
	set(0x01, a.HasAFE)
	if a.HasPCR {
		b = append(b, a.PCR...)
	}
	if a.HasOPCR {
		b = append(b, a.OPCR...)
	}
	if a.HasSpl {
		b = append(b, a.Splice)
	}
	if a.HasTPD {
		b = append(b, byte(len(a.TPD)))
		b = append(b, a.TPD...)
	}
	if a.HasAFE {
		b = append(b, byte(len(a.AFE)))
		b = append(b, a.AFE...)
	}
	for len(b) < a.Len+1 {
		b = append(b, 0xff)
	}
	return b
}

// randAF draws a random adaptation field of length ln whose content fits.
// fullAF: an adaptation field of length ln (>= 4) whose optional fields fill it exactly (no stuffing byte left).
// variant 0: private data to the end; 1: private data, then an EMPTY extension whose length byte is the last byte;
// 2: private data and an extension with data; 3: PCR (if it fits) + extension to the end.
func fullAF(r *rand.Rand, ln, variant int) absAF {
	a := absAF{Len: ln, Rai: r.Intn(2) == 0}
	room := ln - 1
	if variant == 3 && room >= 8 {
		a.HasPCR, a.PCR = true, rndBytes(r, 6)
		room -= 6
	}
	switch variant {
	case 0:
		a.HasTPD, a.TPD = true, rndBytes(r, room-1)
	case 1:
		a.HasTPD, a.TPD = true, rndBytes(r, room-2)
		a.HasAFE, a.AFE = true, []byte{}
	case 2:
		n := (room - 2) / 2
		a.HasTPD, a.TPD = true, rndBytes(r, n)
		a.HasAFE, a.AFE = true, rndBytes(r, room-2-n)
	default:
		a.HasAFE, a.AFE = true, rndBytes(r, room-1)
	}
	return a
}

func randAF(r *rand.Rand, ln int) absAF {
	a := absAF{Len: ln, Disc: r.Intn(2) == 0, Rai: r.Intn(2) == 0, Espi: r.Intn(2) == 0}
	room := ln - 1
	six := func() []byte { b := make([]byte, 6); r.Read(b); return b }
	if room >= 6 && r.Intn(2) == 0 {
		a.HasPCR, a.PCR = true, six()
		room -= 6
	}
	if room >= 6 && r.Intn(3) == 0 {
		a.HasOPCR, a.OPCR = true, six()
		room -= 6
	}
	if room >= 1 && r.Intn(3) == 0 {
		a.HasSpl, a.Splice = true, byte(r.Intn(256))
		room--
	}
	if room >= 1 && r.Intn(2) == 0 {
		n := 0
		if room > 1 {
			switch r.Intn(4) {
			case 0:
				n = room - 1 // fill to capacity
			case 1:
				n = r.Intn(room)
			case 2:
				n = r.Intn(3)
			}
			if n > room-1 {
				n = room - 1
			}
		}
		a.HasTPD, a.TPD = true, make([]byte, n)
		r.Read(a.TPD)
		room -= 1 + n
	}
	if room >= 1 && r.Intn(3) == 0 {
		n := 0
		if room > 1 {
			n = r.Intn(room)
			if r.Intn(3) == 0 {
				n = room - 1
			}
		}
		a.HasAFE, a.AFE = true, make([]byte, n)
		r.Read(a.AFE)
		room -= 1 + n
	}
	return a
}

// pktWithAF builds a packet with the given adaptation field; hasPayload selects AFC 11 or 10.
func pktWithAF(r *rand.Rand, a absAF, hasPayload bool) packet.Packet {
	var p packet.Packet
	r.Read(p[:])
	p[0] = 0x47
	// transport_scrambling_control stays as drawn (00, 10 or 11; the reserved 01 becomes 00)
	tsc := p[3] & 0xc0
	if tsc == 0x40 {
		tsc = 0
	}
	p[3] = p[3]&0x0f | 0x20 | tsc
	if hasPayload {
		p[3] |= 0x10
	}
	copy(p[4:], a.bytes())
	return p
}
