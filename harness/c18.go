package main

import (
	"bufio"
	"bytes"
	"context"
	"errors"
	"fmt"
	"io"
	"math/rand"
	"os"
	"syscall"

	gots "github.com/Comcast/gots/v2"
	"github.com/Comcast/gots/v2/packet"
)

// C18: io.Writer / io.ReaderFrom adapters over a PacketWriter.
type c18 struct{}

func init() { register("C18", c18{}) }

var errW = errors.New("packet write failed (harness sentinel)")
var errR = errors.New("reader failed (harness sentinel)")

// recWriter records (a copy of) every packet it is given; the failAt-th call fails.
type recWriter struct {
	calls    [][]byte
	failAt   int
	closed   bool
	failWith error // what the failing call returns (errW when nil)
	failN    int   // ... and the count it reports with the error (a sink that took the packet and failed to flush it reports 188)
}

// c18WFails: error values a failing packet writer may return (a writer may fail with io.EOF too: that is the
// writer's failure, not an end of the input); disjoint from the reader's values so that the result names its origin
var c18WFails = map[string]error{"sentinel": errW, "eof": io.EOF, "epipe": syscall.EPIPE, "enospc": syscall.ENOSPC,
	"closed": os.ErrClosed, "permission": os.ErrPermission}
var c18WFailKinds = []string{"sentinel", "eof", "epipe", "enospc", "closed", "permission"}

func c18WFail(kind string) error {
	if v, ok := c18WFails[kind]; ok {
		return v
	}
	return errW
}

func (w *recWriter) WritePacket(p *packet.Packet) (int, error) {
	w.calls = append(w.calls, append([]byte(nil), p[:]...))
	if w.failAt != 0 && len(w.calls) == w.failAt {
		if w.failWith != nil {
			return w.failN, w.failWith
		}
		return w.failN, errW
	}
	return packet.PacketSize, nil
}
func (w *recWriter) Close() error { w.closed = true; return nil }

// scriptReader returns a scripted sequence of (data, err) results, then (0, EOF).
type scriptReader struct {
	steps []struct {
		data []byte
		err  string
	}
	i         int
	zeroReads bool
	failWith  error // what a "fail" step returns (errR when nil)
}

// c18Fails: error values a failing reader may return as "its own error": the harness sentinel and the values
// readers of the standard library fail with (a truncated gzip stream or cut-off body fails with
// io.ErrUnexpectedEOF, which is not an end of stream).
var c18Fails = map[string]error{"sentinel": errR, "unexpectedeof": io.ErrUnexpectedEOF, "closedpipe": io.ErrClosedPipe,
	"noprogress": io.ErrNoProgress, "shortbuffer": io.ErrShortBuffer, "shortwrite": io.ErrShortWrite,
	"deadline": os.ErrDeadlineExceeded, "invalid": os.ErrInvalid, "canceled": context.Canceled, "econnreset": syscall.ECONNRESET}
var c18FailKinds = []string{"sentinel", "unexpectedeof", "closedpipe", "noprogress", "shortbuffer", "shortwrite", "deadline", "invalid", "canceled", "econnreset"}

func c18Fail(kind string) error {
	if v, ok := c18Fails[kind]; ok {
		return v
	}
	return errR
}

func (s *scriptReader) Read(p []byte) (int, error) {
	for {
		if s.i >= len(s.steps) {
			return 0, io.EOF
		}
		st := &s.steps[s.i]
		n := copy(p, st.data)
		st.data = st.data[n:]
		if len(st.data) > 0 {
			return n, nil // caller's buffer was smaller than the chunk: the rest comes next, the error with it
		}
		s.i++
		switch st.err {
		case "eof":
			s.i = len(s.steps)
			return n, io.EOF
		case "fail":
			s.i = len(s.steps)
			if s.failWith != nil {
				return n, s.failWith
			}
			return n, errR
		}
		if n > 0 || s.zeroReads {
			return n, nil // with zeroReads an empty chunk is a real (0, nil) read (allowed, if discouraged, by io.Reader)
		}
		// empty chunk without error: skip
	}
}

// richWriter is a packet writer that also has io.Writer / io.ReaderFrom methods of its own (a sink that embeds a
// buffer or a file has them): the adapters must still deliver packet by packet through WritePacket; bytes that reach
// these methods instead are counted as raw deliveries.
type richWriter struct {
	*recWriter
	raw int
}

func (w *richWriter) Write(p []byte) (int, error) { w.raw += len(p) + 1; return len(p), nil }
func (w *richWriter) ReadFrom(r io.Reader) (int64, error) {
	n, err := io.Copy(io.Discard, r)
	w.raw += int(n) + 1
	return n, err
}

var c18Rich *richWriter // the rich writer of the adapter made last (nil for the plain kinds)

func c18Adapter(kind string, w *recWriter) (io.Writer, io.ReaderFrom) {
	c18Rich = nil
	switch kind {
	case "IOWriter+rich":
		c18Rich = &richWriter{recWriter: w}
		a := packet.IOWriter(c18Rich)
		return a, a.(io.ReaderFrom)
	case "IOWriteCloser+rich":
		c18Rich = &richWriter{recWriter: w}
		a := packet.IOWriteCloser(c18Rich)
		return a, a.(io.ReaderFrom)
	case "IOWriter":
		a := packet.IOWriter(w)
		return a, a.(io.ReaderFrom)
	case "IOWriteCloser":
		a := packet.IOWriteCloser(w)
		return a, a.(io.ReaderFrom)
	case "Func":
		a := packet.IOWriter(packet.PacketWriterFunc(w.WritePacket))
		return a, a.(io.ReaderFrom)
	default: // NopCloser
		a := packet.IOWriteCloser(packet.NopCloser(w))
		return a, a.(io.ReaderFrom)
	}
}

var c18Adapters = []string{"IOWriter", "IOWriteCloser", "Func", "NopCloser", "IOWriter+rich", "IOWriteCloser+rich"}

func c18Stream(r *rand.Rand, n int) []byte {
	b := make([]byte, n)
	r.Read(b)
	for i := 0; i+188 <= n; i += 188 {
		b[i] = 0x47
		b[i+3] = 0x10 | byte(i/188)&0x0f
	}
	return b
}

func (c18) Gen(tier string, seed int64, emit func([]Ev)) {
	r := rand.New(rand.NewSource(seed))
	n := 500
	if tier == "thorough" {
		n = 60000
	}
	for i := 0; i < n; i++ {
		ad := c18Adapters[r.Intn(len(c18Adapters))]
		npk := r.Intn(5)
		extra := 0
		if r.Intn(3) == 0 {
			extra = []int{1, 2, 94, 187, 100}[r.Intn(5)]
		}
		failAt := 0
		if r.Intn(3) == 0 {
			failAt = 1 + r.Intn(5)
		}
		data := c18Stream(r, npk*188+extra)
		if i%2 == 0 {
			emit([]Ev{{"op": "write", "adapter": ad, "data": B(data), "fail_at": failAt, "wfail_kind": c18WFailKinds[r.Intn(2)*r.Intn(len(c18WFailKinds))], "wfail_n": []int{0, 0, 57, 188}[r.Intn(4)]}})
			continue
		}
		// a fragmentation of data into reader results
		script := []Ev{}
		mode := r.Intn(6)
		rest := data
		for len(rest) > 0 {
			var k int
			switch mode {
			case 0:
				k = 188
			case 1:
				k = 1 + r.Intn(3)
			case 2:
				k = 1 + r.Intn(400)
			case 3:
				k = []int{187, 189, 94, 376, 1}[r.Intn(5)]
			case 4:
				k = 1
			default:
				k = 1 + r.Intn(188)
			}
			if k > len(rest) {
				k = len(rest)
			}
			script = append(script, Ev{"data": B(rest[:k]), "err": "nil"})
			rest = rest[k:]
		}
		switch r.Intn(5) {
		case 0: // data returned together with EOF
			if len(script) > 0 {
				script[len(script)-1]["err"] = "eof"
			}
		case 1: // reader fails at a random result (with its data)
			if len(script) > 0 {
				k := r.Intn(len(script))
				script[k]["err"] = "fail"
				script = script[:k+1]
			}
		case 2: // reader fails without data after everything
			script = append(script, Ev{"data": []int{}, "err": "fail"})
		}
		via := "direct"
		if r.Intn(4) == 0 {
			via = "bufio"
		}
		zero := false
		if r.Intn(6) == 0 {
			// reads that return no data and no error, sprinkled between the others (never more than three in a
			// row, but many over the whole stream)
			zero, via = true, "direct"
			sc := []Ev{}
			total := 0
			for _, st := range script {
				for k := r.Intn(4); k > 0; k-- {
					sc = append(sc, Ev{"data": []int{}, "err": "nil"})
					total++
				}
				sc = append(sc, st)
			}
			for total < 160 && len(script) > 0 { // make it many: prepend one more before every step, round robin
				var sc2 []Ev
				for _, st := range sc {
					if len(GB(st["data"])) > 0 && total < 160 {
						sc2 = append(sc2, Ev{"data": []int{}, "err": "nil"})
						total++
					}
					sc2 = append(sc2, st)
				}
				if len(sc2) == len(sc) {
					break
				}
				sc = sc2
			}
			script = sc
		}
		kind := "sentinel"
		if r.Intn(2) == 0 {
			kind = c18FailKinds[r.Intn(len(c18FailKinds))]
		}
		usedBefore := 0
		if failAt != 1 && r.Intn(4) == 0 {
			usedBefore = 1 + r.Intn(187)
		}
		emit([]Ev{{"op": "readfrom", "adapter": ad, "script": script, "fail_at": failAt, "via": via, "zero_reads": zero, "fail_kind": kind, "wfail_kind": c18WFailKinds[r.Intn(2)*r.Intn(len(c18WFailKinds))], "wfail_n": []int{0, 0, 57, 188}[r.Intn(4)], "used_before": usedBefore}})
	}
	// long streams (hundreds of packets, more than any internal buffer of 64 KiB) handed over in large and uneven pieces
	nlong := 6
	if tier == "thorough" {
		nlong = 40
	}
	for i := 0; i < nlong; i++ {
		npk := []int{349, 400, 700, 1100}[r.Intn(4)]
		data := c18Stream(r, npk*188+[]int{0, 0, 0, 57}[r.Intn(4)])
		var sizes []int
		switch i % 6 {
		case 0:
			sizes = []int{65400, 1000}
		case 1:
			sizes = []int{65536 - 100, 3000}
		case 2:
			sizes = []int{4096}
		case 3:
			sizes = []int{65535, 1, 65537, 7}
		case 4:
			sizes = []int{32769, 32767, 5}
		}
		script := []Ev{}
		rest := data
		for k := 0; len(rest) > 0; k++ {
			n := 1 + r.Intn(70000)
			if len(sizes) > 0 {
				n = sizes[minInt(k, len(sizes)-1)]
				if k >= len(sizes) && len(sizes) > 2 {
					n = sizes[k%len(sizes)]
				}
			}
			if n > len(rest) {
				n = len(rest)
			}
			script = append(script, Ev{"data": B(rest[:n]), "err": "nil"})
			rest = rest[n:]
		}
		failAt := 0
		if i%4 == 3 {
			failAt = []int{348, 349, 350, 1}[r.Intn(4)]
		}
		ad := c18Adapters[i%len(c18Adapters)]
		emit([]Ev{{"op": "readfrom", "adapter": ad, "script": script, "fail_at": failAt, "via": "direct", "zero_reads": false, "fail_kind": "sentinel", "wfail_kind": "sentinel", "wfail_n": 0}})
		if i%3 == 0 {
			emit([]Ev{{"op": "write", "adapter": ad, "data": B(data[:npk*188]), "fail_at": failAt, "wfail_kind": "sentinel", "wfail_n": 0}})
		}
	}
}

func c18Err(err error, fail ...error) string {
	if len(fail) > 0 && err != nil && err == fail[0] {
		return "reader"
	}
	if len(fail) > 1 && err != nil && err == fail[1] {
		return "writer"
	}
	switch err {
	case nil:
		return "nil"
	case gots.ErrInvalidPacketLength:
		return "invalidlength"
	case errW:
		return "writer"
	case errR:
		return "reader"
	}
	return "other:" + err.Error()
}

func (c18) Exec(h []Ev) []Ev {
	for _, e := range h {
		w := &recWriter{failAt: GI(e["fail_at"]), failWith: c18WFail(GS(e["wfail_kind"])), failN: GI0(e["wfail_n"])}
		e["wfail_n"] = w.failN
		wr, rf := c18Adapter(GS(e["adapter"]), w)
		rich := c18Rich
		e["raw"] = 0
		e["panic"] = guard(func() {
			switch GS(e["op"]) {
			case "write":
				data := GB(e["data"])
				keep := append([]byte(nil), data...)
				n, err := wr.Write(data)
				e["n"], e["err"] = n, c18Err(err, nil, w.failWith)
				e["data_same"] = bytes.Equal(data, keep)
			case "readfrom":
				if k := GI0(e["used_before"]); k > 0 {
					// the adapter was used before: an earlier ReadFrom on it ended with the reader failing k bytes into a packet
					// (and an earlier Write of one packet); every call starts afresh
					pre := &scriptReader{failWith: errR}
					pre.steps = append(pre.steps, struct {
						data []byte
						err  string
					}{bytes.Repeat([]byte{0x33}, 188+k), "fail"})
					rf.ReadFrom(pre)
					w.calls = nil
				}
				sr := &scriptReader{}
				var list []interface{}
				switch t := e["script"].(type) {
				case []Ev:
					for _, x := range t {
						list = append(list, x)
					}
				case []interface{}:
					list = t
				}
				for _, x := range list {
					m := asMap(x)
					sr.steps = append(sr.steps, struct {
						data []byte
						err  string
					}{GB(m["data"]), GS(m["err"])})
				}
				sr.zeroReads, _ = e["zero_reads"].(bool)
				sr.failWith = c18Fail(GS(e["fail_kind"]))
				var rd io.Reader = sr
				if GS(e["via"]) == "bufio" {
					rd = bufio.NewReaderSize(sr, 64)
				}
				n, err := rf.ReadFrom(rd)
				e["n"], e["err"] = int(n), c18Err(err, sr.failWith, w.failWith)
			}
			e["raw"] = 0
			if rich != nil {
				e["raw"] = rich.raw
			}
			calls := make([][]int, 0, len(w.calls))
			for _, c := range w.calls {
				calls = append(calls, B(c))
			}
			e["calls"] = calls
		})
	}
	return h
}

func (c18) Class(e Ev) string {
	if GS(e["op"]) == "write" {
		return fmt.Sprintf("write/%s/len%%188=%v/%s", GS(e["adapter"]), len(GB(e["data"]))%188 == 0, GS(e["err"]))
	}
	nres := 0
	switch t := e["script"].(type) {
	case []Ev:
		nres = len(t)
	case []interface{}:
		nres = len(t)
	}
	b := "few"
	if nres > 8 {
		b = "many"
	}
	return fmt.Sprintf("readfrom/%s/%s/%s/%s", GS(e["adapter"]), GS(e["via"]), b, GS(e["err"]))
}

// ---- B2: every reader script of the bounded model (Gen_C18, PS = 4) replayed on the real ReadFrom ----

func (c18) Table(rows []Ev, tier string, seed int64, rep *TableReport) {
	const scale = 47 // one abstract byte = 47 real bytes; 4 abstract bytes = one 188-byte packet
	expand := func(v interface{}) []byte {
		var out []byte
		for _, a := range GIs(v) {
			for k := 0; k < scale; k++ {
				out = append(out, byte(a*16+k%16))
			}
		}
		return out
	}
	for ri, row := range rows {
		tick([]Ev{row})
		sr := &scriptReader{failWith: c18Fail(c18FailKinds[(ri/4)%len(c18FailKinds)])}
		for _, x := range toList(row["script"]) {
			m := asMap(x)
			sr.steps = append(sr.steps, struct {
				data []byte
				err  string
			}{expand(m["data"]), GS(m["err"])})
		}
		w := &recWriter{failAt: GI(row["fail_at"]), failWith: c18WFail(c18WFailKinds[(ri/40)%len(c18WFailKinds)]), failN: []int{0, 0, 57, 188}[(ri/7)%4]}
		_, rf := c18Adapter(c18Adapters[ri%len(c18Adapters)], w)
		var n int64
		var err error
		pan := guard(func() { n, err = rf.ReadFrom(sr) })
		var want [][]byte
		for _, c := range toList(row["calls"]) {
			want = append(want, expand(c))
		}
		reason := ""
		switch {
		case pan != "":
			reason = "replay-" + pan
		case len(w.calls) != len(want):
			reason = "replay-delivery-count"
		case c18Err(err, sr.failWith, w.failWith) != GS(row["err"]):
			reason = fmt.Sprintf("replay-result-%s-expected-got-%s", GS(row["err"]), c18Err(err, sr.failWith, w.failWith))
		case int(n) != GI(row["n"])*scale && !(w.failN > 0 && GS(row["err"]) == "writer"): // the count of a failing call that reports bytes is not defined by the property
			reason = "replay-byte-count"
		}
		if reason == "" {
			for i := range want {
				if !bytes.Equal(want[i], w.calls[i]) {
					reason = "replay-delivery-bytes"
				}
			}
		}
		rep.Compared++
		rep.Classes[fmt.Sprintf("replay/%s/results%d", GS(row["err"]), minInt(len(toList(row["script"])), 4))]++
		if reason != "" && len(rep.Mismatches) < 50 {
			rep.Mismatches = append(rep.Mismatches, Ev{"op": "script", "reason": reason, "script": row["script"], "fail_at": row["fail_at"],
				"want_err": row["err"], "got_err": c18Err(err, sr.failWith, w.failWith), "got_n": int(n), "got_calls": len(w.calls)})
		}
	}
	rep.Exhaustive = true
	rep.Note = "every reader script of the bounded model (fragmentations of <= 9 abstract bytes, chunks <= 5, EOF/failure on any result) x failing write position 0..3, abstract byte = 47 real bytes"
	if len(rows) > 0 {
		rep.Samples = []Ev{{"script": rows[len(rows)/2]["script"], "fail_at": rows[len(rows)/2]["fail_at"], "expect": rows[len(rows)/2]["err"]}}
	}
}
