//go:build verif

package main

import (
	"bytes"
	"math/rand"
	"strings"
	"testing"
	"time"
)

// FuzzC05 lets Go's coverage-guided fuzzer choose inputs for the entry-point groups of C05.  It is an input
// generator only: anything it reports (and the corpus it accumulates) is executed again by the monitored
// worker and judged by TLC like every other C05 execution.
func FuzzC05(f *testing.F) {
	for i := range c05Ops {
		f.Add(uint8(i), []byte{}, uint16(0))
		f.Add(uint8(i), []byte{0x47, 0x40, 0x00, 0x30, 0x07, 0x10, 0, 0, 0, 0, 0, 0}, uint16(i))
		f.Add(uint8(i), []byte{0x00, 0xfc, 0x30, 0x11, 0, 0, 0, 0, 0, 0, 0, 0xff, 0xf0, 0, 0, 0, 0, 0x7a, 0x4f, 0xbf, 0xff}, uint16(256))
		f.Add(uint8(i), []byte{0x00, 0x02, 0xb0, 0x12, 0, 1, 0xc1, 0, 0, 0xe1, 0, 0xf0, 0, 0x1b, 0xe1, 1, 0xf0, 0, 1, 2, 3, 4}, uint16(0x100))
		f.Add(uint8(i), []byte{0xa9, 0x02, 0xff, 0x1c}, uint16(3))
		f.Add(uint8(i), []byte{0xdf, 0x06, 'E', 'B', 'P', '0', 0xff, 0x9c}, uint16(3))
		f.Add(uint8(i), []byte{0, 0, 1, 0xe0, 0, 0, 0x84, 0xc0, 0x0a, 0x31, 0, 1, 0, 1, 0x11, 0, 1, 0, 1}, uint16(0))
	}
	// richer seeds: well-formed vectors of the generators (among them a signal with the stream-switch structure and a
	// PMT with descriptors of the tags the library decodes), so that the mutation engine starts inside the formats
	{
		r := rand.New(rand.NewSource(5))
		d := rndSeg(r)
		d.Cancel, d.Dnr, d.UpidType, d.Upid, d.Comps, d.ProgSeg = false, false, 0x0d, nil, nil, true
		d.Mid = []absMid{{Type: 9, Upid: []byte("BLACKOUT:abc")}, {Type: 14, Upid: []byte("comcast:linear:licenserotation")}}
		sg := absSig{TableId: 0xfc, Tier: 0xfff, Cmd: absCmd{Kind: "time", Spec: true, Pts: 12345}, Descs: []absSDesc{d}}
		vss := append([]byte{0}, sg.section()...)
		pm := randPMT(r, 3, true)
		pm.Streams[0].Descs = append(pm.Streams[0].Descs, absDescr{Tag: 5, Body: []byte("DOVI")}, absDescr{Tag: 0xb0, Body: []byte{1, 0, 0x10, 0x29}},
			absDescr{Tag: 10, Body: []byte("eng\x00")}, absDescr{Tag: 14, Body: []byte{0xc0, 0x10, 0x00}}, absDescr{Tag: 0x7f, Body: []byte{0x20, 'e', 'n', 'g', 0x10, 0, 0}})
		pmtv := c06Payload(0, nil, pmtSection(pm), 0)
		for i := range c05Ops {
			f.Add(uint8(i), vss, uint16(i))
			f.Add(uint8(i), pmtv, uint16(i))
		}
	}
	f.Fuzz(func(t *testing.T, opi uint8, in []byte, arg uint16) {
		if len(in) > 2048 {
			in = in[:2048]
		}
		o := c05Ops[int(opi)%len(c05Ops)]
		if o.kind == "packet" {
			var p [188]byte
			copy(p[:], in)
			in = p[:]
		}
		keep := append([]byte(nil), in...)
		done := make(chan string, 1)
		go func() { done <- guard(func() { o.run(in, int(arg)) }) }()
		select {
		case pan := <-done:
			if pan != "" && !strings.HasPrefix(pan, "harness-panic") {
				t.Fatalf("%s: %s", o.name, pan)
			}
			if o.ro && !bytes.Equal(in, keep) {
				t.Fatalf("%s: input modified", o.name)
			}
		case <-time.After(8 * time.Second):
			t.Fatalf("%s: no result within 8 s", o.name)
		}
	})
}

// FuzzC16 / FuzzC12 / FuzzC11: the fuzzer only steers by coverage; the corpus it keeps is replayed as ordinary
// trace events and judged by TLC (Sync is specified on every byte stream; EBP / PES inputs are judged when the
// specification's own parser accepts them as well-formed).
func FuzzC16(f *testing.F) {
	f.Add(uint8(0), []byte{0x47, 0x01, 0x00, 0x10}, uint16(0))
	f.Add(uint8(1), append(bytes.Repeat([]byte{0x46}, 190), 0x47, 0x01, 0x00, 0x10, 1, 2, 3), uint16(0))
	f.Add(uint8(2), []byte{0x47, 0x00, 0x05, 0x10, 0x47, 0x1f, 0xff, 0x00, 0x47, 0x00, 0x20, 0x30}, uint16(0))
	f.Fuzz(func(t *testing.T, sel uint8, in []byte, arg uint16) {
		if len(in) > 1500 {
			in = in[:1500]
		}
		e := Ev{"op": "sync", "stream": B(in), "reader": c16Readers[int(sel)%len(c16Readers)]}
		c16{}.Exec([]Ev{e})
	})
}

func FuzzC12(f *testing.F) {
	f.Add(uint8(0), []byte{0xa9, 0x02, 0xff, 0x1c}, uint16(0))
	f.Add(uint8(0), []byte{0xdf, 0x06, 'E', 'B', 'P', '0', 0xff, 0x9c}, uint16(0))
	f.Add(uint8(0), []byte{0xa9, 0x0b, 0x0e, 0x1d, 0x80, 0, 0, 0, 0x80, 0, 0, 0, 0xee}, uint16(0))
	f.Fuzz(func(t *testing.T, sel uint8, in []byte, arg uint16) {
		if len(in) > 300 {
			in = in[:300]
		}
		e := Ev{"op": "decode", "bytes": B(in)}
		c12{}.Exec([]Ev{e})
	})
}

func FuzzC11(f *testing.F) {
	f.Add(uint8(0), []byte{0, 0, 1, 0xe0, 0, 0, 0x84, 0xc0, 0x0a, 0x31, 0, 1, 0, 1, 0x11, 0, 1, 0, 1, 9, 9}, uint16(0))
	f.Add(uint8(0), []byte{0, 0, 1, 0xbe, 0, 4, 1, 2, 3, 4}, uint16(0))
	f.Add(uint8(0), []byte{0, 0, 1, 0xc0, 0, 0, 0x80, 0x80, 0x05, 0x21, 0, 1, 0, 1}, uint16(0))
	f.Fuzz(func(t *testing.T, sel uint8, in []byte, arg uint16) {
		if len(in) > 400 {
			in = in[:400]
		}
		e := Ev{"op": "pes", "bytes": B(in)}
		c11{}.Exec([]Ev{e})
	})
}

// FuzzC08: the fuzzer's bytes drive the SCTE-35 section generator (byteSrc), so every input is a well-formed
// section (or one of the rejection classes) with a known abstract value; coverage of the real decoder steers the
// choice.  The corpus is replayed through the same generator and judged by TLC (Trace_C08).
func FuzzC08(f *testing.F) {
	for i := 0; i < 25; i++ {
		f.Add(uint8(i), []byte{}, uint16(0))
		f.Add(uint8(i), bytes.Repeat([]byte{0x55, 0xaa, 0x01, 0xfe}, 40), uint16(0))
	}
	f.Fuzz(func(t *testing.T, sel uint8, in []byte, arg uint16) {
		if len(in) > 2048 {
			in = in[:2048]
		}
		s := int(sel) % 25
		if s == 19 {
			s = 0
		}
		e := c08Item(rand.New(&byteSrc{b: in}), s, "quick")
		c08{}.Exec([]Ev{e})
	})
}

// FuzzC09: the fuzzer's bytes drive the history generator of C09 (decode or create, setter calls, encodes); the
// corpus is regenerated and judged by Trace_C09.
func FuzzC09(f *testing.F) {
	for i := 1; i < 12; i++ {
		f.Add(uint8(i), []byte{}, uint16(0))
		f.Add(uint8(i), bytes.Repeat([]byte{0x35, 0xca, 0x01, 0xfe, 0x80}, 60), uint16(0))
	}
	f.Fuzz(func(t *testing.T, sel uint8, in []byte, arg uint16) {
		if len(in) > 4096 {
			in = in[:4096]
		}
		i := int(sel)
		if i%30 == 0 {
			i++
		}
		c09{}.Exec(c09History(rand.New(&byteSrc{b: in}), i, "quick"))
	})
}

// FuzzC06: the fuzzer's bytes drive a generator of program map sections and their carriage; NewPMT and ReadPMT run
// on them; the corpus is regenerated and judged by Trace_C06.
func FuzzC06(f *testing.F) {
	f.Add(uint8(0), []byte{}, uint16(0))
	f.Add(uint8(0), bytes.Repeat([]byte{0x35, 0xca, 0x01, 0xfe, 0x80}, 80), uint16(0))
	f.Add(uint8(0), bytes.Repeat([]byte{0xff, 0x00, 0x7f}, 100), uint16(0))
	f.Fuzz(func(t *testing.T, sel uint8, in []byte, arg uint16) {
		if len(in) > 4096 {
			in = in[:4096]
		}
		c06{}.Exec(c06FuzzHistory(rand.New(&byteSrc{b: in})))
	})
}

// FuzzC03 / FuzzC10 / FuzzC17: the fuzzer's bytes drive the history generators of the stateful properties.
func FuzzC03(f *testing.F) {
	for i := 0; i < 8; i++ {
		f.Add(uint8(i*23), []byte{}, uint16(0))
		f.Add(uint8(i*31), bytes.Repeat([]byte{0x35, 0xca, 0x01, 0xfe, 0x80}, 60), uint16(0))
	}
	f.Fuzz(func(t *testing.T, sel uint8, in []byte, arg uint16) {
		if len(in) > 4096 {
			in = in[:4096]
		}
		r := rand.New(&byteSrc{b: in})
		ln := 1 + (int(sel)*7+r.Intn(183))%183
		c03{}.Exec(c03History(r, ln, r.Intn(8), 14))
	})
}

func FuzzC10(f *testing.F) {
	for i := 0; i < 12; i++ {
		f.Add(uint8(i), []byte{}, uint16(0))
		f.Add(uint8(i), bytes.Repeat([]byte{0x35, 0xca, 0x01, 0xfe, 0x80}, 60), uint16(0))
	}
	f.Fuzz(func(t *testing.T, sel uint8, in []byte, arg uint16) {
		if len(in) > 4096 {
			in = in[:4096]
		}
		c10{ring: true}.Exec(c10History(rand.New(&byteSrc{b: in}), int(sel), true))
	})
}

func FuzzC17(f *testing.F) {
	f.Add(uint8(0), []byte{}, uint16(0))
	f.Add(uint8(0), bytes.Repeat([]byte{0x35, 0xca, 0x01, 0xfe, 0x80}, 60), uint16(0))
	f.Fuzz(func(t *testing.T, sel uint8, in []byte, arg uint16) {
		if len(in) > 4096 {
			in = in[:4096]
		}
		c17{}.Exec(c17History(rand.New(&byteSrc{b: in})))
	})
}
