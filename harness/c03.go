package main

import (
	"fmt"
	"math/rand"

	"github.com/Comcast/gots/v2/packet"
	"github.com/Comcast/gots/v2/packet/adaptationfield"
)

// C03: adaptation-field edit histories.
type c03 struct{}

func init() { register("C03", c03{}) }

var c03BoolOps = []string{"SetDiscontinuity", "SetRandomAccess", "SetElementaryStreamPriority", "SetHasPCR", "SetHasOPCR",
	"SetHasSplicingPoint", "SetHasTransportPrivateData", "SetHasAdaptationFieldExtension"}

func c03Start(r *rand.Rand, ln int) packet.Packet {
	hasPay := ln <= 182 && r.Intn(8) != 0
	if ln == 183 {
		hasPay = false
	}
	a := randAF(r, ln)
	if r.Intn(3) == 0 {
		a = absAF{Len: ln} // blank field: all room is stuffing
	}
	return pktWithAF(r, a, hasPay)
}

func (c03) Gen(tier string, seed int64, emit func([]Ev)) {
	r := rand.New(rand.NewSource(seed))
	reps := 4
	steps := 8
	if tier == "thorough" {
		reps = 120
		steps = 14
	}
	for rep := 0; rep < reps; rep++ {
		for ln := 1; ln <= 183; ln++ {
			emit(c03History(r, ln, rep, steps))
		}
	}
}

// c03History draws one edit history starting from a field of length ln (r may be driven by a fuzzer's bytes).
func c03History(r *rand.Rand, ln, rep, steps int) []Ev {
	p := c03Start(r, ln)
	if ln >= 4 && (ln >= 182 || (ln+rep)%9 == 0) && rep%2 == 1 {
		// a field filled exactly by its optional fields (no stuffing left), e.g. an empty extension
		// whose length byte is the last byte of the field
		p = pktWithAF(r, fullAF(r, ln, (rep/2+ln)%4), ln < 183)
	}
	var h []Ev
	n := 2 + r.Intn(steps)
	for s := 0; s < n; s++ {
		e := Ev{}
		switch x := r.Intn(20); {
		case x < 8:
			e["op"] = c03BoolOps[r.Intn(len(c03BoolOps))]
			e["arg"] = r.Intn(2) == 0
		case x < 10:
			e["op"] = []string{"SetPCR", "SetOPCR"}[r.Intn(2)]
			v := uint64(r.Int63n(int64(pcrLimit)))
			if r.Intn(4) == 0 {
				v = []uint64{0, pcrLimit - 1, 299, 300, (1 << 32) * 300}[r.Intn(5)]
			}
			e["arg"] = W64(v)
			if r.Intn(4) == 0 {
				// re-stamp the clock with the value it currently decodes to (the bytes in the slot may be a
				// non-canonical encoding of it: reserved bits cleared, extension of 300 or more)
				e["same"] = true
			}
		case x < 11:
			e["op"] = "SetSpliceCountdown"
			e["arg"] = []int{0, 1, 127, 128, 255, r.Intn(256)}[r.Intn(6)]
		case x < 18:
			e["op"] = []string{"SetTransportPrivateData", "SetAdaptationFieldExtension"}[r.Intn(2)]
			if r.Intn(2) == 0 { // make the field present first, so that the data call is not just "absent field"
				pre := Ev{"op": "SetHasTransportPrivateData", "arg": true}
				if GS(e["op"]) == "SetAdaptationFieldExtension" {
					pre["op"] = "SetHasAdaptationFieldExtension"
				}
				if s == 0 {
					pre["start"] = B(p[:])
				}
				h = append(h, pre)
				s++
			}
			k := 0
			switch r.Intn(5) {
			case 0:
				k = 0
			case 1:
				k = r.Intn(4)
			case 2:
				k = r.Intn(ln + 2) // around the capacity
			case 3:
				k = ln - r.Intn(16) // near the field length
			default:
				k = r.Intn(184)
			}
			if k < 0 {
				k = 0
			}
			if k > 255 {
				k = 255
			}
			if r.Intn(8) == 0 {
				// longer than any length byte can express: must be refused like any other misfit,
				// whatever the length is modulo 256
				k = []int{256, 257, 260, 256 + r.Intn(184), 511, 512, 513, 512 + r.Intn(184), 768, 1024, 1024 + r.Intn(184), 65536 + r.Intn(184)}[r.Intn(12)]
			}
			d := make([]byte, k)
			r.Read(d)
			e["arg"] = B(d)
			if r.Intn(3) == 0 {
				// length chosen at execution time relative to the room the field has then:
				// exactly fitting, one short, one too many
				e["fit"] = []int{-1, 0, 0, 1}[r.Intn(4)]
				if r.Intn(5) == 0 {
					e["wrap"] = 1 + r.Intn(3)
				}
			}
		default:
			e["op"] = "SetAdaptationField"
			sl := 1 + r.Intn(183)
			if r.Intn(2) == 0 {
				sl = ln // same length: always fits
			}
			src := c03Start(r, sl)
			if r.Intn(4) == 0 && ln >= 2 {
				// a source whose content (flags byte and fields) is one byte more than, exactly, or one byte less than the room the
				// destination had at the start of the history: fields only - a clock reference last, or private data behind it
				t := ln + []int{1, 0, -1, 1}[r.Intn(4)]
				if t > 183 {
					t = 183 // (a field of 183 bytes holds no more than that)
				}
				a := absAF{Len: 183}
				switch {
				case t >= 15 && r.Intn(2) == 0:
					a.HasPCR, a.PCR, a.HasOPCR, a.OPCR = true, rndBytes(r, 6), true, rndBytes(r, 6)
					a.HasTPD, a.TPD = true, rndBytes(r, t-14)
				case t == 13:
					a.HasPCR, a.PCR, a.HasOPCR, a.OPCR = true, rndBytes(r, 6), true, rndBytes(r, 6)
				case t >= 8:
					a.HasPCR, a.PCR, a.HasTPD, a.TPD = true, rndBytes(r, 6), true, rndBytes(r, t-8)
				case t == 7:
					a.HasPCR, a.PCR = true, rndBytes(r, 6)
				case t >= 2:
					a.HasTPD, a.TPD = true, rndBytes(r, t-2)
				}
				src = pktWithAF(r, a, false)
			}
			e["arg"] = B(src[:])
			if r.Intn(3) == 0 {
				// the source is a copy of the packet as it is at that moment, with its private data and extension cut
				// short (same length byte, same flags, less content): the destination must be re-stuffed
				e["clone"] = []string{"shorter", "same", "shorter"}[r.Intn(3)]
			}
		}
		if len(h) == 0 {
			e["start"] = B(p[:])
		}
		h = append(h, e)
	}
	return h
}

// GenRows for fuzzer-driven histories is GenRowsFuzz (GenRows is taken by the model's states).
func (c03) genFuzzRows(rows []Ev, emit func([]Ev)) {
	for _, row := range rows {
		r := rand.New(&byteSrc{b: GB(row["in"])})
		ln := 1 + (GI(row["opi"])*7+r.Intn(183))%183
		emit(c03History(r, ln, r.Intn(8), 14))
	}
}

// GenRows (B2): rows are the reachable logical states of the model (Gen_C03), each as the serialised field.
// Every operation of the model is applied to every state - one implementation test per transition of the
// model's graph; the argument values are the harness's (the trace validation judges whatever was passed).
func (x c03) GenRows(rows []Ev, tier string, seed int64, emit func([]Ev)) {
	if len(rows) > 0 && rows[0]["af"] == nil {
		x.genFuzzRows(rows, emit) // the fuzzer's strings, not the model's states
		return
	}
	r := rand.New(rand.NewSource(seed))
	for i, row := range rows {
		if tier != "thorough" && i%32 != int(seed)%32 {
			continue // quick: every 32nd state (which ones depends on the seed)
		}
		af := GB(row["af"])
		var p packet.Packet
		r.Read(p[:])
		p[0] = 0x47
		p[3] = p[3]&0x0f | 0x20
		if len(af)-1 < 183 {
			p[3] |= 0x10
		}
		copy(p[4:], af)
		one := func(op string, arg interface{}, fit int) {
			e := Ev{"op": op, "arg": arg, "start": B(p[:])}
			if fit > -9 {
				e["fit"] = fit
			}
			emit([]Ev{e})
		}
		for _, op := range c03BoolOps {
			one(op, true, -9)
			one(op, false, -9)
		}
		for _, op := range []string{"SetPCR", "SetOPCR"} {
			one(op, W64(uint64(r.Int63n(int64(pcrLimit)))), -9)
			one(op, W64([]uint64{0, pcrLimit - 1, 299, 300, (1 << 32) * 300}[r.Intn(5)]), -9)
		}
		for _, op := range []string{"SetPCR", "SetOPCR"} {
			emit([]Ev{{"op": op, "arg": W64(0), "same": true, "start": B(p[:])}})
		}
		one("SetSpliceCountdown", 0, -9)
		one("SetSpliceCountdown", []int{1, 127, 128, 255}[r.Intn(4)], -9)
		for _, op := range []string{"SetTransportPrivateData", "SetAdaptationFieldExtension"} {
			for _, n := range []int{0, 1, 2, 3} {
				one(op, B(rndBytes(r, n)), -9)
			}
			one(op, B(nil), -1) // one short of the room, exactly fitting, one too many
			one(op, B(nil), 0)
			one(op, B(nil), 1)
			// exactly fitting, then what can be done with a completely full field
			flw := [][2]interface{}{{"SetHasAdaptationFieldExtension", false}, {"SetHasAdaptationFieldExtension", true}, {"SetAdaptationFieldExtension", B(nil)},
				{"SetHasTransportPrivateData", false}, {"SetTransportPrivateData", B(rndBytes(r, 1))}, {"SetHasSplicingPoint", false}, {"SetHasPCR", false}}
			h := []Ev{{"op": op, "arg": B(nil), "fit": 0, "start": B(p[:])}}
			for k := 0; k < 2; k++ {
				f := flw[r.Intn(len(flw))]
				h = append(h, Ev{"op": f[0], "arg": f[1]})
			}
			emit(h)
		}
	}
}

// c03Room: the data length that would exactly fill the adaptation field if given to the private data
// (tpd) or extension field now; -1 when that field is absent or the field is malformed. Generation aid only.
func c03Room(p *packet.Packet, tpd bool) int {
	ln, fl := int(p[4]), p[5]
	off := 6
	if fl&0x10 != 0 {
		off += 6
	}
	if fl&0x08 != 0 {
		off += 6
	}
	if fl&0x04 != 0 {
		off++
	}
	tl, al := -1, -1
	if fl&0x02 != 0 {
		if off >= 188 {
			return -1
		}
		tl = int(p[off])
		off += 1 + tl
	}
	if fl&0x01 != 0 {
		if off >= 188 {
			return -1
		}
		al = int(p[off])
		off += 1 + al
	}
	free := 5 + ln - off // stuffing bytes left
	if tpd {
		if tl < 0 {
			return 3
		}
		return tl + free
	}
	if al < 0 {
		return 3
	}
	return al + free
}

func c03Getters(p *packet.Packet) Ev { return c03GettersO(nil, p) }

// c03GettersO queries the method-style and function-style getters in the order the event's key selects (nil: as listed).
func c03GettersO(e Ev, p *packet.Packet) Ev {
	g := Ev{}
	af, err := p.AdaptationField()
	if err != nil {
		return Ev{"noaf": true}
	}
	inOrder(e,
		func() { g["m_len"] = af.Length() },
		func() { g["m_disc"], _ = af.Discontinuity() },
		func() { g["m_rai"], _ = af.RandomAccess() },
		func() { g["m_espi"], _ = af.ElementaryStreamPriority() },
		func() { g["m_haspcr"], _ = af.HasPCR() },
		func() { g["m_hasopcr"], _ = af.HasOPCR() },
		func() { g["m_hassplice"], _ = af.HasSplicingPoint() },
		func() { g["m_hastpd"], _ = af.HasTransportPrivateData() },
		func() { g["m_hasafe"], _ = af.HasAdaptationFieldExtension() },
		func() { v, e1 := af.PCR(); g["m_pcr"], g["m_pcr_err"] = W64(v), e1 != nil },
		func() { v, e1 := af.OPCR(); g["m_opcr"], g["m_opcr_err"] = W64(v), e1 != nil },
		func() { sc, e2 := af.SpliceCountdown(); g["m_splice"], g["m_splice_err"] = sc&0xff, e2 != nil },
		func() { t, e3 := af.TransportPrivateData(); g["m_tpd"], g["m_tpd_err"] = B(t), e3 != nil },
		func() { x, e4 := af.AdaptationFieldExtension(); g["m_afe"], g["m_afe_err"] = B(x), e4 != nil },
		func() { g["f_len"] = int(adaptationfield.Length(p)) },
		func() { g["f_disc"] = adaptationfield.IsDiscontinuous(p) },
		func() { g["f_rai"] = adaptationfield.IsRandomAccess(p) },
		func() { g["f_espi"] = adaptationfield.IsESHigherPriority(p) },
		func() { g["f_haspcr"] = adaptationfield.HasPCR(p) },
		func() { g["f_hasopcr"] = adaptationfield.HasOPCR(p) },
		func() { g["f_hassplice"] = adaptationfield.HasSplicingPoint(p) },
		func() { g["f_hastpd"] = adaptationfield.HasTransportPrivateData(p) },
		func() { g["f_hasafe"] = adaptationfield.HasAdaptationFieldExtension(p) },
		func() { b, e5 := adaptationfield.PCR(p); g["f_pcr"], g["f_pcr_err"] = B(b), e5 != nil },
		func() { b, e5 := adaptationfield.OPCR(p); g["f_opcr"], g["f_opcr_err"] = B(b), e5 != nil },
		func() {
			s8, e6 := adaptationfield.SpliceCountdown(p)
			g["f_splice"], g["f_splice_err"] = int(s8), e6 != nil
		},
		func() { b, e5 := adaptationfield.TransportPrivateData(p); g["f_tpd"], g["f_tpd_err"] = B(b), e5 != nil },
	)
	return g
}

func (c03) Exec(h []Ev) []Ev {
	var p packet.Packet
	dead := false
	for i, e := range h {
		if i == 0 {
			copy(p[:], GB(e["start"]))
		}
		e["before"] = B(p[:])
		if dead {
			e["panic"], e["err"], e["after"], e["get"] = "skipped-after-panic", "nil", B(p[:]), Ev{}
			continue
		}
		e["err"] = "nil"
		e["panic"] = guard(func() {
			af, err := p.AdaptationField()
			if err != nil {
				panic("harness: packet without adaptation field")
			}
			op := GS(e["op"])
			switch op {
			case "SetDiscontinuity":
				err = af.SetDiscontinuity(GBool(e["arg"]))
			case "SetRandomAccess":
				err = af.SetRandomAccess(GBool(e["arg"]))
			case "SetElementaryStreamPriority":
				err = af.SetElementaryStreamPriority(GBool(e["arg"]))
			case "SetHasPCR":
				err = af.SetHasPCR(GBool(e["arg"]))
			case "SetHasOPCR":
				err = af.SetHasOPCR(GBool(e["arg"]))
			case "SetHasSplicingPoint":
				err = af.SetHasSplicingPoint(GBool(e["arg"]))
			case "SetHasTransportPrivateData":
				err = af.SetHasTransportPrivateData(GBool(e["arg"]))
			case "SetHasAdaptationFieldExtension":
				err = af.SetHasAdaptationFieldExtension(GBool(e["arg"]))
			case "SetPCR", "SetOPCR":
				if same, _ := e["same"].(bool); same {
					// steer the value by the current state (generation aid only; the recorded arg is what is validated)
					var cur uint64
					var gerr error
					if op == "SetPCR" {
						cur, gerr = af.PCR()
					} else {
						cur, gerr = af.OPCR()
					}
					if gerr == nil && cur < pcrLimit {
						e["arg"] = W64(cur)
					}
					delete(e, "same")
				}
				if op == "SetPCR" {
					err = af.SetPCR(UW64(e["arg"]))
				} else {
					err = af.SetOPCR(UW64(e["arg"]))
				}
			case "SetSpliceCountdown":
				err = af.SetSpliceCountdown(byte(GI(e["arg"])))
			case "SetTransportPrivateData", "SetAdaptationFieldExtension":
				if f, ok := e["fit"]; ok {
					// steer the length by the current state (generation aid only; the recorded arg is what is validated)
					n := c03Room(&p, op == "SetTransportPrivateData") + GI(f)
					if n < 0 {
						n = 0
					}
					if n > 255 {
						n = 255
					}
					if w, ok := e["wrap"]; ok {
						n += 256 * GI(w) // the same length modulo 256, far too long
						delete(e, "wrap")
					}
					d := make([]byte, n)
					for i := range d {
						d[i] = byte(0x30 + i%64)
					}
					e["arg"] = B(d)
					delete(e, "fit")
				}
				if op == "SetTransportPrivateData" {
					err = af.SetTransportPrivateData(nilIfEmpty(e, GB(e["arg"])))
				} else {
					err = af.SetAdaptationFieldExtension(nilIfEmpty(e, GB(e["arg"])))
				}
			case "SetAdaptationField":
				var src packet.Packet
				copy(src[:], GB(e["arg"]))
				if mode := GS(e["clone"]); mode != "" {
					src = p
					if sa, serr := src.AdaptationField(); serr == nil && mode == "shorter" {
						if d, derr := sa.TransportPrivateData(); derr == nil && len(d) > 0 {
							sa.SetTransportPrivateData(append([]byte(nil), d[:len(d)/2]...))
						}
						if d, derr := sa.AdaptationFieldExtension(); derr == nil && len(d) > 0 {
							sa.SetAdaptationFieldExtension(append([]byte(nil), d[:len(d)/2]...))
						}
					}
					e["arg"] = B(src[:])
				}
				keep := src
				sa, _ := src.AdaptationField()
				err = p.SetAdaptationField(sa)
				if src != keep {
					panic("source adaptation field modified")
				}
			default:
				panic("harness: unknown op " + op)
			}
			if err != nil {
				e["err"] = "err"
			}
		})
		e["after"] = B(p[:])
		if GS(e["panic"]) != "" {
			dead = true
			e["get"] = Ev{}
			continue
		}
		gp := guard(func() { e["get"] = c03GettersO(e, &p) })
		if gp != "" {
			e["panic"] = "getter-" + gp
			e["get"] = Ev{}
			dead = true
		}
	}
	return h
}

func (c03) Class(e Ev) string {
	b := GB(e["before"])
	ln := int(b[4])
	lb := "mid"
	switch {
	case ln <= 2:
		lb = "tiny"
	case ln < 16:
		lb = "small"
	case ln >= 182:
		lb = "full"
	}
	ch := "same"
	if string(GB(e["after"])) != string(b) {
		ch = "changed"
	}
	return fmt.Sprintf("%s/%s/%s/%s", GS(e["op"]), lb, GS(e["err"]), ch)
}
