package main

import (
	"fmt"
	"math/rand"

	gots "github.com/Comcast/gots/v2"
	"github.com/Comcast/gots/v2/scte35"
)

// C10: SCTE-35 state tracker bookkeeping.
// ring: also generate histories with more than ten distinct signal times, which make the tracker's record of received
// times wrap. Its capacity is not part of C10: Trace_C10 adopts the library's answer for repeats that are not immediate
// and stays strict on "twice in a row"; the growth check X03 judges the capacity itself ("as the library has it").
type c10 struct{ ring bool }

func init() { register("C10", c10{ring: true}); register("X03", c10{ring: true}) }

// a history refers to descriptor objects by index ("obj"); "objs" on the first
// event lists their abstract fields; the same object may be used by several steps.

func c10MkObj(m map[string]interface{}, r *rand.Rand) scte35.SegmentationDescriptor {
	a := evToAbs(m)
	d := mkDesc(a, r, false)
	if v := GS(m["vss"]); v != "none" && v != "" {
		d.SetIsDeliveryNotRestricted(false)
		d.SetUPIDType(scte35.SegUPIDMID)
		u1 := scte35.CreateUPID()
		u1.SetUPIDType(scte35.SegUPIDADI)
		// the signal id is what follows "BLACKOUT:"; a bare marker, an empty id and a marker inside a longer string are legal too
		adi := "BLACKOUT:" + v
		switch v {
		case "bare":
			adi = "BLACKOUT"
		case "colon":
			adi = "BLACKOUT:"
		case "inner":
			adi = "x-BLACKOUT:z"
		}
		u1.SetUPID([]byte(adi))
		u2 := scte35.CreateUPID()
		u2.SetUPIDType(scte35.SegUPADSINFO)
		u2.SetUPID([]byte("comcast:linear:licenserotation"))
		d.SetMID([]scte35.UPID{u1, u2})
	} else {
		// make sure a random UPID cannot accidentally form a signal id
		d.SetUPIDType(scte35.SegUPIDNotUsed)
	}
	return d
}

func c10Obs(d scte35.SegmentationDescriptor, id int) Ev {
	o := obsDesc(d)
	o["id"] = id
	// (the getter is asked under its own guard: what a tracker call does with the descriptor is judged at that call)
	o["vss"] = "getter-panicked"
	guard(func() {
		if sig, err := d.StreamSwitchSignalId(); err != nil {
			o["vss"] = "none"
		} else {
			o["vss"] = "sig:" + sig
		}
	})
	return o
}

var c10Types = []int{0x10, 0x11, 0x13, 0x14, 0x30, 0x31, 0x34, 0x35, 0x40, 0x41, 0x50, 0x51, 0x22, 0x23, 0x01, 0x17, 0x19, 0x20, 0x21, 0x36, 0x37, 0x44, 0x45, 0x12, 0x32}

func c10Alphabet() []Ev {
	var al []Ev
	pts := []uint64{1000, 2000}
	for _, t := range []int{0x10, 0x11, 0x13, 0x14, 0x30, 0x31, 0x34, 0x35, 0x40, 0x50, 0x22, 0x23} {
		for eid := 1; eid <= 2; eid++ {
			for _, p := range pts {
				a := absDesc{Type: t, Eid: eid, HasPTS: true, PTS: p, SegNum: 1, SegExp: 1}
				e := absToEv(a)
				e["vss"] = "none"
				if t == 0x40 {
					e["vss"] = []string{"a", "b"}[eid-1]
				}
				al = append(al, e)
				if eid == 2 && p == 2000 {
					continue
				}
			}
		}
	}
	// a no-PTS descriptor, PO ends with segnum # segexp, a 0x40 without signal id
	np := absToEv(absDesc{Type: 0x10, Eid: 1, HasPTS: false, SegNum: 1, SegExp: 1})
	np["vss"] = "none"
	al = append(al, np)
	for _, t := range []int{0x35, 0x37} {
		e := absToEv(absDesc{Type: t, Eid: 1, HasPTS: true, PTS: 3000, SegNum: 1, SegExp: 2})
		e["vss"] = "none"
		al = append(al, e)
	}
	v := absToEv(absDesc{Type: 0x40, Eid: 1, HasPTS: true, PTS: 3000, SegNum: 1, SegExp: 1})
	v["vss"] = "none"
	al = append(al, v)
	return al
}

func (c c10) Gen(tier string, seed int64, emit func([]Ev)) {
	r := rand.New(rand.NewSource(seed))
	al := c10Alphabet()
	ops := func(objs []Ev, steps [][2]interface{}) []Ev { return c10Ops(r, objs, steps) }
	// bounded-exhaustive: all histories of length <= L over the alphabet (process only), each followed by Open
	L := 2
	if tier == "thorough" {
		L = 3
	}
	var rec func(prefix []int)
	rec = func(prefix []int) {
		if len(prefix) > 0 {
			objs := []Ev{}
			var steps [][2]interface{}
			for k, a := range prefix {
				objs = append(objs, al[a])
				steps = append(steps, [2]interface{}{"process", k})
			}
			emit(ops(objs, steps))
		}
		if len(prefix) == L {
			return
		}
		for a := range al {
			rec(append(append([]int(nil), prefix...), a))
		}
	}
	rec(nil)
	// random histories biased to breakaway / resumption / explicit close / re-processing
	n := 1500
	if tier == "thorough" {
		n = 30000
	}
	for i := 0; i < n; i++ {
		emit(c10History(r, i, c.ring))
	}
}

func c10Ops(r *rand.Rand, objs []Ev, steps [][2]interface{}) []Ev {
	var h []Ev
	for i, s := range steps {
		e := Ev{"op": s[0], "obj": s[1], "seed": int(r.Int31())}
		if i == 0 {
			e["objs"] = objs
		}
		h = append(h, e)
	}
	return h
}

// c10History draws one random tracker history from r (which may be driven by a fuzzer's bytes).
func c10History(r *rand.Rand, i int, withRing bool) []Ev {
	nobj := 3 + r.Intn(8)
	objs := []Ev{}
	ptsPool := []uint64{1000, 2000, 3000, 1 << 32, 1<<33 - 1}
	many := r.Intn(4) == 0       // many distinct times
	ring := withRing && i%6 == 5 // more than ten distinct times in one history: the record of received times wraps
	if ring {
		many = true
		nobj = 12 + r.Intn(8)
	}
	for k := 0; k < nobj; k++ {
		t := c10Types[r.Intn(len(c10Types))]
		if r.Intn(3) == 0 {
			t = []int{0x13, 0x14, 0x10, 0x50, 0x40}[r.Intn(5)]
		}
		a := absDesc{Type: t, Eid: 1 + r.Intn(2), HasPTS: r.Intn(12) != 0, PTS: ptsPool[r.Intn(len(ptsPool))], SegNum: 1, SegExp: 1 + r.Intn(2)}
		if many {
			a.PTS = uint64(1000 * (1 + r.Intn(16)))
		}
		if ring && r.Intn(4) != 0 {
			a.PTS = uint64(1000 * (1 + k)) // mostly distinct times
		}
		if t == 0x34 || t == 0x36 {
			a.HasSub = r.Intn(2) == 0
			a.SubNum, a.SubExp = 1, 1+r.Intn(2)
		}
		e := absToEv(a)
		e["vss"] = "none"
		if t == 0x40 && r.Intn(5) != 0 {
			e["vss"] = []string{"a", "b", "c", "bare", "colon", "inner", "bare"}[r.Intn(7)]
		}
		objs = append(objs, e)
	}
	if !ring && i%13 == 3 && nobj >= 4 {
		// several unscheduled event starts of one event and one time, with and without stream-switch signal ids (all spellings)
		for k := 0; k < 4; k++ {
			objs[k]["type"], objs[k]["eid"], objs[k]["haspts"], objs[k]["pts"] = 0x40, []int{0, 1}, true, W64(7000)
			objs[k]["hassub"], objs[k]["subnum"], objs[k]["subexp"] = false, 0, 0
			objs[k]["vss"] = []string{"a", "b", "bare", "colon", "inner", "none", "bare"}[r.Intn(7)]
		}
	}
	nsteps := 4 + r.Intn(22)
	var steps [][2]interface{}
	if !ring && i%19 == 7 && nobj >= 4 {
		// one signal of two or three descriptors re-sent many times (each re-send is a run of duplicates), then a
		// descriptor not seen before for the same time, twice in a row: it must be remembered like any other
		n := 2 + r.Intn(2)
		for k := 0; k < nobj; k++ {
			objs[k]["haspts"], objs[k]["pts"], objs[k]["eid"] = true, W64(5000), []int{0, 1 + k} // distinct descriptors of one time
		}
		for rep := []int{12, 33, 40, 70}[r.Intn(4)]; rep > 0; rep-- {
			for k := 0; k < n; k++ {
				steps = append(steps, [2]interface{}{"process", k})
			}
		}
		steps = append(steps, [2]interface{}{"process", n}, [2]interface{}{"process", n}, [2]interface{}{"open", 0})
		nsteps = r.Intn(8)
	}
	if ring {
		// every object once in order (each new time takes a slot), then again: those whose slot was
		// reused are no longer known, the recent ones still are
		for k := 0; k < nobj; k++ {
			steps = append(steps, [2]interface{}{"process", k})
		}
		for k := 0; k < nobj; k++ {
			steps = append(steps, [2]interface{}{"process", (k * 5) % nobj})
		}
		nsteps = r.Intn(12)
	}
	for s := 0; s < nsteps; s++ {
		k := r.Intn(nobj)
		switch x := r.Intn(10); {
		case x < 7:
			steps = append(steps, [2]interface{}{"process", k})
			if r.Intn(6) == 0 {
				steps = append(steps, [2]interface{}{"process", k}) // twice in a row
			}
		case x < 9:
			steps = append(steps, [2]interface{}{"close", k})
		default:
			steps = append(steps, [2]interface{}{"open", k})
		}
	}
	return c10Ops(r, objs, steps)
}

// GenRows: the fuzzer's bytes drive the random-history generator (structured fuzzing).
func (c c10) GenRows(rows []Ev, tier string, seed int64, emit func([]Ev)) {
	for _, row := range rows {
		emit(c10History(rand.New(&byteSrc{b: GB(row["in"])}), GI(row["opi"]), c.ring))
	}
}

func (c10) Exec(h []Ev) []Ev {
	if len(h) == 0 {
		return h
	}
	var objs []scte35.SegmentationDescriptor
	var list []interface{}
	switch t := h[0]["objs"].(type) {
	case []Ev:
		for _, x := range t {
			list = append(list, x)
		}
	case []interface{}:
		list = t
	}
	r := rand.New(rand.NewSource(int64(GI(h[0]["seed"]))))
	for _, x := range list {
		objs = append(objs, c10MkObj(asMap(x), r))
	}
	idOf := func(d scte35.SegmentationDescriptor) int {
		for k, o := range objs {
			if o == d {
				return k
			}
		}
		return -1
	}
	ids := func(ds []scte35.SegmentationDescriptor) []int {
		out := []int{}
		for _, d := range ds {
			out = append(out, idOf(d))
		}
		return out
	}
	st := scte35.NewState()
	// a second tracker lives side by side (one per program in a multi-program receiver): it has two descriptors open and
	// is not called again; calls on the tracker under test must leave it alone
	by := scte35.NewState()
	var byOpen []scte35.SegmentationDescriptor
	guard(func() {
		for k, a := range []absDesc{{Type: 0x10, Eid: 7, HasPTS: true, PTS: 111, SegNum: 1, SegExp: 1}, {Type: 0x20, Eid: 8, HasPTS: true, PTS: 222, SegNum: 1, SegExp: 1}} {
			ev := absToEv(a)
			ev["vss"] = "none"
			ev["id"] = 1000 + k
			by.ProcessDescriptor(c10MkObj(ev, r))
		}
		byOpen = by.Open()
	})
	dead := false
	for _, e := range h {
		e["bystander_same"] = true
		if dead {
			e["panic"] = "skipped-after-panic"
			e["d"], e["res"], e["closed"], e["open"], e["warn"] = Ev{}, "", []int{}, []int{}, "none"
			continue
		}
		k := GI(e["obj"])
		d := objs[k]
		e["closed"], e["res"], e["open"], e["warn"] = []int{}, "", []int{}, "none"
		e["panic"] = guard(func() {
			e["d"] = c10Obs(d, k)
			switch GS(e["op"]) {
			case "process":
				closed, err := st.ProcessDescriptor(d)
				e["closed"] = ids(closed)
				switch err { // the validation verdict (X03; ignored by C10)
				case gots.ErrSCTE35MissingOut:
					e["warn"] = "missingout"
				case gots.ErrSCTE35InvalidDescriptor:
					e["warn"] = "invalid"
				}
				switch err {
				case gots.ErrSCTE35UnsupportedSpliceCommand:
					e["res"] = "nopts"
				case gots.ErrSCTE35DuplicateDescriptor:
					e["res"] = "dup"
				case gots.ErrVSSSignalIdNotFound:
					e["res"] = "vsserr"
				default:
					e["res"] = "ok"
				}
			case "close":
				closed, err := st.Close(d)
				e["closed"] = ids(closed)
				if err == nil {
					e["res"] = "ok"
				} else {
					e["res"] = "notfound"
				}
			case "open":
				e["res"] = "ok"
			}
			e["open"] = ids(st.Open())
			now := by.Open()
			same := len(now) == len(byOpen)
			for k := 0; same && k < len(now); k++ {
				same = now[k] == byOpen[k]
			}
			e["bystander_same"] = same
		})
		if GS(e["panic"]) != "" {
			dead = true
		}
	}
	return h
}

func (c10) Class(e Ev) string {
	if GS(e["panic"]) != "" {
		return "panic"
	}
	d := asMap(e["d"])
	return fmt.Sprintf("%s/t%02x/%s/closed%d/open%d", GS(e["op"]), GI(d["type"]), GS(e["res"]), len(GIs(e["closed"])), len(GIs(e["open"])))
}

// ---- B2: replay of TLC-generated behaviours (Sim_C10) on a real State ----

func (c10) Table(rows []Ev, tier string, seed int64, rep *TableReport) {
	r := rand.New(rand.NewSource(seed))
	for bi, row := range rows {
		tick([]Ev{row})
		steps := toList(row["steps"])
		st := scte35.NewState()
		objs := map[string]scte35.SegmentationDescriptor{}
		idOf := map[scte35.SegmentationDescriptor]string{}
		key := func(v interface{}) string { return fmt.Sprint(v) }
		ids := func(ds []scte35.SegmentationDescriptor) []string {
			out := []string{}
			for _, d := range ds {
				out = append(out, idOf[d])
			}
			return out
		}
		want := func(v interface{}) []string {
			out := []string{}
			for _, x := range toList(v) {
				out = append(out, key(x))
			}
			return out
		}
		for si, sx := range steps {
			s := asMap(sx)
			dm := asMap(s["d"])
			k := key(dm["id"])
			d, ok := objs[k]
			if !ok {
				a := absDesc{Type: GI(dm["type"]), Eid: GI(dm["eid"]), HasPTS: GBool(dm["haspts"]), PTS: uint64(GI(dm["pts"])) * 90000,
					SegNum: GI(dm["segnum"]), SegExp: GI(dm["segexp"])}
				m := absToEv(a)
				m["vss"] = GS(dm["vss"])
				d = c10MkObj(m, r)
				objs[k] = d
				idOf[d] = k
			}
			var closed []scte35.SegmentationDescriptor
			var err error
			res := "ok"
			var open []scte35.SegmentationDescriptor
			pan := guard(func() {
				switch GS(s["op"]) {
				case "process":
					closed, err = st.ProcessDescriptor(d)
					switch err {
					case gots.ErrSCTE35UnsupportedSpliceCommand:
						res = "nopts"
					case gots.ErrSCTE35DuplicateDescriptor:
						res = "dup"
					case gots.ErrVSSSignalIdNotFound:
						res = "vsserr"
					}
				case "close":
					closed, err = st.Close(d)
					if err != nil {
						res = "notfound"
					}
				}
				open = st.Open()
			})
			rep.Compared++
			reason := ""
			switch {
			case pan != "":
				reason = "replay-" + pan
			case res != GS(s["res"]):
				reason = fmt.Sprintf("replay-%s-result-%s-expected-got-%s", GS(s["op"]), GS(s["res"]), res)
			case fmt.Sprint(ids(closed)) != fmt.Sprint(want(s["closed"])):
				reason = "replay-" + GS(s["op"]) + "-closed-list"
			case fmt.Sprint(ids(open)) != fmt.Sprint(want(s["open"])):
				reason = "replay-" + GS(s["op"]) + "-open-list"
			}
			rep.Classes[fmt.Sprintf("replay/%s/t%02x/%s", GS(s["op"]), GI(dm["type"]), GS(s["res"]))]++
			if reason != "" {
				if len(rep.Mismatches) < 50 {
					rep.Mismatches = append(rep.Mismatches, Ev{"op": "behaviour", "reason": reason, "behaviour": bi, "step": si, "steps": steps[:si+1],
						"got_res": res, "got_closed": ids(closed), "got_open": ids(open)})
				}
				break
			}
		}
	}
	rep.Note = "TLC-simulated behaviours of Scte35State (depth 12, ring never evicts because the alphabet has two signal times) replayed step by step on a real scte35.State"
	if len(rows) > 0 {
		rep.Samples = []Ev{{"behaviour": toList(rows[0]["steps"])[:3]}}
	}
}
