package main

import (
	"math/rand"

	gots "github.com/Comcast/gots/v2"
)

// C15: PTS arithmetic modulo 2^33 across rollover.
type c15 struct{}

func init() { register("C15", c15{}) }

const (
	ptsM = uint64(1) << 33
	ptsL = uint64(162000000)
	ptsU = ptsM - 1 - ptsL
)

func c15Values(r *rand.Rand, nrand int) []uint64 {
	vs := []uint64{0, 1, 2, 3, ptsM - 3, ptsM - 2, ptsM - 1, 1 << 32, 1<<32 - 1, 1<<32 + 1, ptsM / 3, 1 << 31, 90000, 1<<33 - 90000}
	for d := int64(-3); d <= 3; d++ {
		vs = append(vs, uint64(int64(ptsL)+d), uint64(int64(ptsU)+d), uint64(int64(2*ptsL)+d), uint64(int64(ptsM-2*ptsL)+d))
	}
	for i := 0; i < nrand; i++ {
		switch i % 4 {
		case 0:
			vs = append(vs, uint64(r.Int63n(int64(ptsM))))
		case 1:
			vs = append(vs, uint64(r.Int63n(int64(ptsL)+5)))
		case 2:
			vs = append(vs, ptsU-2+uint64(r.Int63n(int64(ptsL)+2)))
		case 3:
			vs = append(vs, (ptsL-50+uint64(r.Int63n(100)))%ptsM)
		}
	}
	return vs
}

func (c15) Gen(tier string, seed int64, emit func([]Ev)) {
	r := rand.New(rand.NewSource(seed))
	nrand, nd := 40, 6
	if tier == "thorough" {
		nrand, nd = 400, 30
	}
	vs := c15Values(r, nrand)
	for _, p := range vs {
		emit([]Ev{{"op": "sent", "p": W64(p)}})
		for _, q := range vs {
			emit([]Ev{{"op": "pair", "p": W64(p), "q": W64(q)}})
		}
		ds := []uint64{1, 2, 3, ptsL - 1, ptsL, ptsL / 2, 90000}
		// distances that land exactly on / next to the wrap point and the thresholds
		for _, t := range []uint64{ptsM, ptsM + 1, ptsM - 1, ptsU, ptsU + 1, ptsU + 2, ptsL, ptsL + 1} {
			if t > p && t-p >= 1 && t-p <= ptsL {
				ds = append(ds, t-p)
			}
		}
		for i := 0; i < nd; i++ {
			ds = append(ds, 1+uint64(r.Int63n(int64(ptsL))))
		}
		for _, d := range ds {
			emit([]Ev{{"op": "add", "p": W64(p), "d": W64(d)}})
		}
	}
}

func (c15) Exec(h []Ev) []Ev {
	for _, e := range h {
		e["panic"] = guard(func() {
			switch GS(e["op"]) {
			case "pair":
				p, q := gots.PTS(UW64(e["p"])), gots.PTS(UW64(e["q"]))
				e["ro_pq"] = p.RolledOver(q)
				e["ro_qp"] = q.RolledOver(p)
				e["aft_pq"] = p.After(q)
				e["aft_qp"] = q.After(p)
				e["ge_pq"] = p.GreaterOrEqual(q)
				e["ge_qp"] = q.GreaterOrEqual(p)
				e["dur_pq"] = W64(p.DurationFrom(q))
				e["dur_qp"] = W64(q.DurationFrom(p))
			case "add":
				p, d := gots.PTS(UW64(e["p"])), gots.PTS(UW64(e["d"]))
				r := p.Add(d)
				e["r"] = W64(uint64(r))
				e["aft_rp"] = r.After(p)
				e["aft_pr"] = p.After(r)
				e["ro_rp"] = r.RolledOver(p)
				e["dur_rp"] = W64(r.DurationFrom(p))
				e["dur_pr"] = W64(p.DurationFrom(r))
			case "sent":
				p := gots.PTS(UW64(e["p"]))
				e["aft_neg"] = p.After(gots.PtsNegativeInfinity)
				e["aft_pos"] = p.After(gots.PtsPositiveInfinity)
			}
		})
	}
	return h
}

func region(v uint64) string {
	switch {
	case v < ptsL:
		return "lo"
	case v == ptsL:
		return "L"
	case v > ptsU:
		return "hi"
	case v == ptsU:
		return "U"
	}
	return "mid"
}

func (c15) Class(e Ev) string {
	switch GS(e["op"]) {
	case "pair":
		p, q := UW64(e["p"]), UW64(e["q"])
		rel := "lt"
		if p == q {
			rel = "eq"
		} else if p > q {
			rel = "gt"
		}
		return "pair/" + region(p) + "/" + region(q) + "/" + rel
	case "add":
		p, d := UW64(e["p"]), UW64(e["d"])
		w := "nowrap"
		if p+d >= ptsM {
			w = "wrap"
		}
		dd := "d"
		if d == ptsL {
			dd = "dmax"
		} else if d == 1 {
			dd = "d1"
		}
		return "add/" + region(p) + "/" + dd + "/" + w
	case "sent":
		return "sent/" + region(UW64(e["p"]))
	}
	return ""
}
