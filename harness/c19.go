package main

import (
	"fmt"
	"math/rand"

	gots "github.com/Comcast/gots/v2"
	"github.com/Comcast/gots/v2/scte35"
)

// C19: closing relation, in/out classification, descriptor equality.
type c19 struct{}

func init() { register("C19", c19{}) }

// absDesc is the abstract view the specification talks about.
type absDesc struct {
	Type, Eid      int
	HasPTS         bool
	PTS            uint64
	SegNum, SegExp int
	HasSub         bool
	SubNum, SubExp int
}

// mkDesc builds a real descriptor through the public creation API, with all
// fields the closing relation must NOT depend on randomised.
func mkDesc(a absDesc, r *rand.Rand, viaDecode bool) scte35.SegmentationDescriptor {
	s := scte35.CreateSCTE35()
	if a.HasPTS {
		cmd := scte35.CreateTimeSignalCommand()
		cmd.SetHasPTS(true)
		s.SetCommandInfo(cmd)
		s.SetPTS(gots.PTS(a.PTS))
		if r != nil && r.Intn(2) == 0 {
			// the same signal time reached through another split into command pts_time + pts_adjustment
			s.SetPTS(gots.PTS(r.Int63n(1 << 33)))
			s.SetAdjustPTS(gots.PTS(a.PTS))
		}
	}
	if !a.HasPTS && r != nil && r.Intn(2) == 0 {
		// a signal that carries a time value but is flagged as having none: it still "has no PTS"
		cmd := scte35.CreateTimeSignalCommand()
		cmd.SetHasPTS(true)
		s.SetCommandInfo(cmd)
		s.SetPTS(gots.PTS(a.PTS))
		cmd.SetHasPTS(false)
	}
	d := scte35.CreateSegmentationDescriptor()
	if r != nil && r.Intn(3) == 0 {
		// a previous life: the descriptor had another type and has answered questions (closing relation both ways,
		// equality, in/out) before it is given the type it is judged with - the relation depends on the type it has now
		prev := []int{0x33, 0x35, 0x37, 0x31, 0x11, 0x21, 0x34, 0x36, 0x45, r.Intn(256)}[r.Intn(10)]
		prevPTS := a.PTS
		mkSig := func(x scte35.SegmentationDescriptor) scte35.SCTE35 {
			ps := scte35.CreateSCTE35()
			cmd := scte35.CreateTimeSignalCommand()
			cmd.SetHasPTS(true)
			ps.SetCommandInfo(cmd)
			ps.SetPTS(gots.PTS(prevPTS))
			ps.SetDescriptors([]scte35.SegmentationDescriptor{x})
			return ps
		}
		d.SetTypeID(scte35.SegDescType(prev))
		d.SetEventID(uint32(a.Eid))
		if r.Intn(2) == 0 {
			// ... and other values of everything the relations look at (event id, numbers, signal time)
			d.SetEventID(uint32(a.Eid + 1 + r.Intn(3)))
			d.SetSegmentNumber(uint8(1 + r.Intn(5)))
			d.SetSegmentsExpected(uint8(1 + r.Intn(5)))
			if prev == 0x34 || prev == 0x36 {
				d.SetHasSubSegments(r.Intn(2) == 0)
				d.SetSubSegmentNumber(uint8(1 + r.Intn(3)))
				d.SetSubSegmentsExpected(uint8(1 + r.Intn(3)))
			}
			prevPTS = (a.PTS + uint64(r.Intn(3))) % (1 << 33)
		}
		ps := mkSig(d)
		for _, ot := range []int{prev - 1, prev, prev + 1, r.Intn(256)} {
			other := scte35.CreateSegmentationDescriptor()
			other.SetTypeID(scte35.SegDescType(ot & 0xff))
			other.SetEventID(uint32(a.Eid))
			mkSig(other)
			d.CanClose(other)
			other.CanClose(d)
			d.Equal(other)
		}
		d.IsIn()
		d.IsOut()
		ps.SetDescriptors(nil)
	}
	d.SetTypeID(scte35.SegDescType(a.Type))
	d.SetEventID(uint32(a.Eid))
	d.SetSegmentNumber(uint8(a.SegNum))
	d.SetSegmentsExpected(uint8(a.SegExp))
	d.SetHasSubSegments(a.HasSub)
	d.SetSubSegmentNumber(uint8(a.SubNum))
	d.SetSubSegmentsExpected(uint8(a.SubExp))
	if r != nil {
		d.SetHasProgramSegmentation(true)
		if r.Intn(2) == 0 {
			d.SetHasDuration(true)
			d.SetDuration(gots.PTS(r.Int63n(1 << 40)))
		}
		if r.Intn(2) == 0 {
			d.SetIsDeliveryNotRestricted(true)
		} else {
			d.SetIsWebDeliveryAllowed(r.Intn(2) == 0)
			d.SetIsArchiveAllowed(r.Intn(2) == 0)
			d.SetHasNoRegionalBlackout(r.Intn(2) == 0)
			d.SetDeviceRestrictions(scte35.DeviceRestrictions(r.Intn(4)))
		}
		if r.Intn(2) == 0 {
			d.SetUPIDType(scte35.SegUPIDType(1 + r.Intn(12)))
			u := make([]byte, r.Intn(12))
			r.Read(u)
			d.SetUPID(u)
		}
		s.SetTier(uint16(r.Intn(4096)))
	}
	if r != nil && r.Intn(3) == 0 {
		// the descriptor belonged to another signal (another time, or none) before it was moved into this one: it refers to
		// the signal that carries it now
		donor := scte35.CreateSCTE35()
		if r.Intn(2) == 0 {
			cmd := scte35.CreateTimeSignalCommand()
			cmd.SetHasPTS(true)
			donor.SetCommandInfo(cmd)
			donor.SetPTS(gots.PTS((a.PTS + 1 + uint64(r.Int63n(1<<32))) % (1 << 33)))
		}
		donor.SetDescriptors([]scte35.SegmentationDescriptor{d})
		donor.SetDescriptors(nil)
	}
	s.SetDescriptors([]scte35.SegmentationDescriptor{d})
	if viaDecode {
		data := s.UpdateData()
		if s2, err := scte35.NewSCTE35(append([]byte{0}, data...)); err == nil && len(s2.Descriptors()) == 1 {
			return s2.Descriptors()[0]
		}
	}
	return d
}

// obsDesc reads the abstract view back from the real object (what is logged).
func obsDesc(d scte35.SegmentationDescriptor) Ev {
	return Ev{"type": int(d.TypeID()), "eid": []int{int(d.EventID() >> 31), int(d.EventID() & 0x7fffffff)},
		"haspts": d.SCTE35().HasPTS(), "pts": W64(uint64(d.SCTE35().PTS())),
		"segnum": int(d.SegmentNumber()), "segexp": int(d.SegmentsExpected()),
		"hassub": d.HasSubSegments(), "subnum": int(d.SubSegmentNumber()), "subexp": int(d.SubSegmentsExpected())}
}

var c19Types = []int{0x10, 0x11, 0x12, 0x13, 0x14, 0x17, 0x19, 0x20, 0x21, 0x22, 0x23, 0x30, 0x31, 0x32, 0x33, 0x34, 0x35, 0x36, 0x37, 0x3c, 0x3d, 0x40, 0x41, 0x42, 0x43, 0x44, 0x45, 0x50, 0x51, 0x00, 0x01, 0x15, 0xff}

func c19Rand(r *rand.Rand) absDesc {
	a := absDesc{Type: c19Types[r.Intn(len(c19Types))], Eid: 1 + r.Intn(2), HasPTS: r.Intn(5) != 0,
		PTS: []uint64{1000, 2000, 1 << 32, 1<<33 - 1, 0, 1000}[r.Intn(6)], SegNum: 1 + r.Intn(2), SegExp: 1 + r.Intn(2),
		SubNum: 1 + r.Intn(2), SubExp: 1 + r.Intn(2)}
	if r.Intn(3) == 0 {
		a.Type = r.Intn(256)
	}
	if r.Intn(3) == 0 {
		a.Eid = []int{0, 0x7fffffff, 0x12345678, 0x80000000, 0xffffffff}[r.Intn(5)]
	}
	if a.Type == 0x34 || a.Type == 0x36 || r.Intn(6) == 0 {
		a.HasSub = r.Intn(2) == 0
	}
	return a
}

func absToEv(a absDesc) Ev {
	return Ev{"type": a.Type, "eid": []int{a.Eid >> 31, a.Eid & 0x7fffffff}, "haspts": a.HasPTS, "pts": W64(a.PTS), "segnum": a.SegNum, "segexp": a.SegExp,
		"hassub": a.HasSub, "subnum": a.SubNum, "subexp": a.SubExp}
}

func evToAbs(v interface{}) absDesc {
	m := asMap(v)
	return absDesc{Type: GI(m["type"]), Eid: GIs(m["eid"])[0]<<31 | GIs(m["eid"])[1], HasPTS: GBool(m["haspts"]), PTS: UW64(m["pts"]),
		SegNum: GI(m["segnum"]), SegExp: GI(m["segexp"]), HasSub: GBool(m["hassub"]), SubNum: GI(m["subnum"]), SubExp: GI(m["subexp"])}
}

func (c19) Gen(tier string, seed int64, emit func([]Ev)) {
	r := rand.New(rand.NewSource(seed))
	n := 6000
	if tier == "thorough" {
		n = 80000
	}
	for i := 0; i < n; i++ {
		a := c19Rand(r)
		b := c19Rand(r)
		c := c19Rand(r)
		switch i % 4 {
		case 0: // b equal to a up to fields the relation ignores
			b = a
			if !a.HasSub {
				b.SubNum, b.SubExp = 1+r.Intn(2), 1+r.Intn(2)
			}
		case 1: // b differs from a in exactly one compared field
			b = a
			switch r.Intn(8) {
			case 7: // only one of the two signals has a PTS (the time value itself is the same)
				a.HasPTS, b.HasPTS = true, false
				if r.Intn(2) == 0 {
					a.HasPTS, b.HasPTS = false, true
				}
			case 0:
				b.Eid = a.Eid + 1
			case 1:
				b.PTS = a.PTS + 1
			case 2:
				b.SegNum = a.SegNum + 1
			case 3:
				b.SegExp = a.SegExp + 1
			case 4:
				b.HasSub = !a.HasSub
			case 5:
				b.SubNum = a.SubNum + 1
			case 6:
				b.SubExp = a.SubExp + 1
			}
		case 3:
			if i%8 == 3 {
				// b differs from a in two compared fields whose differences could cancel in a packed or summed key: event id up
				// by one with the time down by 2^32 (or 1), segment number up with segments expected down, ...
				b = a
				a.HasPTS, b.HasPTS = true, true
				switch r.Intn(4) {
				case 0:
					a.PTS = (1 << 32) + uint64(r.Intn(1<<20))
					b.PTS, b.Eid = a.PTS-(1<<32), a.Eid+1
				case 1:
					a.PTS = uint64(1 + r.Intn(1<<20))
					b.PTS, b.Eid = a.PTS-1, a.Eid+1
				case 2:
					a.SegExp = 1 + r.Intn(200)
					b.SegNum, b.SegExp = a.SegNum+1, a.SegExp-1
				default:
					a.PTS = (1 << 32) + uint64(r.Intn(1<<20))
					b.PTS, b.SegNum = a.PTS-(1<<32), a.SegNum+1
				}
			}
		case 2: // chain a = b = c candidates
			b = a
			c = a
			if r.Intn(2) == 0 {
				c.SubExp = a.SubExp + 1
			}
		}
		emit([]Ev{{"op": "triple", "ia": absToEv(a), "ib": absToEv(b), "ic": absToEv(c), "seed": int(r.Int31()), "dec": i%2 == 1}})
	}
}

func (c19) Exec(h []Ev) []Ev {
	for _, e := range h {
		r := rand.New(rand.NewSource(int64(GI(e["seed"]))))
		dec := GBool(e["dec"])
		e["panic"] = guard(func() {
			a := mkDesc(evToAbs(e["ia"]), r, dec)
			b := mkDesc(evToAbs(e["ib"]), r, false)
			c := mkDesc(evToAbs(e["ic"]), r, dec)
			if ia, ib := evToAbs(e["ia"]), evToAbs(e["ib"]); ia.HasPTS && ib.HasPTS && ia.PTS == ib.PTS && r.Intn(2) == 0 {
				// both descriptors are carried by one signal (same time): the relations are the same as across two signals
				if sa := a.SCTE35(); sa != nil {
					sa.SetDescriptors([]scte35.SegmentationDescriptor{a, b})
				}
			}
			e["a"], e["b"], e["c"] = obsDesc(a), obsDesc(b), obsDesc(c)
			e["eq_ab"], e["eq_ba"], e["eq_bc"], e["eq_ac"], e["eq_aa"] = a.Equal(b), b.Equal(a), b.Equal(c), a.Equal(c), a.Equal(a)
			e["cc_ac"], e["cc_bc"], e["cc_ca"], e["cc_cb"], e["cc_ab"] = a.CanClose(c), b.CanClose(c), c.CanClose(a), c.CanClose(b), a.CanClose(b)
			e["in_a"], e["out_a"] = a.IsIn(), a.IsOut()
		})
	}
	return h
}

func (c19) Class(e Ev) string {
	if GS(e["panic"]) != "" {
		return "panic"
	}
	a := asMap(e["a"])
	return fmt.Sprintf("triple/t%02x/eq%v/cc%v%v", a["type"], e["eq_ab"], e["cc_ac"], e["cc_ca"])
}

func (c19) Table(rows []Ev, tier string, seed int64, rep *TableReport) {
	r := rand.New(rand.NewSource(seed))
	variants := 2
	if tier == "thorough" {
		variants = 8
	}
	if len(rows) != 256 {
		die("C19 table incomplete: %d rows", len(rows))
	}
	trueCount := 0
	for _, row := range rows {
		tick([]Ev{row})
		tin := GI(row["tin"])
		cc := row["cc"].([]interface{})
		probe := mkDesc(absDesc{Type: tin, Eid: 1, HasPTS: true, PTS: 5, SegNum: 1, SegExp: 1}, r, false)
		if probe.IsIn() != GBool(row["isin"]) {
			rep.Mismatches = append(rep.Mismatches, Ev{"op": "IsIn", "reason": "classification", "type": tin, "got": probe.IsIn()})
		}
		if probe.IsOut() != GBool(row["isout"]) {
			rep.Mismatches = append(rep.Mismatches, Ev{"op": "IsOut", "reason": "classification", "type": tin, "got": probe.IsOut()})
		}
		rep.Compared += 2
		for k, wv := range cc {
			want := wv.(bool)
			if want {
				trueCount++
			}
			tout, c := k/8, k%8
			eidEq, ptsEq, segEq := c/4 == 1, (c/2)%2 == 1, c%2 == 1
			for v := 0; v < variants; v++ {
				d := absDesc{Type: tin, Eid: 1 + r.Intn(1000), HasPTS: true, PTS: uint64(r.Int63n(1 << 33)), SegNum: 1 + r.Intn(5)}
				d.SegExp = d.SegNum
				if !segEq {
					d.SegExp = d.SegNum + 1 + r.Intn(3)
				}
				o := absDesc{Type: tout, Eid: d.Eid, HasPTS: true, PTS: d.PTS, SegNum: 1 + r.Intn(5), SegExp: 1 + r.Intn(5)}
				if !eidEq {
					o.Eid = d.Eid + 1 + r.Intn(5)
				}
				if !ptsEq {
					o.PTS = (d.PTS + 1 + uint64(r.Intn(5))) % (1 << 33)
				}
				if tin == 0x34 || tin == 0x36 {
					d.HasSub = r.Intn(2) == 0
					d.SubNum, d.SubExp = 1+r.Intn(3), 1+r.Intn(3)
				}
				if tout == 0x34 || tout == 0x36 {
					o.HasSub = r.Intn(2) == 0
					o.SubNum, o.SubExp = 1+r.Intn(3), 1+r.Intn(3)
				}
				dd := mkDesc(d, r, v%2 == 1)
				oo := mkDesc(o, r, false)
				got := dd.CanClose(oo)
				rep.Compared++
				if got != want {
					rep.Mismatches = append(rep.Mismatches, Ev{"op": "CanClose", "reason": fmt.Sprintf("in%02x-open%02x", tin, tout),
						"eidEq": eidEq, "ptsEq": ptsEq, "segNumIsExp": segEq, "got": got, "want": want})
					break
				}
			}
		}
	}
	rep.Exhaustive = true
	rep.Classes["cc/rows-true"] = trueCount
	rep.Classes["cc/rows-false"] = 256*2048 - trueCount
	rep.Classes["inout/types"] = 256
	rep.Note = "all 256x256 type pairs x 8 condition combinations, each with real descriptors built through the creation API (other fields randomised, half of them round-tripped through the encoder/decoder)"
	rep.Samples = []Ev{{"tin": 0x35, "tout": 0x34, "eidEq": true, "ptsEq": false, "segNumIsExp": true, "tlc_says": rows[0x35]["cc"].([]interface{})[0x34*8+5]}}
}
