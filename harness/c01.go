package main

import (
	"fmt"
	"math/rand"
	"sync"

	"github.com/Comcast/gots/v2/packet"
)

// C01: transport header getters/setters, CC helpers, Equal, validation, FromBytes.
type c01 struct{}

func init() { register("C01", c01{}) }

var c01Setters = []string{"tei", "pusi", "tp", "pid", "tsc", "cc"}

func c01Getters(p *packet.Packet) Ev {
	return Ev{
		"tei": p.TransportErrorIndicator(), "pusi": p.PayloadUnitStartIndicator(), "pusi_fn": packet.PayloadUnitStartIndicator(p),
		"tp": p.TransportPriority(), "pid": p.PID(), "pid_fn": packet.Pid(p),
		"tsc": int(p.TransportScramblingControl()), "afc": int(p.AdaptationFieldControl()),
		"cc": p.ContinuityCounter(), "cc_fn": int(packet.ContinuityCounter(p)),
		"haspay": p.HasPayload(), "haspay_fn": packet.ContainsPayload(p),
		"hasaf": p.HasAdaptationField(), "hasaf_fn": packet.ContainsAdaptationField(p),
		"null": p.IsNull(), "null_fn": packet.IsNull(p), "pat": p.IsPAT(), "pat_fn": packet.IsPat(p),
		"valid": p.CheckErrors() == nil,
	}
}

func c01Apply(p *packet.Packet, f string, v int) {
	switch f {
	case "tei":
		p.SetTransportErrorIndicator(v != 0)
	case "pusi":
		p.SetPayloadUnitStartIndicator(v != 0)
	case "tp":
		p.SetTransportPriority(v != 0)
	case "pid":
		p.SetPID(v)
	case "tsc":
		p.SetTransportScramblingControl(packet.TransportScramblingControlOptions(v))
	case "cc":
		p.SetContinuityCounter(v)
	}
}

func c01Range(f string) int {
	switch f {
	case "pid":
		return 8192
	case "tsc":
		return 4
	case "cc":
		return 16
	}
	return 2
}

// c01Bodies: packet bodies (bytes 4..187) that mean something to other layers of the library - PES starts of
// every kind of stream_id directly behind the header and behind adaptation fields of several lengths, PSI section
// starts behind a pointer_field, look-alike packet headers, constant fills - besides random ones: the transport
// header accessors must not look at any of it.
func c01Bodies(r *rand.Rand) []packet.Packet {
	var out []packet.Packet
	add := func(f func(p *packet.Packet)) {
		var p packet.Packet
		r.Read(p[:])
		f(&p)
		out = append(out, p)
	}
	add(func(p *packet.Packet) {})
	for _, fill := range []byte{0x00, 0xff, 0x47} {
		add(func(p *packet.Packet) {
			for i := 4; i < 188; i++ {
				p[i] = fill
			}
		})
	}
	for _, sid := range []byte{0xe0, 0xc0, 0xbc, 0xbd, 0xbe, 0xbf, 0xf0, 0xff, 0x00} {
		add(func(p *packet.Packet) { copy(p[4:], []byte{0, 0, 1, sid, 0, 0, 0x84, 0x80, 5, 0x21, 0, 1, 0, 1}) })
		for _, afl := range []int{0, 1, 7, 100, 179} {
			add(func(p *packet.Packet) {
				p[4] = byte(afl)
				if afl > 0 {
					p[5] = 0x10 * byte(r.Intn(2))
				}
				copy(p[5+afl:], []byte{0, 0, 1, sid})
			})
		}
	}
	add(func(p *packet.Packet) { copy(p[4:], []byte{0, 0, 0xb0, 0x0d, 0, 1, 0xc1, 0, 0, 0, 1, 0xe1, 0}) })
	add(func(p *packet.Packet) { copy(p[4:], []byte{0, 2, 0xb0, 0x12, 0, 1, 0xc1, 0, 0, 0xe1, 0, 0xf0, 0}) })
	add(func(p *packet.Packet) { copy(p[4:], []byte{0, 0xfc, 0x30, 0x11, 0, 0, 0, 0, 0, 0, 0, 0xff, 0xf0}) })
	add(func(p *packet.Packet) { copy(p[4:], []byte{183, 0x10, 0, 0, 0, 0, 0x7e, 0}) })
	add(func(p *packet.Packet) {
		for i := 4; i+4 <= 188; i += 4 {
			copy(p[i:], []byte{0x47, 0x40, 0x00, 0x10})
		}
	})
	// adaptation fields whose optional fields end exactly on the last byte of the packet, one short of it and one past it
	// (length 183 / 182 / 184 / 255; private data or extension whose own length byte makes the sum): validation looks at
	// the header alone
	for _, al := range []int{183, 182, 184, 255, 0, 1} {
		for _, fl := range []byte{0x02, 0x01, 0x12, 0x0a, 0x1a, 0x00} {
			for _, d := range []int{-1, 0, 1} {
				add(func(p *packet.Packet) {
					p[4], p[5] = byte(al), fl
					off := 6
					if fl&0x10 != 0 {
						off += 6
					}
					if fl&0x08 != 0 {
						off += 6
					}
					if v := 188 - (off + 1) + d; v >= 0 && v < 256 {
						p[off] = byte(v) // the length byte of the first variable-length field
					}
				})
			}
		}
	}
	return out
}

func (c01) Gen(tier string, seed int64, emit func([]Ev)) {
	r := rand.New(rand.NewSource(seed))
	n := 600
	if tier == "thorough" {
		n = 8000
	}
	bodies := c01Bodies(r)
	for i := 0; i < n; i++ {
		var p packet.Packet
		r.Read(p[:])
		if i%4 == 1 {
			copy(p[4:], bodies[(i/4)%len(bodies)][4:])
		}
		if i%3 == 0 {
			p[0] = 0x47
		}
		if i%50 == 0 {
			p[1], p[2] = 0x1f, 0xff
		}
		if i%50 == 1 {
			p[1], p[2] = p[1]&0xe0, 0
		}
		var h []Ev
		h = append(h, Ev{"op": "get", "before": B(p[:])})
		steps := 1 + r.Intn(6)
		for s := 0; s < steps; s++ {
			switch r.Intn(8) {
			case 0:
				h = append(h, Ev{"op": "ccfn", "kind": []string{"IncrementCC", "ZeroCC", "SetCC", "IncM", "ZeroM"}[r.Intn(5)], "v": r.Intn(16)})
			default:
				f := c01Setters[r.Intn(len(c01Setters))]
				v := r.Intn(c01Range(f))
				if f == "pid" && r.Intn(3) == 0 {
					v = []int{0, 1, 255, 256, 0x1000, 0x1fff, 0x1ffe, 0x0fff}[r.Intn(8)]
				}
				h = append(h, Ev{"op": "set", "f": f, "v": v})
			}
		}
		emit(h)
	}
}

// Exec: the packet state is threaded through the history; every event logs
// the complete 188 bytes before and after the call.
func (c01) Exec(h []Ev) []Ev {
	var p packet.Packet
	for i, e := range h {
		if i == 0 {
			copy(p[:], GB(e["before"]))
		}
		e["before"] = B(p[:])
		e["panic"] = guard(func() {
			switch GS(e["op"]) {
			case "get":
			case "set":
				c01Apply(&p, GS(e["f"]), GI(e["v"]))
			case "ccfn":
				arg := p
				var res *packet.Packet
				switch GS(e["kind"]) {
				case "IncrementCC":
					res = packet.IncrementCC(&arg)
				case "ZeroCC":
					res = packet.ZeroCC(&arg)
				case "SetCC":
					res = packet.SetCC(&arg, uint8(GI(e["v"])))
				case "IncM":
					res = &packet.Packet{}
					*res = arg
					res.IncContinuityCounter()
				case "ZeroM":
					res = &packet.Packet{}
					*res = arg
					res.ZeroContinuityCounter()
				}
				e["arg_same"] = arg == p
				e["aliased"] = res == &arg
				p = *res
			}
		})
		e["after"] = B(p[:])
		e["g"] = c01Getters(&p)
	}
	return h
}

func (c01) Class(e Ev) string {
	switch GS(e["op"]) {
	case "set":
		b := GB(e["before"])
		a := GB(e["after"])
		ch := "same"
		if string(a) != string(b) {
			ch = "changed"
		}
		v := GI(e["v"])
		vc := "mid"
		if v == 0 {
			vc = "zero"
		} else if v == c01Range(GS(e["f"]))-1 {
			vc = "max"
		}
		return "set/" + GS(e["f"]) + "/" + vc + "/" + ch
	case "ccfn":
		return "ccfn/" + GS(e["kind"]) + fmt.Sprintf("/cc%d", GB(e["before"])[3]&0x0f)
	case "get":
		return fmt.Sprintf("get/afc%d", GB(e["before"])[3]>>4&3)
	}
	return ""
}

// ---- B1: exhaustive comparison with the TLC-emitted getter tables ----

type c01Tab struct {
	tei, pusi, tp       [256]int
	pid                 [256][256]int
	null, pat           [256][256]bool
	tsc, afc, cc        [256]int
	haspay, hasaf       [256]bool
	valid47, validother [256]bool
	inccc, zerocc       [256]int
	setcc               [256][16]int
	haveB12, haveB3     [256]bool
}

func (c01) Table(rows []Ev, tier string, seed int64, rep *TableReport) {
	var t c01Tab
	for _, r := range rows {
		tick([]Ev{r})
		switch GS(r["t"]) {
		case "b12":
			b1 := GI(r["b1"])
			t.haveB12[b1] = true
			t.tei[b1], t.pusi[b1], t.tp[b1] = GI(r["tei"]), GI(r["pusi"]), GI(r["tp"])
			for i, v := range GIs(r["pid"]) {
				t.pid[b1][i] = v
			}
			for i, v := range r["null"].([]interface{}) {
				t.null[b1][i] = v.(bool)
			}
			for i, v := range r["pat"].([]interface{}) {
				t.pat[b1][i] = v.(bool)
			}
		case "b3":
			b3 := GI(r["b3"])
			t.haveB3[b3] = true
			t.tsc[b3], t.afc[b3], t.cc[b3] = GI(r["tsc"]), GI(r["afc"]), GI(r["cc"])
			t.haspay[b3], t.hasaf[b3] = GBool(r["haspay"]), GBool(r["hasaf"])
			t.valid47[b3], t.validother[b3] = GBool(r["valid47"]), GBool(r["validother"])
			t.inccc[b3], t.zerocc[b3] = GI(r["inccc"]), GI(r["zerocc"])
			for i, v := range GIs(r["setcc"]) {
				t.setcc[b3][i] = v
			}
		}
	}
	for i := 0; i < 256; i++ {
		if !t.haveB12[i] || !t.haveB3[i] {
			die("C01 table incomplete at %d", i)
		}
	}
	thorough := tier == "thorough"
	var mu sync.Mutex
	bad := func(op, reason string, p *packet.Packet, extra Ev) {
		mu.Lock()
		defer mu.Unlock()
		if len(rep.Mismatches) < 200 {
			e := Ev{"op": op, "reason": reason, "hdr": B(p[:4])}
			for k, v := range extra {
				e[k] = v
			}
			rep.Mismatches = append(rep.Mismatches, e)
		}
	}
	var compared int64
	addc := func(n int64) { mu.Lock(); compared += n; mu.Unlock() }
	cls := func(k string, n int) { mu.Lock(); rep.Classes[k] += n; mu.Unlock() }

	b2set := func(b1 int) []int { // b2 values explored per b1
		if thorough {
			all := make([]int, 256)
			for i := range all {
				all[i] = i
			}
			return all
		}
		return []int{0, 1, 2, 3, 0x0f, 0x10, 0x55, 0x7f, 0x80, 0xaa, 0xf0, 0xfe, 0xff, (b1 * 7) & 0xff, (b1*13 + 5) & 0xff, (b1 ^ 0x5a)}
	}

	var wg sync.WaitGroup
	for w := 0; w < 16; w++ {
		wg.Add(1)
		go func(w int) {
			defer wg.Done()
			r := rand.New(rand.NewSource(seed*100 + int64(w)))
			var body packet.Packet
			r.Read(body[:])
			bodies := c01Bodies(r)
			var n int64
			for b1 := w; b1 < 256; b1 += 16 {
				// getters: every (b1,b2) x every b3 (b3 sampled 16 in quick), over bodies that mean something elsewhere
				for b2 := 0; b2 < 256; b2++ {
					b3step := 16
					if thorough {
						b3step = 1
					}
					for b3 := (b1 + b2) % b3step; b3 < 256; b3 += b3step {
						p := bodies[(b1*7+b2*3+b3/b3step)%len(bodies)]
						p[0] = byte(r.Intn(256))
						p[1], p[2], p[3] = byte(b1), byte(b2), byte(b3)
						g := c01Getters(&p)
						chk := func(name string, got interface{}, want interface{}) {
							if fmt.Sprint(got) != fmt.Sprint(want) {
								bad("get", name, &p, Ev{"got": fmt.Sprint(got), "want": fmt.Sprint(want)})
							}
						}
						chk("tei", g["tei"], t.tei[b1] == 1)
						chk("pusi", g["pusi"], t.pusi[b1] == 1)
						chk("pusi_fn", g["pusi_fn"], t.pusi[b1] == 1)
						chk("tp", g["tp"], t.tp[b1] == 1)
						chk("pid", g["pid"], t.pid[b1][b2])
						chk("pid_fn", g["pid_fn"], t.pid[b1][b2])
						chk("null", g["null"], t.null[b1][b2])
						chk("null_fn", g["null_fn"], t.null[b1][b2])
						chk("pat", g["pat"], t.pat[b1][b2])
						chk("pat_fn", g["pat_fn"], t.pat[b1][b2])
						chk("tsc", g["tsc"], t.tsc[b3])
						chk("afc", g["afc"], t.afc[b3])
						chk("cc", g["cc"], t.cc[b3])
						chk("cc_fn", g["cc_fn"], t.cc[b3])
						chk("haspay", g["haspay"], t.haspay[b3])
						chk("haspay_fn", g["haspay_fn"], t.haspay[b3])
						chk("hasaf", g["hasaf"], t.hasaf[b3])
						chk("hasaf_fn", g["hasaf_fn"], t.hasaf[b3])
						want := t.validother[b3]
						if p[0] == 0x47 {
							want = t.valid47[b3]
						}
						chk("valid", g["valid"], want)
						n += 19
					}
				}
				// setters: every value of the affected byte(s) x every in-range value
				for _, b2 := range b2set(b1) {
					b3 := r.Intn(256)
					base := body
					base[0] = byte(r.Intn(256))
					base[1], base[2], base[3] = byte(b1), byte(b2), byte(b3)
					frame := func(op string, v int, q *packet.Packet) {
						a1, a2, a3 := int(q[1]), int(q[2]), int(q[3])
						ok := true
						fld := func(name string, got, before int) {
							want := before
							if name == op {
								want = v
							}
							if got != want {
								ok = false
								bad("set-"+op, "field-"+name, &base, Ev{"v": v, "after": B(q[:4])})
							}
						}
						fld("tei", t.tei[a1], t.tei[b1])
						fld("pusi", t.pusi[a1], t.pusi[b1])
						fld("tp", t.tp[a1], t.tp[b1])
						fld("pid", t.pid[a1][a2], t.pid[b1][b2])
						fld("tsc", t.tsc[a3], t.tsc[b3])
						fld("afc", t.afc[a3], t.afc[b3])
						fld("cc", t.cc[a3], t.cc[b3])
						if q[0] != base[0] {
							bad("set-"+op, "sync-changed", &base, Ev{"v": v})
						}
						tmp := *q
						tmp[0], tmp[1], tmp[2], tmp[3] = base[0], base[1], base[2], base[3]
						if tmp != base {
							bad("set-"+op, "body-changed", &base, Ev{"v": v})
						}
						_ = ok
						n++
					}
					for _, f := range []string{"tei", "pusi", "tp"} {
						for v := 0; v < 2; v++ {
							q := base
							c01Apply(&q, f, v)
							frame(f, v, &q)
						}
					}
					for v := 0; v < 8192; v++ {
						q := base
						q.SetPID(v)
						frame("pid", v, &q)
					}
				}
			}
			// byte 3 setters and CC helpers: every b3 x every value
			for b3 := w; b3 < 256; b3 += 16 {
				for rep3 := 0; rep3 < 8; rep3++ {
					base := body
					r.Read(base[:3])
					base[3] = byte(b3)
					b1, b2 := int(base[1]), int(base[2])
					same := func(op string, q *packet.Packet, want3 int) {
						tmp := *q
						tmp[3] = base[3]
						if tmp != base {
							bad(op, "other-bytes-changed", &base, Ev{"after": B(q[:4])})
						}
						if int(q[3]) != want3 {
							bad(op, "byte3", &base, Ev{"after": B(q[:4]), "want3": want3})
						}
						n++
					}
					for v := 0; v < 4; v++ {
						q := base
						q.SetTransportScramblingControl(packet.TransportScramblingControlOptions(v))
						if t.tsc[q[3]] != v || t.afc[q[3]] != t.afc[b3] || t.cc[q[3]] != t.cc[b3] {
							bad("set-tsc", "field", &base, Ev{"v": v, "after": B(q[:4])})
						}
						same("set-tsc", &q, int(q[3]))
					}
					for v := 0; v < 16; v++ {
						q := base
						q.SetContinuityCounter(v)
						same("set-cc", &q, t.setcc[b3][v])
						arg := base
						res := packet.SetCC(&arg, uint8(v))
						if arg != base {
							bad("SetCC", "argument-modified", &base, Ev{"v": v})
						}
						same("SetCC", res, t.setcc[b3][v])
					}
					arg := base
					res := packet.IncrementCC(&arg)
					if arg != base || res == &arg {
						bad("IncrementCC", "argument-modified", &base, nil)
					}
					same("IncrementCC", res, t.inccc[b3])
					arg = base
					res = packet.ZeroCC(&arg)
					if arg != base || res == &arg {
						bad("ZeroCC", "argument-modified", &base, nil)
					}
					same("ZeroCC", res, t.zerocc[b3])
					q := base
					q.IncContinuityCounter()
					same("IncContinuityCounter", &q, t.inccc[b3])
					q = base
					q.ZeroContinuityCounter()
					same("ZeroContinuityCounter", &q, t.zerocc[b3])
					_, _ = b1, b2
				}
			}
			addc(n)
		}(w)
	}
	wg.Wait()
	cls("getters/all-b1-b2", 65536)
	cls("setters/bool-fields", 256*6)
	cls("setters/pid-all-values", 8192)
	cls("byte3/all-values", 256)

	// Equal / Equals: identical copies, every single-bit difference
	r := rand.New(rand.NewSource(seed))
	for k := 0; k < 4; k++ {
		var a packet.Packet
		r.Read(a[:])
		b := a
		if !packet.Equal(&a, &b) || !a.Equals(&b) || !packet.Equal(&a, &a) {
			bad("Equal", "identical-not-equal", &a, nil)
		}
		for bit := 0; bit < 188*8; bit++ {
			c := a
			c[bit/8] ^= 1 << uint(bit%8)
			if packet.Equal(&a, &c) || a.Equals(&c) || packet.Equal(&c, &a) {
				bad("Equal", "different-equal", &a, Ev{"bit": bit})
			}
			compared++
		}
	}
	cls("equal/single-bit", 1504)
	// packets with particular headers (null packet, PAT, adaptation field only, ...) that differ in one byte behind the header
	for _, hdr := range [][4]byte{{0x47, 0x1f, 0xff, 0x10}, {0x47, 0x1f, 0xff, 0x1f}, {0x47, 0x00, 0x00, 0x10}, {0x47, 0x40, 0x00, 0x10},
		{0x47, 0x1f, 0xff, 0x20}, {0x47, 0x1f, 0xff, 0x30}, {0x47, 0x00, 0x01, 0x10}, {0x00, 0x00, 0x00, 0x00}, {0xff, 0xff, 0xff, 0xff}} {
		for _, fill := range []byte{0xff, 0x00} {
			var a packet.Packet
			for i := range a {
				a[i] = fill
			}
			copy(a[:], hdr[:])
			for pos := 4; pos < 188; pos++ {
				c := a
				c[pos] ^= 1 << uint(pos%8)
				if packet.Equal(&a, &c) || a.Equals(&c) || packet.Equal(&c, &a) {
					bad("Equal", "different-equal-special-header", &a, Ev{"pos": pos})
				}
				compared++
			}
		}
	}
	cls("equal/special-headers", 9)
	// differences that a checksum-like comparison would cancel: the same bit / byte / word changed at two places
	// (every pair of byte positions for one bit; xor, +d/-d and swapped groups of 1, 2, 4 and 8 bytes)
	{
		var a packet.Packet
		r.Read(a[:])
		differ := func(c *packet.Packet, what string, x, y int) {
			if *c == a {
				return // the change happened to be the identity
			}
			if packet.Equal(&a, c) || a.Equals(c) || packet.Equal(c, &a) {
				bad("Equal", "different-equal-"+what, &a, Ev{"x": x, "y": y})
			}
			compared++
		}
		for x := 0; x < 188; x++ {
			for y := x + 1; y < 188; y++ {
				c := a
				m := byte(1) << uint((x+y)%8)
				c[x] ^= m
				c[y] ^= m
				differ(&c, "same-bit-twice", x, y)
				d := a
				d[x] += 3
				d[y] -= 3
				differ(&d, "plus-minus", x, y)
			}
		}
		for _, w := range []int{1, 2, 4, 8} {
			for x := 0; x+w <= 188; x += w {
				for y := x + w; y+w <= 188; y += w {
					c := a
					for k := 0; k < w; k++ {
						c[x+k], c[y+k] = a[y+k], a[x+k]
					}
					differ(&c, "swapped-groups", x, y)
				}
			}
		}
		cls("equal/cancelling-differences", 2)
	}
	// FromBytes: only exactly 188 bytes construct a packet
	for ln2 := 0; ln2 <= 801; ln2++ {
		// every length 0..400, once as a slice of its own and once as the front of a 4096-byte buffer (a short read into a
		// reused buffer): the length of the slice counts, not what its backing array could hold
		ln := ln2 / 2
		buf := make([]byte, ln)
		if ln2%2 == 1 {
			big := make([]byte, 4096)
			r.Read(big)
			big[0], big[3] = 0x47, 0x10
			buf = big[:ln]
		}
		r.Read(buf)
		if ln > 3 {
			buf[0], buf[3] = 0x47, 0x10
		}
		keep := append([]byte(nil), buf...)
		p, err := packet.FromBytes(buf)
		if ln != 188 {
			if p != nil || err == nil {
				bad("FromBytes", "wrong-length-accepted", &packet.Packet{}, Ev{"len": ln})
			}
		} else {
			if p == nil || err != nil || string(p[:]) != string(keep) {
				bad("FromBytes", "188-rejected-or-altered", &packet.Packet{}, Ev{"len": ln})
			}
		}
		if string(buf) != string(keep) {
			bad("FromBytes", "input-modified", &packet.Packet{}, Ev{"len": ln})
		}
		compared++
	}
	// FromBytes validation outcome for every (b0 in {0x47, other}, b3)
	for b3 := 0; b3 < 256; b3++ {
		for _, b0 := range []int{0x47, 0x46, 0x00, 0xff} {
			var buf [188]byte
			buf[0], buf[3] = byte(b0), byte(b3)
			_, err := packet.FromBytes(buf[:])
			want := t.validother[b3]
			if b0 == 0x47 {
				want = t.valid47[b3]
			}
			if (err == nil) != want {
				bad("FromBytes", "validation", &packet.Packet{byte(b0), 0, 0, byte(b3)}, nil)
			}
			compared++
		}
	}
	cls("frombytes/lengths", 401)
	// CopyPackets independence
	{
		var a, b packet.Packet
		r.Read(a[:])
		r.Read(b[:])
		in := []*packet.Packet{&a, &b}
		out := packet.CopyPackets(in)
		if len(out) != 2 || *out[0] != a || *out[1] != b || out[0] == &a || out[1] == &b {
			bad("CopyPackets", "not-independent-copy", &a, nil)
		}
		compared++
	}
	rep.Compared = compared
	rep.Exhaustive = thorough
	rep.Note = "getters: every (b1,b2) x b3 (all 256 in thorough, 16 per pair in quick); setters: every in-range value x every b1 x b2 set (all 256 in thorough, 16 in quick); byte 3: all values"
	rep.Samples = []Ev{{"table_row_b12_b1": 0x1f, "pid_at_b2_255": t.pid[0x1f][255], "null": t.null[0x1f][255]}, {"table_row_b3": 0x9f, "tsc": t.tsc[0x9f], "afc": t.afc[0x9f], "cc": t.cc[0x9f], "inccc": t.inccc[0x9f]}}
}
