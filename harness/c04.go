package main

import (
	"fmt"
	"math/rand"

	gots "github.com/Comcast/gots/v2"
	"github.com/Comcast/gots/v2/packet"
	"github.com/Comcast/gots/v2/packet/adaptationfield"
	"github.com/Comcast/gots/v2/pes"
)

// C04: PCR and PTS/DTS codecs.
type c04 struct{}

func init() { register("C04", c04{}) }

const pcrLimit = uint64(1<<33) * 300

func c04Priors(r *rand.Rand, n int) [][]byte {
	a, b, c := make([]byte, n), make([]byte, n), make([]byte, n)
	for i := range b {
		b[i] = 0xff
	}
	r.Read(c)
	return [][]byte{a, b, c}
}

func (c04) Gen(tier string, seed int64, emit func([]Ev)) {
	r := rand.New(rand.NewSource(seed))
	nrand := 300
	bases := 12
	if tier == "thorough" {
		nrand = 100000
		bases = 64
	}
	// PCR values: single-bit and 2^k-1 bases, every ext for sampled bases, limits, random
	var pcrs []uint64
	for k := 0; k < 33; k++ {
		pcrs = append(pcrs, (uint64(1)<<uint(k))*300, ((uint64(1)<<uint(k+1))-1)*300+299, (uint64(1)<<uint(k))*300+uint64(r.Intn(300)))
	}
	for b := 0; b < bases; b++ {
		base := uint64(r.Int63n(1 << 33))
		for ext := uint64(0); ext < 300; ext++ {
			if tier != "thorough" && ext%7 != uint64(b%7) && ext > 3 && ext < 296 && ext != 255 && ext != 256 {
				continue
			}
			pcrs = append(pcrs, base*300+ext)
		}
	}
	pcrs = append(pcrs, 0, 1, 299, 300, 301, pcrLimit-1, pcrLimit-2, pcrLimit-300, pcrLimit-301)
	for i := 0; i < nrand; i++ {
		pcrs = append(pcrs, uint64(r.Int63n(int64(pcrLimit))))
	}
	for i, v := range pcrs {
		pr := c04Priors(r, 8)
		// every other call hands the writer the whole 8-byte buffer (a slice that goes on behind the field, as pkt[6:] does)
		emit([]Ev{{"op": "inspcr", "v": W64(v), "prior": B(pr[i%3]), "whole": i/3%2 == 1}})
	}
	// PTS values
	var ptss []uint64
	for k := 0; k < 33; k++ {
		ptss = append(ptss, uint64(1)<<uint(k), (uint64(1)<<uint(k+1))-1, (uint64(1)<<uint(k))+uint64(r.Int63n(1<<uint(k)+1))%(1<<uint(k)))
	}
	ptss = append(ptss, 0, 1<<33-1, 1<<15-1, 1<<15, 1<<30-1, 1<<30)
	for i := 0; i < nrand; i++ {
		ptss = append(ptss, uint64(r.Int63n(1<<33)))
	}
	for i, v := range ptss {
		pr := c04Priors(r, 7)
		emit([]Ev{{"op": "inspts", "v": W64(v), "prior": B(pr[i%3]), "whole": i/3%2 == 1}})
	}
	// end to end: the same values set on an adaptation field (PCR, OPCR, both) and carried in a PES header (the
	// library's own WithPES option; a PES header with PTS and DTS read by the header decoder with DTS asked first
	// or PTS asked first)
	e2e := 150
	if tier == "thorough" {
		e2e = 4000
	}
	edgeP := []uint64{0, 1, 1<<33 - 1, 1<<33 - 2, 1 << 32, 1<<32 - 1, 1 << 15, 1<<15 - 1, 1 << 30, 1<<30 - 1}
	edgeC := []uint64{0, 1, 299, 300, pcrLimit - 1, pcrLimit - 300, pcrLimit - 301, (1<<32)*300 + 299, (1<<32 - 1) * 300}
	for i := 0; i < e2e+len(edgeP)*3; i++ {
		v, w := uint64(r.Int63n(1<<33)), uint64(r.Int63n(1<<33))
		if i < len(edgeP)*3 {
			v, w = edgeP[i%len(edgeP)], edgeP[(i/len(edgeP)+i)%len(edgeP)]
		} else if i%4 == 0 {
			v = uint64(1)<<uint(1+r.Intn(33)) - 1
		}
		emit([]Ev{{"op": "e2e_withpes", "v": W64(v), "pid": r.Intn(8192)}})
		sid := []int{0xe0, 0xc0, 0xbd}[r.Intn(3)]
		if i%3 == 0 { // any stream_id that carries the optional header
			for sid = r.Intn(256); c11NoOpt[sid]; sid = r.Intn(256) {
			}
		}
		emit([]Ev{{"op": "e2e_pes", "v": W64(v), "w": W64(w), "dtsfirst": i%2 == 0, "sid": sid}})
	}
	for sid := 0; sid < 256; sid++ { // every stream_id that carries the optional header
		if !c11NoOpt[sid] {
			emit([]Ev{{"op": "e2e_pes", "v": W64(uint64(r.Int63n(1 << 33))), "w": W64(uint64(r.Int63n(1 << 33))), "dtsfirst": sid%2 == 0, "sid": sid}})
		}
	}
	for i := 0; i < e2e+len(edgeC)*3; i++ {
		v, w := uint64(r.Int63n(int64(pcrLimit))), uint64(r.Int63n(int64(pcrLimit)))
		if i < len(edgeC)*3 {
			v, w = edgeC[i%len(edgeC)], edgeC[(i/len(edgeC)+i)%len(edgeC)]
		}
		extra := []string{"", "", "splice-on", "splice-off", "tpd-on"}[r.Intn(5)]
		aflen := []int{183, 20, 13, 100}[r.Intn(4)]
		if extra != "" && aflen == 13 {
			aflen = 40
		}
		// what the slot holds before the value is set: filler, random bytes, or another encoding of the same value
		// (reserved bits cleared) as a re-stamped packet may carry
		emit([]Ev{{"op": "e2e_pcr", "v": W64(v), "w": W64(w), "which": []string{"pcr", "opcr", "both", "both-opcr-first"}[i%4], "aflen": aflen,
			"extra": extra, "prior": []string{"ff", "random", "alias", "onebyte", "onebyte"}[r.Intn(5)], "fill": B(rndBytes(r, 12))}})
	}
	// decoding arbitrary bytes, and the same bytes with one reserved / marker / prefix bit flipped
	for i := 0; i < nrand/2+40; i++ {
		b := make([]byte, 6)
		r.Read(b)
		emit([]Ev{{"op": "extpcr", "bytes": B(b)}})
		f := append([]byte(nil), b...)
		f[4] ^= 0x02 << uint(r.Intn(6)) // one of the six reserved bits
		emit([]Ev{{"op": "extpcr", "bytes": B(f)}})
		t := make([]byte, 5)
		r.Read(t)
		emit([]Ev{{"op": "exttime", "bytes": B(t)}})
		g := append([]byte(nil), t...)
		switch r.Intn(4) {
		case 0:
			g[0] ^= 0x10 << uint(r.Intn(4))
		case 1:
			g[0] ^= 1
		case 2:
			g[2] ^= 1
		default:
			g[4] ^= 1
		}
		emit([]Ev{{"op": "exttime", "bytes": B(g)}})
		// the field at the front of a longer slice (the rest of a header, of an adaptation field): only the first
		// five (six) bytes count
		emit([]Ev{{"op": "exttime", "bytes": B(append(append([]byte(nil), t...), rndBytes(r, 1+r.Intn(12))...))}})
		emit([]Ev{{"op": "extpcr", "bytes": B(append(append([]byte(nil), b...), rndBytes(r, 1+r.Intn(12))...))}})
	}
}

// gotsInsertPCR: harness-side PCR writer (inputs only).
func gotsInsertPCR(b []byte, v uint64) {
	base, ext := v/300, v%300
	b[0], b[1], b[2], b[3] = byte(base>>25), byte(base>>17), byte(base>>9), byte(base>>1)
	b[4] = byte(base&1)<<7 | 0x7e | byte(ext>>8)
	b[5] = byte(ext)
}

func (c04) Exec(h []Ev) []Ev {
	for _, e := range h {
		e["panic"] = guard(func() {
			switch GS(e["op"]) {
			case "inspcr":
				buf := GB(e["prior"])
				if GBool(e["whole"]) {
					gots.InsertPCR(buf, UW64(e["v"]))
				} else {
					gots.InsertPCR(buf[:6], UW64(e["v"]))
				}
				e["after"] = B(buf)
				e["back"] = W64(gots.ExtractPCR(buf[:6]))
			case "inspts":
				buf := GB(e["prior"])
				if GBool(e["whole"]) {
					gots.InsertPTS(buf, UW64(e["v"]))
				} else {
					gots.InsertPTS(buf[:5], UW64(e["v"]))
				}
				e["after"] = B(buf)
				e["back_gots"] = W64(gots.ExtractTime(buf[:5]))
				e["back_pes"] = W64(pes.ExtractTime(buf[:5]))
				e["back_gots_whole"] = W64(gots.ExtractTime(buf)) // the same field read from the whole buffer (two more bytes behind it)
				e["back_pes_whole"] = W64(pes.ExtractTime(buf))
			case "e2e_withpes":
				v := UW64(e["v"])
				p := packet.Create(GI(e["pid"]), packet.WithPUSI, func(q *packet.Packet) { packet.WithPES(q, v) })
				e["pkt"] = B(p[:])
				e["haspts"], e["back"], e["back_gots"], e["back_pes"] = false, W64(0), W64(0), W64(0)
				if hb, err := packet.PESHeader(p); err == nil && len(hb) >= 14 {
					e["back_gots"], e["back_pes"] = W64(gots.ExtractTime(hb[9:14])), W64(pes.ExtractTime(hb[9:14]))
					if hd, herr := pes.NewPESHeader(hb); herr == nil {
						e["haspts"], e["back"] = hd.HasPTS(), W64(hd.PTS())
					}
				}
			case "e2e_pes":
				v, w := UW64(e["v"]), UW64(e["w"])
				b := []byte{0, 0, 1, byte(GI(e["sid"])), 0, 0, 0x80, 0xc0, 10, 0, 0, 0, 0, 0, 0, 0, 0, 0, 0, 0xaa, 0xbb}
				gots.InsertPTS(b[9:14], v)
				gots.InsertPTS(b[14:19], w)
				if GI(e["sid"])%2 == 1 {
					b[5] = byte(len(b) - 6) // PES_packet_length counts what follows (0, as written above, means unbounded)
				}
				e["bytes"] = B(b)
				e["haspts"], e["hasdts"], e["pts"], e["dts"] = false, false, W64(0), W64(0)
				if hd, err := pes.NewPESHeader(b); err == nil {
					if GBool(e["dtsfirst"]) {
						e["dts"], e["hasdts"] = W64(hd.DTS()), hd.HasDTS()
						e["pts"], e["haspts"] = W64(hd.PTS()), hd.HasPTS()
					} else {
						e["pts"], e["haspts"] = W64(hd.PTS()), hd.HasPTS()
						e["dts"], e["hasdts"] = W64(hd.DTS()), hd.HasDTS()
					}
				}
			case "e2e_pcr":
				v, w := UW64(e["v"]), UW64(e["w"])
				var p packet.Packet
				for i := range p {
					p[i] = 0xff
				}
				p[0], p[1], p[2], p[3], p[4], p[5] = 0x47, 0x01, 0x00, 0x30, byte(GI(e["aflen"])), 0
				if GI(e["aflen"]) == 183 {
					p[3] = 0x20
				}
				af, err := p.AdaptationField()
				if err != nil {
					panic("harness: no adaptation field")
				}
				which := GS(e["which"])
				e["setter_err"] = ""
				step := func(err error) { // (every call here fits: a refusal is the library's answer, reported to the specification)
					if err != nil && GS(e["setter_err"]) == "" {
						e["setter_err"] = err.Error()
					}
				}
				fill := GB(e["fill"])
				// prior: what the six bytes of the slot hold when the value is set
				prior := func(off int, val uint64, k int) {
					switch GS(e["prior"]) {
					case "random":
						copy(p[off:off+6], fill[k:k+6])
					case "alias":
						gotsInsertPCR(p[off:off+6], val)
						p[off+4] &^= 0x7e
					case "onebyte":
						// the canonical encoding of the value with exactly one of its six bytes different (for the first byte that
						// is a value 2^25 * 300 * k away): the whole field must be written
						gotsInsertPCR(p[off:off+6], val)
						p[off+int(fill[k])%6] ^= 1 + fill[k+1]%255
					}
				}
				pcrOff, opcrOff := 6, 6
				if which != "opcr" {
					opcrOff = 12
				}
				if GS(e["extra"]) == "splice-off" {
					step(af.SetHasSplicingPoint(true))
				}
				switch which {
				case "pcr":
					step(af.SetHasPCR(true))
					prior(pcrOff, v, 0)
					step(af.SetPCR(v))
				case "opcr":
					step(af.SetHasOPCR(true))
					prior(opcrOff, w, 6)
					step(af.SetOPCR(w))
				case "both":
					step(af.SetHasPCR(true))
					prior(pcrOff, v, 0)
					step(af.SetPCR(v))
					step(af.SetHasOPCR(true))
					prior(opcrOff, w, 6)
					step(af.SetOPCR(w))
				default:
					step(af.SetHasOPCR(true))
					prior(6, w, 6)
					step(af.SetOPCR(w))
					step(af.SetHasPCR(true))
					prior(pcrOff, v, 0)
					step(af.SetPCR(v))
				}
				// other optional fields switched on or off afterwards: the values stay where they are
				switch GS(e["extra"]) {
				case "splice-on":
					step(af.SetHasSplicingPoint(true))
					step(af.SetSpliceCountdown(5))
				case "splice-off":
					step(af.SetHasSplicingPoint(false))
				case "tpd-on":
					step(af.SetHasTransportPrivateData(true))
				}
				e["pkt"] = B(p[:])
				bp, e1 := af.PCR()
				bo, e2 := af.OPCR()
				e["pcr"], e["pcr_err"], e["opcr"], e["opcr_err"] = W64(bp), e1 != nil, W64(bo), e2 != nil
				fp, e3 := adaptationfield.PCR(&p)
				fo, e4 := adaptationfield.OPCR(&p)
				e["f_pcr"], e["f_opcr"] = W64(0), W64(0)
				if e3 == nil {
					e["f_pcr"] = W64(gots.ExtractPCR(fp))
				}
				if e4 == nil {
					e["f_opcr"] = W64(gots.ExtractPCR(fo))
				}
			case "extpcr":
				e["v"] = W64(gots.ExtractPCR(GB(e["bytes"])))
			case "exttime":
				b := GB(e["bytes"])
				e["v_gots"] = W64(gots.ExtractTime(b))
				e["v_pes"] = W64(pes.ExtractTime(b))
			}
		})
	}
	return h
}

func (c04) Class(e Ev) string {
	op := GS(e["op"])
	switch op {
	case "inspcr", "inspts":
		v := UW64(e["v"])
		if op == "inspcr" {
			v /= 300
		}
		top := 0
		for x := v; x != 0; x >>= 1 {
			top++
		}
		prior := GB(e["prior"])
		c := fmt.Sprintf("%s/topbit%d/prior%02x", op, top, prior[0])[:len(op)+12]
		if GBool(e["whole"]) {
			c += "/whole"
		}
		return c
	}
	if op == "e2e_pcr" {
		return op + "/" + GS(e["which"])
	}
	if op == "e2e_pes" {
		return fmt.Sprintf("%s/dtsfirst-%v", op, GBool(e["dtsfirst"]))
	}
	return op
}
