package main

import (
	"fmt"
	"math/rand"

	gots "github.com/Comcast/gots/v2"
	"github.com/Comcast/gots/v2/pes"
)

// C04: PCR and PTS/DTS codecs.
type c04 struct{}

func init() { register("C04", c04{}) }

const pcrLimit = uint64(1<<33) * 300

func c04Priors(r *rand.Rand, n int) [][]byte {
	a, b, c := make([]byte, n), make([]byte, n), make([]byte, n)
	for i := range b {
		b[i] = 0xff
	}
	r.Read(c)
	return [][]byte{a, b, c}
}

func (c04) Gen(tier string, seed int64, emit func([]Ev)) {
	r := rand.New(rand.NewSource(seed))
	nrand := 300
	bases := 12
	if tier == "thorough" {
		nrand = 100000
		bases = 64
	}
	// PCR values: single-bit and 2^k-1 bases, every ext for sampled bases, limits, random
	var pcrs []uint64
	for k := 0; k < 33; k++ {
		pcrs = append(pcrs, (uint64(1)<<uint(k))*300, ((uint64(1)<<uint(k+1))-1)*300+299, (uint64(1)<<uint(k))*300+uint64(r.Intn(300)))
	}
	for b := 0; b < bases; b++ {
		base := uint64(r.Int63n(1 << 33))
		for ext := uint64(0); ext < 300; ext++ {
			if tier != "thorough" && ext%7 != uint64(b%7) && ext > 3 && ext < 296 && ext != 255 && ext != 256 {
				continue
			}
			pcrs = append(pcrs, base*300+ext)
		}
	}
	pcrs = append(pcrs, 0, 1, 299, 300, 301, pcrLimit-1, pcrLimit-2, pcrLimit-300, pcrLimit-301)
	for i := 0; i < nrand; i++ {
		pcrs = append(pcrs, uint64(r.Int63n(int64(pcrLimit))))
	}
	for i, v := range pcrs {
		pr := c04Priors(r, 8)
		emit([]Ev{{"op": "inspcr", "v": W64(v), "prior": B(pr[i%3])}})
	}
	// PTS values
	var ptss []uint64
	for k := 0; k < 33; k++ {
		ptss = append(ptss, uint64(1)<<uint(k), (uint64(1)<<uint(k+1))-1, (uint64(1)<<uint(k))+uint64(r.Int63n(1<<uint(k)+1))%(1<<uint(k)))
	}
	ptss = append(ptss, 0, 1<<33-1, 1<<15-1, 1<<15, 1<<30-1, 1<<30)
	for i := 0; i < nrand; i++ {
		ptss = append(ptss, uint64(r.Int63n(1<<33)))
	}
	for i, v := range ptss {
		pr := c04Priors(r, 7)
		emit([]Ev{{"op": "inspts", "v": W64(v), "prior": B(pr[i%3])}})
	}
	// decoding arbitrary bytes, and the same bytes with one reserved / marker / prefix bit flipped
	for i := 0; i < nrand/2+40; i++ {
		b := make([]byte, 6)
		r.Read(b)
		emit([]Ev{{"op": "extpcr", "bytes": B(b)}})
		f := append([]byte(nil), b...)
		f[4] ^= 0x02 << uint(r.Intn(6)) // one of the six reserved bits
		emit([]Ev{{"op": "extpcr", "bytes": B(f)}})
		t := make([]byte, 5)
		r.Read(t)
		emit([]Ev{{"op": "exttime", "bytes": B(t)}})
		g := append([]byte(nil), t...)
		switch r.Intn(4) {
		case 0:
			g[0] ^= 0x10 << uint(r.Intn(4))
		case 1:
			g[0] ^= 1
		case 2:
			g[2] ^= 1
		default:
			g[4] ^= 1
		}
		emit([]Ev{{"op": "exttime", "bytes": B(g)}})
	}
}

func (c04) Exec(h []Ev) []Ev {
	for _, e := range h {
		e["panic"] = guard(func() {
			switch GS(e["op"]) {
			case "inspcr":
				buf := GB(e["prior"])
				gots.InsertPCR(buf[:6], UW64(e["v"]))
				e["after"] = B(buf)
				e["back"] = W64(gots.ExtractPCR(buf[:6]))
			case "inspts":
				buf := GB(e["prior"])
				gots.InsertPTS(buf[:5], UW64(e["v"]))
				e["after"] = B(buf)
				e["back_gots"] = W64(gots.ExtractTime(buf[:5]))
				e["back_pes"] = W64(pes.ExtractTime(buf[:5]))
			case "extpcr":
				e["v"] = W64(gots.ExtractPCR(GB(e["bytes"])))
			case "exttime":
				b := GB(e["bytes"])
				e["v_gots"] = W64(gots.ExtractTime(b))
				e["v_pes"] = W64(pes.ExtractTime(b))
			}
		})
	}
	return h
}

func (c04) Class(e Ev) string {
	op := GS(e["op"])
	switch op {
	case "inspcr", "inspts":
		v := UW64(e["v"])
		if op == "inspcr" {
			v /= 300
		}
		top := 0
		for x := v; x != 0; x >>= 1 {
			top++
		}
		prior := GB(e["prior"])
		return fmt.Sprintf("%s/topbit%d/prior%02x", op, top, prior[0])[:len(op)+12]
	}
	return op
}
