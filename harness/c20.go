package main

import (
	"fmt"
	"math/rand"

	"github.com/Comcast/gots/v2/psi"
)

// C20: stream-type classification and PMT descriptor decoders.
type c20 struct{}

func init() { register("C20", c20{}) }

// c20Wrapped: a caller's descriptor type (the stream-level queries are defined on the PmtDescriptor interface).
type c20Wrapped struct{ psi.PmtDescriptor }

func c20Body(r *rand.Rand, tag int, ln int) []byte {
	b := make([]byte, ln)
	r.Read(b)
	switch r.Intn(8) {
	case 0:
		for i := range b {
			b[i] = 0xff
		}
	case 1:
		for i := range b {
			b[i] = 0
		}
	case 2:
		if ln >= 4 {
			copy(b, "DOVI")
		}
	case 3:
		if ln >= 1 {
			b[0] = 0x20
		}
	case 4: // the magic letters somewhere else than in the format identifier (another registration in front of them)
		if ln >= 5 {
			copy(b, []string{"HDMV", "CUEI", "AC-3", "\xff\xff\xff\xff", "DOVD", "\x00\x00\x00\x00"}[r.Intn(6)])
			copy(b[1+r.Intn(ln-4):], "DOVI")
		}
	case 5: // near misses of the magic letters
		if ln >= 4 {
			copy(b, []string{"DOVJ", "dovi", "IVOD", "DOV\x00", "\x00DOV", "EOVI", "DOVI"}[r.Intn(7)])
		}
	}
	if tag == 14 && ln >= 3 {
		b[0] &= 0xdf // keep maximum_bitrate below 2^21 (the range the decoder is written for)
		if r.Intn(3) == 0 {
			bit := r.Intn(21)
			v := uint32(1) << uint(bit)
			b[0], b[1], b[2] = 0xc0|byte(v>>16), byte(v>>8), byte(v)
		}
	}
	if tag == 176 && ln >= 4 {
		b[3] &= 0x7f // Dolby Vision level below 32 (bit 8 of the 16-bit word is b[2]&1 ; level = bits 8..3)
		b[2] &= 0xfe
	}
	return b
}

func (c20) Gen(tier string, seed int64, emit func([]Ev)) {
	r := rand.New(rand.NewSource(seed))
	reps := 1
	if tier == "thorough" {
		reps = 80
	}
	for rep := 0; rep < reps; rep++ {
		for tag := 0; tag < 256; tag++ {
			minLen := 0
			switch tag {
			case 14:
				minLen = 3
			case 10:
				minLen = 4
			case 82: // stream identifier: String() reads data[0]; bodies are at least 1 byte when well-formed
				minLen = 1
			}
			for ln := minLen; ln <= 8; ln++ {
				emit([]Ev{{"op": "desc", "tag": tag, "body": B(c20Body(r, tag, ln))}})
			}
			if tag == 5 {
				// every letter-case spelling of the registered identifier, one-bit neighbours of each letter, and the identifier
				// followed by additional identification info: only the exact four bytes are Dolby Vision
				for m := 0; m < 16; m++ {
					id := []byte("DOVI")
					for k := 0; k < 4; k++ {
						if m>>uint(k)&1 != 0 {
							id[k] |= 0x20
						}
					}
					emit([]Ev{{"op": "desc", "tag": 5, "body": B(append(id, rndBytes(r, m%3)...))}})
				}
				for k := 0; k < 4; k++ {
					for _, bit := range []byte{0x01, 0x10, 0x40, 0x80} {
						id := []byte("DOVI")
						id[k] ^= bit
						emit([]Ev{{"op": "desc", "tag": 5, "body": B(id)}})
					}
				}
			}
			if tag == 14 || tag == 10 || tag == 127 || tag == 5 || tag == 176 {
				for k := 0; k < 40; k++ {
					emit([]Ev{{"op": "desc", "tag": tag, "body": B(c20Body(r, tag, minLen+r.Intn(9)+k%2*r.Intn(24)))}})
				}
			}
		}
		// PMT-level query by PID: four PMTs carrying 64 stream types each
		for blk := 0; blk < 4; blk++ {
			var p absPMT
			p.Program, p.Version, p.CNI, p.PcrPid = 1+r.Intn(1000), r.Intn(32), true, 0x100
			for k := 0; k < 64; k++ {
				p.Streams = append(p.Streams, absStream{Type: blk*64 + k, Pid: 0x101 + 7*k + r.Intn(7)})
			}
			emit([]Ev{{"op": "pmtlags", "pmt": absPMTEv(p)}})
		}
	}
}

func (c20) Exec(h []Ev) []Ev {
	for _, e := range h {
		switch GS(e["op"]) {
		case "desc":
			tag, body := GI(e["tag"]), GB(e["body"])
			e["panic"] = guard(func() {
				d := psi.NewPmtDescriptor(uint8(tag), body)
				e["tag_got"] = int(d.Tag())
				e["maxbr"] = int(d.DecodeMaximumBitRate())
				e["lang"] = B([]byte(d.DecodeIso639LanguageCode()))
				e["audiotype"] = int(d.DecodeIso639AudioType())
				e["ttml_lang"] = B([]byte(d.DecodeTTMLIso639LanguageCode()))
				e["ttml_purpose"] = int(d.DecodeTTMLSubtitlePurpose())
				e["is_dovi"] = d.IsDolbyVision()
				e["dv_codec"] = d.DecodeDolbyVisionCodec("hvc1")
				// the result is a function of the descriptor: whatever codec string the caller passes along
				dvSame := true
				for _, oc := range []string{"", "hev1.2.4.L153.B0", "dvhe.05.06", "dvhe.", "dvhe.08.09", "avc1.640028", "dvh1.05.01"} {
					if d.DecodeDolbyVisionCodec(oc) != e["dv_codec"].(string) {
						dvSame = false
					}
				}
				if GI(e["tag"]) == 176 && GI0(e["ord"])%2 == 1 {
					// decoders of separate descriptors running at the same time (eight goroutines, each with its own profile / level)
					body := GB(e["body"])
					if !parSame(8, 200, func(k int) string {
						own := append([]byte(nil), body...)
						if len(own) >= 4 {
							own[2], own[3] = own[2]^byte(k<<1), own[3]^byte(k<<3)&0x78
						}
						return psi.NewPmtDescriptor(176, own).DecodeDolbyVisionCodec("hvc1")
					}) {
						dvSame = false
					}
				}
				e["dv_codec_same"] = dvSame
				e["is_lang"] = d.IsIso639LanguageDescriptor()
				e["is_maxbr"] = d.IsMaximumBitrateDescriptor()
				e["is_ttml"] = d.IsTTMLSubtitlingDescriptor()
				es := psi.NewPmtElementaryStream(0x1b, 0x100, []psi.PmtDescriptor{d})
				e["es_bitrate"] = int(es.MaxBitRate())
				e["es_ttml"] = es.IsTTMLSubtitling()
				// the same descriptor among descriptors of other kinds (never a second maximum_bitrate or
				// extension descriptor), at every position: the stream-level answers are the same
				same := true
				others := []psi.PmtDescriptor{psi.NewPmtDescriptor(10, []byte("eng\x00")), psi.NewPmtDescriptor(5, []byte("AC-3")), psi.NewPmtDescriptor(82, []byte{7})}
				for pos := 0; pos <= len(others); pos++ {
					ds := append(append(append([]psi.PmtDescriptor{}, others[:pos]...), d), others[pos:]...)
					es2 := psi.NewPmtElementaryStream(0x1b, 0x100, ds)
					if es2.MaxBitRate() != es.MaxBitRate() || es2.IsTTMLSubtitling() != es.IsTTMLSubtitling() {
						same = false
					}
				}
				// the same descriptor held in a caller's own type that implements the public interface (here by embedding)
				if es3 := psi.NewPmtElementaryStream(0x1b, 0x100, []psi.PmtDescriptor{c20Wrapped{d}}); es3.MaxBitRate() != es.MaxBitRate() || es3.IsTTMLSubtitling() != es.IsTTMLSubtitling() {
					same = false
				}
				e["es_among_others_same"] = same
			})
		case "pmtlags":
			p := evAbsPMT(e["pmt"])
			sec := pmtSection(p)
			payload := append([]byte{0}, sec...)
			e["panic"] = guard(func() {
				pmt, err := psi.NewPMT(payload)
				streams := []Ev{}
				e["absent_lags"], e["after_remove"] = false, []Ev{}
				if err == nil {
					for _, es := range pmt.ElementaryStreams() {
						streams = append(streams, Ev{"type": int(es.StreamType()), "pid": es.ElementaryPid(),
							"lags": pmt.IsPidForStreamWherePresentationLagsEbp(es.ElementaryPid())})
					}
					e["absent_lags"] = pmt.IsPidForStreamWherePresentationLagsEbp(0x1ffe)
					// the query follows the stream list: after removing every other stream the removed PIDs
					// are unknown (false) and the kept ones answer as before
					var rm []int
					for k, es := range pmt.ElementaryStreams() {
						if (k+p.Program)%2 == 0 || (k+p.Version)%5 == 0 {
							rm = append(rm, es.ElementaryPid())
						}
					}
					pmt.RemoveElementaryStreams(rm)
					after := []Ev{}
					for _, st := range p.Streams {
						gone := false
						for _, q := range rm {
							gone = gone || q == st.Pid
						}
						after = append(after, Ev{"type": st.Type, "pid": st.Pid, "removed": gone, "lags": pmt.IsPidForStreamWherePresentationLagsEbp(st.Pid)})
					}
					e["after_remove"] = after
				}
				e["streams"] = streams
				e["parsed"] = len(streams)
			})
		}
	}
	return h
}

func (c20) Class(e Ev) string {
	if GS(e["op"]) == "pmtlags" {
		return fmt.Sprintf("pmtlags/%d", GI(e["parsed"]))
	}
	tag := GI(e["tag"])
	switch tag {
	case 5, 10, 14, 127, 176:
		return fmt.Sprintf("desc/tag%d/len%d", tag, len(GB(e["body"])))
	}
	return fmt.Sprintf("desc/other/len%d", len(GB(e["body"])))
}

func (c20) Table(rows []Ev, tier string, seed int64, rep *TableReport) {
	nst, ndv := 0, 0
	for _, r := range rows {
		tick([]Ev{r})
		switch GS(r["t"]) {
		case "st":
			nst++
			code := GI(r["code"])
			check := func(src string, st psi.PmtStreamType) {
				bad := func(reason string) {
					rep.Mismatches = append(rep.Mismatches, Ev{"op": "streamtype-" + src, "reason": reason, "code": code})
				}
				if int(st.StreamType()) != code {
					bad("code")
				}
				if st.StreamTypeDescription() == "" {
					bad("empty-description")
				}
				if st.IsAudioContent() != GBool(r["audio"]) {
					bad("audio")
				}
				if st.IsVideoContent() != GBool(r["video"]) {
					bad("video")
				}
				if st.IsSCTE35Content() != GBool(r["scte35"]) {
					bad("scte35")
				}
				if st.IsID3Content() != GBool(r["id3"]) {
					bad("id3")
				}
				if st.IsPrivateContent() != GBool(r["private"]) {
					bad("private")
				}
				if st.IsStreamWherePresentationLagsEbp() != GBool(r["lags"]) {
					bad("presentation-lags-ebp")
				}
				rep.Compared += 8
			}
			check("lookup", psi.LookupPmtStreamType(uint8(code)))
			check("es", psi.NewPmtElementaryStream(uint8(code), 0x100, nil))
		case "dv":
			ndv++
			prof := GI(r["profile"])
			for lv, w := range r["codec"].([]interface{}) {
				num := uint16(prof)<<9 | uint16(lv)<<3
				for _, low := range []uint16{0, 7, 5} {
					n := num | low
					d := psi.NewPmtDescriptor(psi.DOLBY_VISION, []byte{1, 0, byte(n >> 8), byte(n)})
					if got := d.DecodeDolbyVisionCodec("hvc1"); got != w.(string) {
						rep.Mismatches = append(rep.Mismatches, Ev{"op": "dolby-vision-codec", "reason": "string", "profile": prof, "level": lv, "got": got, "want": w})
					}
					rep.Compared++
				}
			}
		}
	}
	if nst != 256 || ndv != 128 {
		die("C20 table incomplete: %d %d", nst, ndv)
	}
	rep.Exhaustive = true
	rep.Classes["table/streamtypes"] = 256
	rep.Classes["table/dolbyvision"] = 4096
	rep.Note = "all 256 stream types x 8 observations through both constructors; Dolby Vision profile 0..127 x level 0..31"
	rep.Samples = []Ev{rows[0x0f], {"profile": 5, "level": 6, "codec": rows[256+5]["codec"].([]interface{})[6]}}
}
