package main

import (
	"errors"
	"fmt"
	"io"
	"math/rand"

	gots "github.com/Comcast/gots/v2"
	"github.com/Comcast/gots/v2/packet"
)

// C17: payload accumulator.
type c17 struct{}

func init() { register("C17", c17{}) }

var errPred = errors.New("predicate failed (harness sentinel)")

// mkPkt builds a well-formed packet: afLen < 0 means no adaptation field.
func mkPkt(r *rand.Rand, pid int, cc int, pusi bool, haspay bool, afLen int) packet.Packet {
	var p packet.Packet
	r.Read(p[:])
	p[0] = 0x47
	p[1] = byte(pid >> 8 & 0x1f)
	if pusi {
		p[1] |= 0x40
	}
	p[2] = byte(pid)
	p[3] = byte(cc & 0x0f)
	if haspay {
		p[3] |= 0x10
	}
	if afLen >= 0 {
		p[3] |= 0x20
		p[4] = byte(afLen)
		if afLen > 0 {
			p[5] = 0 // no optional fields
			for i := 6; i < 5+afLen; i++ {
				p[i] = 0xff
			}
		}
	}
	return p
}

func (c17) Gen(tier string, seed int64, emit func([]Ev)) {
	r := rand.New(rand.NewSource(seed))
	n := 900
	if tier == "thorough" {
		n = 12000
	}
	for i := 0; i < n; i++ {
		switch {
		case i%5 == 3: // two or three accumulators side by side, their calls interleaved
			hs := [][]Ev{c17History(r), c17History(r)}
			if r.Intn(2) == 0 {
				hs = append(hs, c17History(r))
			}
			emit(c17Interleave(r, hs...))
		case i%25 == 4:
			// one accumulator starts a unit and is reset; then another starts its first unit; then the first is
			// written again while the second goes on
			pred := Ev{"done": 0, "fail": 0}
			w := func(acc, cc int, pusi bool) Ev {
				p := mkPkt(r, 0x100+acc, cc, pusi, true, []int{-1, 150, 100}[r.Intn(3)])
				return Ev{"op": "write", "pkt": B(p[:]), "pred": pred, "acc": acc}
			}
			h := []Ev{w(0, 0, true)}
			for k := r.Intn(3); k > 0; k-- {
				h = append(h, w(0, 1, false))
			}
			h = append(h, Ev{"op": "reset", "pred": pred, "acc": 0}, w(1, 0, true), w(1, 1, false), w(0, 2, true), w(0, 3, false), w(1, 2, false),
				Ev{"op": "reset", "pred": pred, "acc": 1}, w(0, 4, false), w(2, 0, true), w(1, 3, true), w(2, 1, false))
			emit(h)
		default:
			emit(c17History(r))
		}
	}
	// a unit of more than a megabyte (6000 and 12000 full packets, written as one described event), then a reset or a
	// new unit start and the usual questions
	for variant := 0; variant < 4; variant++ {
		pred := Ev{"done": 0, "fail": 0}
		w := func(cc int, pusi bool, afl int) Ev {
			p := mkPkt(r, 0x100, cc, pusi, true, afl)
			return Ev{"op": "write", "pkt": B(p[:]), "pred": pred}
		}
		h := []Ev{w(0, true, -1), w(1, false, 100)}
		big := mkPkt(r, 0x100, 2, false, true, -1)
		h = append(h, Ev{"op": "write_rep", "pkt": B(big[:]), "n": []int{6000, 12000}[variant%2], "pred": pred})
		if variant < 2 {
			h = append(h, Ev{"op": "reset", "pred": pred}, w(3, false, 150), w(4, true, 150), w(5, false, 150))
		} else {
			h = append(h, w(3, true, -1), w(4, false, 150), Ev{"op": "reset", "pred": pred}, w(5, true, 150))
		}
		emit(h)
	}
	// a very large unit (several hundred full packets, more than 64 KiB of payload), then Reset and the usual
	// questions: a reset accumulator behaves like a new one however much it held before
	for _, variant := range []int{0, 1} {
		pred := Ev{"done": 0, "fail": 0}
		var h []Ev
		total := 380
		if variant == 1 {
			// the predicate holds at the very end: the accumulator is complete when it is reset
			pred["done"] = 184 * total
		}
		for s := 0; s < total; s++ {
			p := mkPkt(r, 0x100, s, s == 0, true, -1)
			h = append(h, Ev{"op": "write", "pkt": B(p[:]), "pred": pred})
		}
		h = append(h, Ev{"op": "reset", "pred": pred})
		p1 := mkPkt(r, 0x100, total, false, true, 150)
		p2 := mkPkt(r, 0x100, total+1, true, true, 150)
		p3 := mkPkt(r, 0x100, total+2, false, true, 150)
		h = append(h, Ev{"op": "write", "pkt": B(p1[:]), "pred": pred}, Ev{"op": "write", "pkt": B(p2[:]), "pred": pred}, Ev{"op": "write", "pkt": B(p3[:]), "pred": pred})
		emit(h)
	}
}

// c17History draws one accumulator history from r (which may be driven by a fuzzer's bytes).
func c17History(r *rand.Rand) []Ev {
	steps := 2 + r.Intn(9)
	// predicate thresholds (0 = never) in bytes
	pred := Ev{"done": 0, "fail": 0}
	switch r.Intn(5) {
	case 0:
	case 1, 2:
		pred["done"] = 1 + r.Intn(120)
	case 3:
		pred["fail"] = 1 + r.Intn(120)
	case 4:
		pred["done"] = 1 + r.Intn(120)
		pred["fail"] = 1 + r.Intn(120)
	}
	if GI(pred["fail"]) > 0 && r.Intn(2) == 0 {
		pred["errkind"] = 1 + r.Intn(4) // the predicate fails with one of the library's own error values
	}
	var h []Ev
	for s := 0; s < steps; s++ {
		if r.Intn(12) == 0 {
			h = append(h, Ev{"op": "reset", "pred": pred})
			continue
		}
		pusi := r.Intn(3) == 0 || (s == 0 && r.Intn(4) != 0)
		haspay := r.Intn(6) != 0
		afLen := 140 + r.Intn(43) // payloads of 1..43 bytes keep the trace small
		switch r.Intn(10) {
		case 0:
			afLen = -1 // payload only: 184 bytes
		case 1:
			afLen = 183 // adaptation field fills the packet: empty payload
		case 2:
			afLen = 0
		}
		if !haspay {
			afLen = 183
		}
		p := mkPkt(r, 0x100, s, pusi, haspay, afLen)
		h = append(h, Ev{"op": "write", "pkt": B(p[:]), "pred": pred})
	}
	return h
}

// GenRows: the fuzzer's bytes drive the history generator (structured fuzzing).
func (c17) GenRows(rows []Ev, tier string, seed int64, emit func([]Ev)) {
	for _, row := range rows {
		emit(c17History(rand.New(&byteSrc{b: GB(row["in"])})))
	}
}

// c17Acc: one real accumulator of a history with what it handed out so far.
type c17Acc struct {
	acc     packet.Accumulator
	predErr error // what the predicate fails with
	fired   bool  // the predicate returned its error during the current call
	snaps   []c17Snap
	// what Bytes() / Packets() returned after the last call on this accumulator (calls on other accumulators must not change it)
	lastB  string
	lastPk []packet.Packet
}

// lists and byte slices handed out earlier, with the content they had when handed out:
// later accumulator calls must leave them alone ("an independent copy")
type c17Snap struct {
	pk   []*packet.Packet
	want []packet.Packet
	b    []byte
	wb   string
}

// c17PredErrs: the error a failing predicate returns - the harness sentinel, or one of the library's own sentinels
// (a predicate may forward the error of another accumulator or reader): it is the predicate's error all the same.
var c17PredErrs = []error{errPred, gots.ErrAccumulatorDone, gots.ErrNoPayloadUnitStartIndicator, io.EOF, gots.ErrInvalidPacketLength}

func c17New(pr map[string]interface{}) *c17Acc {
	done, fail := GI(pr["done"]), GI(pr["fail"])
	a := &c17Acc{predErr: c17PredErrs[GI0(pr["errkind"])%len(c17PredErrs)]}
	a.acc = packet.NewAccumulator(func(b []byte) (bool, error) {
		if fail > 0 && len(b) >= fail {
			// the error has priority, also when the predicate says "complete" in the same breath
			a.fired = true
			return done > 0 && len(b) >= done, a.predErr
		}
		return done > 0 && len(b) >= done, nil
	})
	return a
}

func (c17) Exec(h []Ev) []Ev {
	if len(h) == 0 {
		return h
	}
	// several accumulators may live side by side (a demultiplexer keeps one per PID): the event names the one it calls
	accs := map[int]*c17Acc{}
	written := make([][]byte, len(h)) // original bytes of each written packet, by step
	writtenTo := make([]int, len(h))  // ... and the accumulator it was written to
	dead := false
	for i, e := range h {
		ai := GI0(e["acc"])
		e["acc"] = ai
		if dead {
			e["panic"] = "skipped-after-panic"
			continue
		}
		if accs[ai] == nil {
			accs[ai] = c17New(asMap(e["pred"]))
		}
		cur := accs[ai]
		acc := cur.acc
		e["input_same"] = true
		e["snaps_same"] = true
		e["others_same"] = true
		e["panic"] = guard(func() {
			switch GS(e["op"]) {
			case "reset":
				acc.Reset()
				e["err"] = "reset"
			case "write_rep":
				// the same continuation packet written n times (described, not transmitted: a unit of more than a megabyte);
				// only sizes are reported - the history goes on with a reset or a new unit start, which discard the unit
				var p packet.Packet
				copy(p[:], GB(e["pkt"]))
				nonnil := 0
				for k := GI(e["n"]); k > 0; k-- {
					q := p
					if _, err := acc.WritePacket(&q); err != nil {
						nonnil++
					}
				}
				e["err"], e["nonnil"] = "nil", nonnil
				e["bytes_len"], e["pk_len"] = len(acc.Bytes()), len(acc.Packets())
				e["bytes"], e["pk"] = []int{}, []int{}
				cur.lastB, cur.lastPk = string(acc.Bytes()), nil
				for _, q := range acc.Packets() {
					if q != nil {
						cur.lastPk = append(cur.lastPk, *q)
					} else {
						cur.lastPk = append(cur.lastPk, packet.Packet{})
					}
				}
				return
			case "write":
				var p packet.Packet
				copy(p[:], GB(e["pkt"]))
				orig := p
				written[i], writtenTo[i] = append([]byte(nil), p[:]...), ai
				cur.fired = false
				_, err := acc.WritePacket(&p)
				e["input_same"] = p == orig
				switch {
				case cur.fired && err == cur.predErr:
					err = errPred // the predicate's own error came back, whatever value it has
				}
				switch err {
				case nil:
					e["err"] = "nil"
				case gots.ErrNoPayloadUnitStartIndicator:
					e["err"] = "nopusi"
				case gots.ErrAccumulatorDone:
					// the library signals both "just completed" and "already complete" with this error;
					// they are told apart by whether this call completed the accumulation
					e["err"] = "done-or-refused"
				case errPred:
					e["err"] = "pred"
				default:
					e["err"] = "nopayload" // any other error: the packet's payload could not be taken
				}
				// the caller may reuse its packet: scribble over it after the call
				for k := range p {
					p[k] ^= 0xa5
				}
			}
			same := true
			for _, x := range accs {
				for _, sn := range x.snaps {
					if string(sn.b) != sn.wb {
						same = false
					}
					for k, q := range sn.pk {
						if q == nil || *q != sn.want[k] {
							same = false
						}
					}
				}
			}
			e["snaps_same"] = same
			// the other accumulators read as they did after their own last call
			for k, x := range accs {
				if k == ai {
					continue
				}
				if string(x.acc.Bytes()) != x.lastB {
					e["others_same"] = false
				}
				pk := x.acc.Packets()
				if len(pk) != len(x.lastPk) {
					e["others_same"] = false
				} else {
					for j, q := range pk {
						if q == nil || *q != x.lastPk[j] {
							e["others_same"] = false
						}
					}
				}
			}
			{
				sn := c17Snap{pk: acc.Packets(), b: acc.Bytes()}
				sn.wb = string(sn.b)
				for _, q := range sn.pk {
					if q != nil {
						sn.want = append(sn.want, *q)
					} else {
						sn.want = append(sn.want, packet.Packet{})
					}
				}
				cur.snaps = append(cur.snaps, sn)
			}
			// copy independence: scribble over what Bytes()/Packets() return, then read again
			b1 := acc.Bytes()
			for k := range b1 {
				b1[k] ^= 0xff
			}
			p1 := acc.Packets()
			for k := range p1 {
				// The returned slice is the caller's: dropping its elements must not affect the
				// accumulator.  (The pointed-to packets are the accumulator's private copies of
				// the written packets; the property requires independence from the caller's
				// packets, checked by the scribble above, not from earlier Packets() results.)
				p1[k] = nil
			}
			e["bytes"] = B(acc.Bytes())
			cur.lastB = string(acc.Bytes())
			cur.lastPk = nil
			pk := []int{}
			for _, q := range acc.Packets() {
				idx := -1
				if q != nil {
					cur.lastPk = append(cur.lastPk, *q)
					for s := 0; s <= i; s++ {
						if written[s] != nil && writtenTo[s] == ai && string(written[s]) == string(q[:]) {
							idx = s
						}
					}
				} else {
					cur.lastPk = append(cur.lastPk, packet.Packet{})
				}
				pk = append(pk, idx)
			}
			e["pk"] = pk
		})
		if GS(e["panic"]) != "" {
			dead = true
		}
	}
	// resolve done-or-refused: "done" if the accumulator was not complete before this call
	complete := map[int]bool{}
	for _, e := range h {
		ai := GI0(e["acc"])
		switch GS(e["err"]) {
		case "reset":
			complete[ai] = false
		case "done-or-refused":
			if complete[ai] {
				e["err"] = "refused-done"
			} else {
				e["err"] = "done"
				complete[ai] = true
			}
		}
	}
	return h
}

// c17Interleave merges histories of several accumulators, keeping each one's order.
func c17Interleave(r *rand.Rand, hs ...[]Ev) []Ev {
	var out []Ev
	pos := make([]int, len(hs))
	for {
		var live []int
		for k := range hs {
			if pos[k] < len(hs[k]) {
				live = append(live, k)
			}
		}
		if len(live) == 0 {
			return out
		}
		k := live[r.Intn(len(live))]
		e := hs[k][pos[k]]
		e["acc"] = k
		out = append(out, e)
		pos[k]++
	}
}

func (c17) Class(e Ev) string {
	if GS(e["op"]) == "reset" {
		return "reset"
	}
	if GS(e["op"]) == "write_rep" {
		return "write_rep"
	}
	p := GB(e["pkt"])
	return fmt.Sprintf("write/pusi%v/afc%d/%s/held%d", p[1]&0x40 != 0, p[3]>>4&3, GS(e["err"]), len(GIs(e["pk"])))
}

// ---- B2: replay of TLC-generated behaviours (Sim_C17) on a real accumulator ----

func (c17) Table(rows []Ev, tier string, seed int64, rep *TableReport) {
	r := rand.New(rand.NewSource(seed))
	for bi, row := range rows {
		tick([]Ev{row})
		pr := asMap(row["pred"])
		done, fail := GI(pr["done"]), GI(pr["fail"])
		acc := packet.NewAccumulator(func(b []byte) (bool, error) {
			if fail > 0 && len(b) >= fail {
				return done > 0 && len(b) >= done, errPred
			}
			return done > 0 && len(b) >= done, nil
		})
		written := map[int][]byte{} // abstract id -> real packet bytes
		nopay := map[int]bool{}     // ids rejected for lack of payload (their listing is left open)
		complete := false
		steps := toList(row["steps"])
		for si, sx := range steps {
			s := asMap(sx)
			res := ""
			var gotBytes []byte
			var gotIds []int
			pan := guard(func() {
				if GS(s["op"]) == "reset" {
					acc.Reset()
					complete = false
					res = "reset"
				} else {
					pm := asMap(s["p"])
					pl := GB(pm["payload"])
					id := GI(pm["id"])
					afLen := 183 - len(pl)
					if !GBool(pm["haspay"]) {
						afLen = 183
					}
					p := mkPkt(r, 0x100, id, GBool(pm["pusi"]), GBool(pm["haspay"]), afLen)
					copy(p[188-len(pl):], pl)
					written[id] = append([]byte(nil), p[:]...)
					_, err := acc.WritePacket(&p)
					switch err {
					case nil:
						res = "nil"
					case gots.ErrNoPayloadUnitStartIndicator:
						res = "nopusi"
					case gots.ErrAccumulatorDone:
						if complete {
							res = "refused-done"
						} else {
							res, complete = "done", true
						}
					case errPred:
						res = "pred"
					default:
						res = "nopayload"
						nopay[id] = true
					}
					for k := range p {
						p[k] ^= 0xa5
					}
				}
				gotBytes = acc.Bytes()
				for _, q := range acc.Packets() {
					idx := -1
					for id, w := range written {
						if string(w) == string(q[:]) {
							idx = id
						}
					}
					gotIds = append(gotIds, idx)
				}
			})
			filt := func(ids []int) []int {
				out := []int{}
				for _, x := range ids {
					if !nopay[x] {
						out = append(out, x)
					}
				}
				return out
			}
			rep.Compared++
			reason := ""
			switch {
			case pan != "":
				reason = "replay-" + pan
			case res != GS(s["res"]):
				reason = fmt.Sprintf("replay-result-%s-expected-got-%s", GS(s["res"]), res)
			case string(gotBytes) != string(GB(s["buf"])):
				reason = "replay-bytes"
			case fmt.Sprint(filt(gotIds)) != fmt.Sprint(filt(GIs(s["pkts"]))):
				reason = "replay-packets"
			}
			rep.Classes[fmt.Sprintf("replay/%s/%s", GS(s["op"]), GS(s["res"]))]++
			if reason != "" {
				if len(rep.Mismatches) < 50 {
					rep.Mismatches = append(rep.Mismatches, Ev{"op": "behaviour", "reason": reason, "behaviour": bi, "step": si, "pred": pr,
						"steps": steps[:si+1], "got_res": res, "got_bytes": B(gotBytes), "got_pkts": filt(gotIds)})
				}
				break
			}
		}
	}
	rep.Note = "TLC-simulated behaviours of Accumulator (depth 10, 12 predicates) replayed on a real accumulator with 188-byte packets; packet listing compared modulo packets rejected for lack of payload"
	if len(rows) > 0 {
		rep.Samples = []Ev{{"pred": rows[0]["pred"], "first_steps": toList(rows[0]["steps"])[:3]}}
	}
}
