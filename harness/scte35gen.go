package main

import (
	"math/rand"

	"github.com/Comcast/gots/v2/scte35"
)

// Abstract splice_info_section used by the generators of C08 / C09 / C05.  The
// serialiser below builds *inputs*; TLC checks bytes = Scte35!SectionOf(abs) on
// every event, so it is not part of the trusted base.
type absComp struct {
	Tag  int
	Spec bool
	Pts  uint64
}
type absCmd struct {
	Kind                                    string // null | time | insert | other
	Spec                                    bool
	Pts                                     uint64
	Eid                                     uint32
	Cancel, Out, Program, HasDur, Immediate bool
	Comps                                   []absComp
	AutoRet                                 bool
	Dur                                     uint64
	Upid, Avail, Avails                     int
	Type                                    int
	Body                                    []byte
}
type absSegComp struct {
	Tag int
	Off uint64
}
type absMid struct {
	Type int
	Upid []byte
}
type absSDesc struct {
	Kind                         string // seg | foreign
	Tag                          int
	Body                         []byte
	Ident                        []byte
	Eid                          uint32
	Cancel, ProgSeg, HasDur, Dnr bool
	Web, NoBlk, Arch             bool
	Dev                          int
	Comps                        []absSegComp
	Dur                          uint64
	UpidType                     int
	Upid                         []byte
	Mid                          []absMid
	Type, SegNum, SegExp         int
	HasSub                       bool
	SubNum, SubExp               int
}
type absSig struct {
	TableId   int
	Ssi, Priv bool
	Protocol  int
	Enc       bool
	EncAlg    int
	PtsAdj    uint64
	Cw, Tier  int
	Cmd       absCmd
	Descs     []absSDesc
	AStuff    []byte
}

func b2i(b bool) byte {
	if b {
		return 1
	}
	return 0
}

func spliceTime(spec bool, pts uint64) []byte {
	if !spec {
		return []byte{0x7f}
	}
	return []byte{0xfe | byte(pts>>32&1), byte(pts >> 24), byte(pts >> 16), byte(pts >> 8), byte(pts)}
}

func (c absCmd) typ() int {
	switch c.Kind {
	case "null":
		return 0
	case "time":
		return 6
	case "insert":
		return 5
	}
	return c.Type
}

func (c absCmd) bytes() []byte {
	switch c.Kind {
	case "null":
		return nil
	case "time":
		return spliceTime(c.Spec, c.Pts)
	case "insert":
		b := []byte{byte(c.Eid >> 24), byte(c.Eid >> 16), byte(c.Eid >> 8), byte(c.Eid), b2i(c.Cancel)<<7 | 0x7f}
		if c.Cancel {
			return b
		}
		b = append(b, b2i(c.Out)<<7|b2i(c.Program)<<6|b2i(c.HasDur)<<5|b2i(c.Immediate)<<4|0x0f)
		if c.Program && !c.Immediate {
			b = append(b, spliceTime(c.Spec, c.Pts)...)
		}
		if !c.Program {
			b = append(b, byte(len(c.Comps)))
			for _, k := range c.Comps {
				b = append(b, byte(k.Tag))
				if !c.Immediate {
					b = append(b, spliceTime(k.Spec, k.Pts)...)
				}
			}
		}
		if c.HasDur {
			b = append(b, b2i(c.AutoRet)<<7|0x7e|byte(c.Dur>>32&1), byte(c.Dur>>24), byte(c.Dur>>16), byte(c.Dur>>8), byte(c.Dur))
		}
		return append(b, byte(c.Upid>>8), byte(c.Upid), byte(c.Avail), byte(c.Avails))
	}
	return c.Body
}

func (d absSDesc) bytes() []byte {
	if d.Kind == "foreign" {
		return append([]byte{byte(d.Tag), byte(len(d.Body))}, d.Body...)
	}
	b := append([]byte(nil), d.Ident...)
	b = append(b, byte(d.Eid>>24), byte(d.Eid>>16), byte(d.Eid>>8), byte(d.Eid), b2i(d.Cancel)<<7|0x7f)
	if !d.Cancel {
		f := b2i(d.ProgSeg)<<7 | b2i(d.HasDur)<<6 | b2i(d.Dnr)<<5
		if d.Dnr {
			f |= 0x1f
		} else {
			f |= b2i(d.Web)<<4 | b2i(d.NoBlk)<<3 | b2i(d.Arch)<<2 | byte(d.Dev&3)
		}
		b = append(b, f)
		if !d.ProgSeg {
			b = append(b, byte(len(d.Comps)))
			for _, k := range d.Comps {
				b = append(b, byte(k.Tag), 0xfe|byte(k.Off>>32&1), byte(k.Off>>24), byte(k.Off>>16), byte(k.Off>>8), byte(k.Off))
			}
		}
		if d.HasDur {
			b = append(b, byte(d.Dur>>32), byte(d.Dur>>24), byte(d.Dur>>16), byte(d.Dur>>8), byte(d.Dur))
		}
		var u []byte
		if d.UpidType == 0x0d {
			for _, m := range d.Mid {
				u = append(u, byte(m.Type), byte(len(m.Upid)))
				u = append(u, m.Upid...)
			}
		} else {
			u = d.Upid
		}
		b = append(b, byte(d.UpidType), byte(len(u)))
		b = append(b, u...)
		b = append(b, byte(d.Type), byte(d.SegNum), byte(d.SegExp))
		if d.HasSub {
			b = append(b, byte(d.SubNum), byte(d.SubExp))
		}
	}
	return append([]byte{2, byte(len(b))}, b...)
}

// section serialises the splice_info_section (without pointer_field).
func (s absSig) section() []byte {
	cb := s.Cmd.bytes()
	var dl []byte
	for _, d := range s.Descs {
		dl = append(dl, d.bytes()...)
	}
	body := []byte{byte(s.Protocol), b2i(s.Enc)<<7 | byte(s.EncAlg&0x3f)<<1 | byte(s.PtsAdj>>32&1),
		byte(s.PtsAdj >> 24), byte(s.PtsAdj >> 16), byte(s.PtsAdj >> 8), byte(s.PtsAdj),
		byte(s.Cw), byte(s.Tier >> 4), byte(s.Tier&0x0f)<<4 | byte(len(cb)>>8&0x0f), byte(len(cb)), byte(s.Cmd.typ())}
	body = append(body, cb...)
	body = append(body, byte(len(dl)>>8), byte(len(dl)))
	body = append(body, dl...)
	body = append(body, s.AStuff...)
	sl := len(body) + 4
	sec := append([]byte{byte(s.TableId), b2i(s.Ssi)<<7 | b2i(s.Priv)<<6 | 0x30 | byte(sl>>8&0x0f), byte(sl)}, body...)
	c := crc32mpeg(sec)
	return append(sec, byte(c>>24), byte(c>>16), byte(c>>8), byte(c))
}

func eid4(v uint32) []int {
	return []int{int(v >> 24), int(v >> 16 & 0xff), int(v >> 8 & 0xff), int(v & 0xff)}
}

func (c absCmd) ev() Ev {
	comps := []Ev{}
	for _, k := range c.Comps {
		comps = append(comps, Ev{"tag": k.Tag, "spec": k.Spec, "pts": W64(k.Pts)})
	}
	return Ev{"kind": c.Kind, "spec": c.Spec, "pts": W64(c.Pts), "eid": eid4(c.Eid), "cancel": c.Cancel, "out": c.Out,
		"program": c.Program, "hasdur": c.HasDur, "immediate": c.Immediate, "comps": comps, "autoret": c.AutoRet,
		"dur": W64(c.Dur), "upid": c.Upid, "avail": c.Avail, "avails": c.Avails, "type": c.Type, "body": B(c.Body)}
}

func (d absSDesc) ev() Ev {
	comps := []Ev{}
	for _, k := range d.Comps {
		comps = append(comps, Ev{"tag": k.Tag, "off": W64(k.Off)})
	}
	mid := []Ev{}
	for _, m := range d.Mid {
		mid = append(mid, Ev{"type": m.Type, "upid": B(m.Upid)})
	}
	return Ev{"kind": d.Kind, "tag": d.Tag, "body": B(d.Body), "ident": B(d.Ident), "eid": eid4(d.Eid), "cancel": d.Cancel,
		"progseg": d.ProgSeg, "hasdur": d.HasDur, "dnr": d.Dnr, "web": d.Web, "noblk": d.NoBlk, "arch": d.Arch, "dev": d.Dev,
		"comps": comps, "dur": W64(d.Dur), "upidtype": d.UpidType, "upid": B(d.Upid), "mid": mid,
		"type": d.Type, "segnum": d.SegNum, "segexp": d.SegExp, "hassub": d.HasSub, "subnum": d.SubNum, "subexp": d.SubExp}
}

func (s absSig) ev() Ev {
	ds := []Ev{}
	for _, d := range s.Descs {
		ds = append(ds, d.ev())
	}
	return Ev{"tableid": s.TableId, "ssi": s.Ssi, "priv": s.Priv, "protocol": s.Protocol, "enc": s.Enc, "encalg": s.EncAlg,
		"ptsadj": W64(s.PtsAdj), "cw": s.Cw, "tier": s.Tier, "cmd": s.Cmd.ev(), "descs": ds, "astuff": B(s.AStuff)}
}

// ---- random generation, biased to high bits and flag combinations ----

func rnd33(r *rand.Rand) uint64 {
	switch r.Intn(5) {
	case 0:
		return 1<<32 | uint64(r.Int63n(1<<32))
	case 1:
		return []uint64{0, 1, 1<<33 - 1, 1 << 32, 1<<32 - 1}[r.Intn(5)]
	}
	return uint64(r.Int63n(1 << 33))
}

func rnd40(r *rand.Rand) uint64 {
	switch r.Intn(4) {
	case 0:
		return uint64(r.Intn(256))<<32 | uint64(r.Int63n(1<<32)) | 1<<39
	case 1:
		return []uint64{0, 1, 1<<40 - 1, 1 << 33, 1<<33 - 1, 0xAB00000001}[r.Intn(6)]
	}
	return uint64(r.Int63n(1 << 40))
}

func rndEid(r *rand.Rand) uint32 {
	switch r.Intn(4) {
	case 0:
		return 0x80000000 | uint32(r.Int31())
	case 1:
		return []uint32{0, 1, 0xffffffff, 0x7fffffff}[r.Intn(4)]
	}
	return uint32(r.Int63n(1 << 32))
}

func rndBytes(r *rand.Rand, n int) []byte {
	b := make([]byte, n)
	r.Read(b)
	return b
}

func rndCmd(r *rand.Rand) absCmd {
	switch r.Intn(6) {
	case 0:
		return absCmd{Kind: "null"}
	case 1, 2:
		return absCmd{Kind: "time", Spec: true, Pts: rnd33(r)}
	}
	c := absCmd{Kind: "insert", Eid: rndEid(r), Cancel: r.Intn(6) == 0, Out: r.Intn(2) == 0, Program: r.Intn(3) != 0,
		HasDur: r.Intn(2) == 0, Immediate: r.Intn(3) == 0, Spec: true, Pts: rnd33(r), AutoRet: r.Intn(2) == 0, Dur: rnd33(r),
		Upid: r.Intn(65536), Avail: r.Intn(256), Avails: r.Intn(256)}
	if !c.Program {
		n, specOdds := r.Intn(4), 4
		if r.Intn(3) == 0 { // longer lists, most components without a specified time (one byte instead of five)
			n, specOdds = 3+r.Intn(10), 1+r.Intn(2)
		}
		for k := n; k > 0; k-- {
			c.Comps = append(c.Comps, absComp{Tag: r.Intn(256), Spec: r.Intn(specOdds+1) >= 2, Pts: rnd33(r)})
		}
	}
	return c
}

var segTypes = []int{0x10, 0x11, 0x13, 0x14, 0x20, 0x22, 0x30, 0x31, 0x32, 0x34, 0x35, 0x36, 0x37, 0x40, 0x41, 0x50, 0x51, 0x00, 0x01}

func rndSeg(r *rand.Rand) absSDesc {
	d := absSDesc{Kind: "seg", Ident: []byte("CUEI"), Eid: rndEid(r), Cancel: r.Intn(8) == 0, ProgSeg: r.Intn(3) != 0, HasDur: r.Intn(2) == 0,
		Dnr: r.Intn(2) == 0, Web: r.Intn(2) == 0, NoBlk: r.Intn(2) == 0, Arch: r.Intn(2) == 0, Dev: r.Intn(4), Dur: rnd40(r),
		Type: segTypes[r.Intn(len(segTypes))], SegNum: r.Intn(256), SegExp: r.Intn(256), SubNum: r.Intn(256), SubExp: r.Intn(256)}
	if r.Intn(5) == 0 {
		d.Type = r.Intn(256)
	}
	if !d.ProgSeg {
		for k := r.Intn(4); k > 0; k-- {
			d.Comps = append(d.Comps, absSegComp{Tag: r.Intn(256), Off: rnd33(r)})
		}
	}
	switch r.Intn(4) {
	case 0:
		d.UpidType = 0
	case 1:
		d.UpidType = 0x0d
		for k := r.Intn(4); k > 0; k-- {
			n := r.Intn(13)
			if r.Intn(3) == 0 {
				n = 0 // an entry with an empty UPID (type + length byte 0), possibly the last one
			}
			d.Mid = append(d.Mid, absMid{Type: []int{9, 14, 1, 8, 15, 0}[r.Intn(6)], Upid: rndBytes(r, n)})
		}
	default:
		d.UpidType = []int{1, 2, 3, 8, 9, 12, 14, 15}[r.Intn(8)]
		d.Upid = rndBytes(r, r.Intn(16))
	}
	if d.Type == 0x34 || d.Type == 0x36 {
		d.HasSub = r.Intn(2) == 0
	}
	return d
}

func rndSig(r *rand.Rand) absSig {
	s := absSig{TableId: 0xfc, Protocol: 0, EncAlg: 0, PtsAdj: 0, Cw: r.Intn(256), Tier: r.Intn(4096), Cmd: rndCmd(r)}
	if r.Intn(3) == 0 {
		s.Tier = []int{0, 0xfff, 0x800, 0x00f}[r.Intn(4)]
	}
	if r.Intn(2) == 0 {
		s.PtsAdj = rnd33(r)
	}
	if (s.Cmd.Kind == "time" || s.Cmd.Kind == "insert") && s.Cmd.Spec && r.Intn(6) == 0 {
		// pts_time + pts_adjustment lands exactly on, just below or just above the 2^33 wrap
		s.PtsAdj = (uint64(1)<<33 - s.Cmd.Pts + uint64([]int{0, 0, 1, 8589934591}[r.Intn(4)])) % (1 << 33)
	}
	if r.Intn(10) == 0 {
		s.Protocol = r.Intn(256)
		s.EncAlg = r.Intn(64)
	}
	for k := r.Intn(4); k > 0; k-- {
		if r.Intn(4) == 0 {
			s.Descs = append(s.Descs, absSDesc{Kind: "foreign", Tag: []int{0, 1, 3, 0xff}[r.Intn(4)], Body: rndBytes(r, r.Intn(10))})
		} else {
			s.Descs = append(s.Descs, rndSeg(r))
		}
	}
	if r.Intn(10) == 0 {
		maxLists(r, &s)
	}
	return s
}

// maxLists puts a count field of the signal at (or next to) the top of its range: component_count of a component-mode
// splice_insert (8 bits: 254 / 255), the component list of a segmentation descriptor (as many as descriptor_length
// allows: 39 with a duration and nothing else, 22..38 with room for a UPID), a long multiple-UPID list.
func maxLists(r *rand.Rand, s *absSig) {
	switch r.Intn(3) {
	case 0:
		if s.Cmd.Kind != "insert" {
			s.Cmd = absCmd{Kind: "insert", Eid: rndEid(r), Out: r.Intn(2) == 0, HasDur: r.Intn(2) == 0, Immediate: r.Intn(2) == 0, Spec: true,
				Pts: rnd33(r), AutoRet: r.Intn(2) == 0, Dur: rnd33(r), Upid: r.Intn(65536), Avail: r.Intn(256), Avails: r.Intn(256)}
		}
		s.Cmd.Cancel, s.Cmd.Program = false, false
		n := 254 + r.Intn(2)
		s.Cmd.Comps = nil
		for k := 0; k < n; k++ {
			s.Cmd.Comps = append(s.Cmd.Comps, absComp{Tag: r.Intn(256), Spec: !s.Cmd.Immediate && r.Intn(3) != 0, Pts: rnd33(r)})
		}
	case 1:
		d := rndSeg(r)
		d.Cancel, d.ProgSeg, d.HasSub, d.Mid = false, false, false, nil
		d.Comps = nil
		n := []int{21, 22, 23, 30, 38, 39}[r.Intn(6)]
		for k := 0; k < n; k++ {
			d.Comps = append(d.Comps, absSegComp{Tag: r.Intn(256), Off: rnd33(r)})
		}
		d.UpidType, d.Upid = 9, rndBytes(r, 40)
		if n == 39 {
			d.HasDur = r.Intn(4) != 0
		}
		for len(d.bytes()) > 257 && len(d.Upid) > 0 { // tag + length + at most 255
			d.Upid = d.Upid[:len(d.Upid)-1]
		}
		if len(d.bytes()) > 257 {
			d.HasDur = false
		}
		s.Descs = append(s.Descs, d)
	default:
		d := rndSeg(r)
		d.Cancel, d.UpidType, d.Upid, d.Mid, d.Comps, d.ProgSeg = false, 0x0d, nil, nil, nil, true
		for k := 40 + r.Intn(60); k > 0; k-- {
			d.Mid = append(d.Mid, absMid{Type: []int{9, 14, 1, 8, 15, 0}[r.Intn(6)], Upid: rndBytes(r, r.Intn(2))})
		}
		for len(d.bytes()) > 257 {
			d.Mid = d.Mid[:len(d.Mid)-1]
		}
		s.Descs = append(s.Descs, d)
	}
}

// ---- observation of a decoded / built signal through the public getters ----

func obsInsert(ci scte35.SpliceInsertCommand) Ev { return obsInsertO(nil, ci) }

func obsInsertO(e Ev, ci scte35.SpliceInsertCommand) Ev {
	g := Ev{}
	inOrder(e, func() {
		comps := []Ev{}
		for _, k := range ci.Components() {
			c := Ev{}
			inOrder(e, func() { c["tag"] = int(k.ComponentTag()) }, func() { c["haspts"] = k.HasPTS() }, func() { c["pts"] = W64(uint64(k.PTS())) })
			comps = append(comps, c)
		}
		g["comps"] = comps
	}, func() { g["eid"] = eid4(ci.EventID()) }, func() { g["cancel"] = ci.IsEventCanceled() }, func() { g["out"] = ci.IsOut() },
		func() { g["program"] = ci.IsProgramSplice() }, func() { g["hasdur"] = ci.HasDuration() }, func() { g["immediate"] = ci.SpliceImmediate() },
		func() { g["autoret"] = ci.IsAutoReturn() }, func() { g["dur"] = W64(uint64(ci.Duration())) }, func() { g["upid"] = int(ci.UniqueProgramId()) },
		func() { g["avail"] = int(ci.AvailNum()) }, func() { g["avails"] = int(ci.AvailsExpected()) })
	return g
}

func obsSeg(d scte35.SegmentationDescriptor, s scte35.SCTE35) Ev { return obsSegO(nil, d, s) }

func obsSegO(e Ev, d scte35.SegmentationDescriptor, s scte35.SCTE35) Ev {
	g := Ev{}
	inOrder(e, func() {
		comps := []Ev{}
		for _, k := range d.Components() {
			comps = append(comps, Ev{"tag": int(k.ComponentTag()), "off": W64(uint64(k.PTSOffset()))})
		}
		g["comps"] = comps
	}, func() {
		mid := []Ev{}
		for _, m := range d.MID() {
			mid = append(mid, Ev{"type": int(m.UPIDType()), "upid": B(m.UPID())})
		}
		g["mid"] = mid
	}, func() { g["eid"] = eid4(d.EventID()) }, func() { g["cancel"] = d.IsEventCanceled() }, func() { g["backref"] = d.SCTE35() == s },
		func() { g["progseg"] = d.HasProgramSegmentation() }, func() { g["hasdur"] = d.HasDuration() }, func() { g["dnr"] = d.IsDeliveryNotRestricted() },
		func() { g["web"] = d.IsWebDeliveryAllowed() }, func() { g["noblk"] = d.HasNoRegionalBlackout() }, func() { g["arch"] = d.IsArchiveAllowed() },
		func() { g["dev"] = int(d.DeviceRestrictions()) }, func() { g["dur"] = W64(uint64(d.Duration())) }, func() { g["upidtype"] = int(d.UPIDType()) },
		func() { g["upid"] = B(d.UPID()) }, func() { g["type"] = int(d.TypeID()) }, func() { g["segnum"] = int(d.SegmentNumber()) },
		func() { g["segexp"] = int(d.SegmentsExpected()) }, func() { g["hassub"] = d.HasSubSegments() }, func() { g["subnum"] = int(d.SubSegmentNumber()) },
		func() { g["subexp"] = int(d.SubSegmentsExpected()) })
	return g
}

func obsSig(s scte35.SCTE35) Ev { return obsSigO(nil, s) }

// obsSigO queries every getter of the signal in the order the event's key selects (nil: as listed).
func obsSigO(e Ev, s scte35.SCTE35) Ev {
	g := Ev{}
	inOrder(e, func() { g["tier"] = int(s.Tier()) }, func() { g["cmdtype"] = int(s.Command()) }, func() { g["haspts"] = s.HasPTS() },
		func() { g["pts"] = W64(uint64(s.PTS())) }, func() { g["cmd_haspts"] = s.CommandInfo().HasPTS() },
		func() { g["cmd_pts"] = W64(uint64(s.CommandInfo().PTS())) }, func() { g["astuff"] = int(s.AlignmentStuffing()) },
		func() {
			if ci, ok := s.CommandInfo().(scte35.SpliceInsertCommand); ok {
				g["insert"] = obsInsertO(e, ci)
			} else {
				g["insert"] = Ev{}
			}
		}, func() {
			ds := []Ev{}
			for _, d := range s.Descriptors() {
				ds = append(ds, obsSegO(e, d, s))
			}
			g["descs"] = ds
		})
	return g
}

// growSig lengthens a section to about target bytes (section_length is a 12-bit field, up to 4093):
// a component splice with many components and/or several descriptors with long UPIDs.
func growSig(r *rand.Rand, s *absSig, target int) {
	if s.Cmd.Kind == "insert" && !s.Cmd.Cancel && !s.Cmd.Program && r.Intn(2) == 0 {
		for len(s.Cmd.Comps) < 120 {
			s.Cmd.Comps = append(s.Cmd.Comps, absComp{Tag: r.Intn(256), Spec: !s.Cmd.Immediate && r.Intn(4) != 0, Pts: rnd33(r)})
		}
	}
	for len(s.section()) < target-270 {
		d := rndSeg(r)
		d.Cancel = false
		d.UpidType, d.Mid = []int{1, 2, 3, 8, 9, 12, 14, 15}[r.Intn(8)], nil
		d.Upid = rndBytes(r, 150+r.Intn(50)) // descriptor_length is one byte: keep the body below 256
		s.Descs = append(s.Descs, d)
	}
	for k := 0; len(s.section()) < target && k < 300 && len(s.Descs) > 0 && s.Descs[len(s.Descs)-1].Kind == "seg"; k++ {
		d := &s.Descs[len(s.Descs)-1]
		if len(d.bytes()) >= 257 {
			break
		}
		d.Upid = append(d.Upid, byte(r.Intn(256)))
	}
	// the exact length: foreign descriptors fill what is missing (two bytes of tag and length each)
	for rem := target - len(s.section()); rem >= 2; rem = target - len(s.section()) {
		n := rem - 2
		if n > 255 {
			n = 255
		}
		if rem-2-n == 1 { // never leave a single byte
			n--
		}
		s.Descs = append(s.Descs, absSDesc{Kind: "foreign", Tag: []int{1, 3, 0xff}[r.Intn(3)], Body: rndBytes(r, n)})
	}
}
