package main

import (
	"bytes"
	"fmt"
	"math/rand"

	gots "github.com/Comcast/gots/v2"
	"github.com/Comcast/gots/v2/scte35"
)

// C08: SCTE-35 decoding.
type c08 struct{}

func init() { register("C08", c08{}) }

func (c08) Gen(tier string, seed int64, emit0 func([]Ev)) {
	emit, flush := grouper(emit0, "decode")
	defer flush()
	r := rand.New(rand.NewSource(seed))
	n := 1500
	if tier == "thorough" {
		n = 150000
	}
	for i := 0; i < n; i++ {
		sel := i % 25
		if sel == 19 && tier == "thorough" && i%500 != 19 {
			sel = 0 // long sections are expensive to validate: 300 of them in the thorough tier
		}
		emit([]Ev{c08Item(r, sel, tier)})
	}
}

// c08Item draws one decode event from r; sel picks the variant (19: long section, 20..24: rejection classes and
// special commands, anything else: an ordinary section).  r may be driven by a fuzzer's bytes (byteSrc).
func c08Item(r *rand.Rand, sel int, tier string) Ev {
	s := rndSig(r)
	switch sel {
	case 7:
		// the section ends in 0xFF bytes and its CRC_32 is all ones, all zeros or stuffing- / sync-like
		t := s
		t.Descs = append([]absSDesc(nil), s.Descs...)
		if ffTailSig(r, &t) {
			s = t
		}
	case 19:
		// sections longer than 1023 bytes (section_length is a 12-bit field, up to 4093):
		// several descriptors with long UPIDs, or a component splice with many components
		target := []int{1024, 1030, 1100, 1500, 2048, 2100, 3000, 4000}[r.Intn(8)]
		if tier != "thorough" && r.Intn(3) != 0 {
			target = 1024 + r.Intn(300)
		}
		if r.Intn(2) == 0 {
			// section_length (= total - 3) just above a multiple of 1024 (what a 10-bit reading of the 12-bit field sees as
			// a tiny section), at the multiples themselves and at the maximum 4093
			target = 3 + []int{1024, 2048, 3072}[r.Intn(3)] + []int{0, 1, 5, 16, 17, 20}[r.Intn(6)]
			if r.Intn(8) == 0 {
				target = 3 + []int{4093, 4092, 1023, 1022}[r.Intn(4)]
			}
		}
		growSig(r, &s, target)
	case 20:
		s.Cmd = absCmd{Kind: "other", Type: []int{4, 7, 255, 1, 8}[r.Intn(5)], Body: rndBytes(r, r.Intn(12))}
	case 21:
		s.Enc = true
	case 22:
		s.TableId = []int{0x00, 0x02, 0xfb, 0xfd, 0xff}[r.Intn(5)]
	case 23:
		d := rndSeg(r)
		d.Ident = [][]byte{[]byte("CUEJ"), []byte("cuei"), {0, 0, 0, 0}, []byte("DVBI")}[r.Intn(4)]
		if r.Intn(2) == 0 { // a letter-case spelling or a one-bit neighbour of the identifier
			id := []byte("CUEI")
			if r.Intn(2) == 0 {
				for m, k := 1+r.Intn(15), 0; k < 4; k++ {
					if m>>uint(k)&1 != 0 {
						id[k] |= 0x20
					}
				}
			} else {
				id[r.Intn(4)] ^= 1 << uint(r.Intn(8))
			}
			d.Ident = id
		}
		if r.Intn(3) == 0 {
			// the right letters elsewhere in the descriptor (event id, UPID text) do not make up for a wrong identifier
			d.Cancel = false
			if r.Intn(2) == 0 {
				d.Eid = 0x43554549
			} else {
				d.UpidType, d.Mid, d.Upid = 9, nil, []byte("urn:CUEI:break1")
			}
		}
		s.Descs = append(s.Descs, d)
	case 24:
		if r.Intn(2) == 0 {
			s.Cmd = absCmd{Kind: "time", Spec: false}
		} else {
			s.Cmd = rndCmd(r)
			if s.Cmd.Kind == "insert" {
				s.Cmd.Cancel, s.Cmd.Program, s.Cmd.Immediate, s.Cmd.Spec = false, true, false, false
			}
		}
	}
	ptr := []int{0, 0, 0, 1, 2, 5}[r.Intn(6)]
	if sel == 9 || sel == 10 {
		// any pointer_field: the whole 8-bit range, in particular values that look like something else (0xFC is the
		// table_id, 0xFF stuffing) and the largest ones
		ptr = []int{100, 182, 183, 200, 251, 252, 253, 254, 255, 252, 255, 128, 127}[r.Intn(13)]
	}
	if sel == 8 {
		// pointer_field 71 (what a sync byte looks like); when the section is short enough it is padded to 116 bytes so
		// that the whole payload is 188 bytes long
		ptr = 71
		if len(s.section()) <= 114 && len(s.AStuff) == 0 && !s.Enc {
			growSig(r, &s, 116)
		}
	}
	b := append(append([]byte{byte(ptr)}, bytes.Repeat([]byte{0xff}, ptr)...), s.section()...)
	return Ev{"op": "decode", "abs": s.ev(), "ptr": ptr, "bytes": B(b)}
}

// GenRows: the fuzzer's bytes drive the same generator (structured, coverage-guided choice of well-formed sections).
func (c08) GenRows(rows []Ev, tier string, seed int64, emit func([]Ev)) {
	for _, row := range rows {
		sel := GI(row["opi"]) % 25
		if sel == 19 {
			sel = 0 // long sections stay with the deterministic generator
		}
		emit([]Ev{c08Item(rand.New(&byteSrc{b: GB(row["in"])}), sel, "quick")})
	}
}

func c08Err(err error) string {
	switch err {
	case nil:
		return "nil"
	case gots.ErrSCTE35UnsupportedSpliceCommand:
		return "unsupported"
	case gots.ErrSCTE35EncryptionUnsupported:
		return "encrypted"
	case gots.ErrUnknownTableID:
		return "tableid"
	case gots.ErrSCTE35InvalidDescriptorID:
		return "descid"
	case gots.ErrInvalidSCTE35Length:
		return "length"
	}
	return "other"
}

func (c08) Exec(h []Ev) []Ev {
	var held holder
	for _, e := range h {
		e["g"] = Ev{}
		e["earlier_same"] = true
		e["panic"] = guard(func() {
			defer func() { e["earlier_same"] = held.same() }()
			b := GB(e["bytes"])
			keep := append([]byte(nil), b...)
			s, err := scte35.NewSCTE35(b)
			e["err"] = c08Err(err)
			if err == nil {
				e["g"] = obsSigO(e, s)
				defer held.hold(func() string { return jsonOf(obsSig(s)) + jsonOf(B(s.Data())) })
			}
			e["input_same"] = bytes.Equal(b, keep)
		})
	}
	return h
}

func (c08) Class(e Ev) string {
	a := asMap(e["abs"])
	cmd := asMap(a["cmd"])
	k := GS(cmd["kind"])
	if k == "insert" {
		k = fmt.Sprintf("insert/c%v/p%v/i%v/d%v", GBool(cmd["cancel"]), GBool(cmd["program"]), GBool(cmd["immediate"]), GBool(cmd["hasdur"]))
	}
	nd := 0
	switch t := a["descs"].(type) {
	case []Ev:
		nd = len(t)
	case []interface{}:
		nd = len(t)
	}
	return fmt.Sprintf("decode/%s/descs%d/%s", k, nd, GS(e["err"]))
}
