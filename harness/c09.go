package main

import (
	"fmt"
	"math/rand"

	gots "github.com/Comcast/gots/v2"
	"github.com/Comcast/gots/v2/scte35"
)

// C09: SCTE-35 encoding and the creation/setter API.
type c09 struct{}

func init() { register("C09", c09{}) }

// A history is a script: the first event says how the signal is obtained
// ("create" with a command kind, or "decode" of an abstract section), the
// following events are setter calls ("set") and encodings ("encode").
// Setter targets: "sig", "cmd", "seg:<k>" (k-th segmentation descriptor).

func c09Arg33(r *rand.Rand, wide bool) uint64 {
	if wide && r.Intn(3) == 0 {
		return uint64(r.Int63()) | 1<<40 // out of range: only the encoding is compared (truncation)
	}
	return rnd33(r)
}

func (c09) Gen(tier string, seed int64, emit func([]Ev)) {
	r := rand.New(rand.NewSource(seed))
	n := 500
	if tier == "thorough" {
		n = 40000
	}
	for i := 0; i < n; i++ {
		emit(c09History(r, i, tier))
	}
}

// c09History draws one history (decode or create, setter calls, encodes) from r; r may be driven by a fuzzer's bytes.
func c09History(r *rand.Rand, i int, tier string) []Ev {
	var h []Ev
	nseg := 0
	kind := "null"
	if i%3 == 0 { // start from a decoded canonical section
		s := rndSig(r)
		for !(s.Cmd.Kind == "null" || s.Cmd.Kind == "time" || s.Cmd.Kind == "insert") {
			s = rndSig(r)
		}
		if i%30 == 0 && (tier != "thorough" || i%600 == 0) {
			target := 1024 + r.Intn(400) // re-encoding a section longer than 1023 bytes
			if (i/30)%2 == 1 {
				// section_length exactly at, just below and just above a multiple of 1024 (the two upper bits of the 12-bit field
				// are written apart from the ten lower ones), and at the maximum
				target = 3 + []int{1024, 1023, 1025, 2048, 3072, 1024, 2047, 4093}[r.Intn(8)]
			}
			growSig(r, &s, target)
		}
		kind = s.Cmd.Kind
		order := []string{}
		foreign := []Ev{}
		for _, d := range s.Descs {
			if d.Kind == "seg" {
				order = append(order, "s")
				nseg++
			} else {
				order = append(order, "f")
				foreign = append(foreign, Ev{"tag": d.Tag, "body": B(d.Body)})
			}
		}
		h = append(h, Ev{"op": "encode", "how": "decode", "src_abs": s.ev(), "src": B(s.section()), "order": order, "foreign": foreign})
		if kind == "insert" && len(s.Cmd.Comps) > 0 && !s.Cmd.Cancel {
			for q := 1 + r.Intn(3); q > 0; q-- {
				e := Ev{"op": "set", "target": "cmd", "k": r.Intn(4), "fresh": r.Intn(4) == 0}
				switch r.Intn(3) {
				case 0:
					e["field"], e["arg"] = "ins.comp.tag", r.Intn(256)
				case 1:
					e["field"], e["arg"] = "ins.comp.haspts", r.Intn(2) == 0
				default:
					e["field"], e["arg"] = "ins.comp.pts", W64(c09Arg33(r, true))
				}
				h = append(h, e)
			}
		}
	} else {
		kind = []string{"null", "time", "time", "insert", "insert"}[r.Intn(5)]
		nseg = r.Intn(3)
		h = append(h, Ev{"op": "set", "how": "create", "cmdkind": kind, "nseg": nseg, "target": "sig", "field": "tier", "arg": r.Intn(65536)})
	}
	steps := 6 + r.Intn(18)
	for k := 0; k < steps; k++ {
		e := Ev{"op": "set"}
		x := r.Intn(10)
		switch {
		case x < 2:
			e["target"] = "sig"
			switch r.Intn(5) {
			case 4:
				e["field"], e["arg"] = "astuff", r.Intn(5)
			case 0:
				e["field"], e["arg"] = "tier", r.Intn(65536)
			case 1:
				e["field"], e["arg"] = "pts", W64(rnd33(r))
				e["same"] = r.Intn(3) == 0 // the value the signal reports at that moment (its command may carry another one)
			case 2:
				e["field"], e["arg"] = "adjustpts", W64(rnd33(r))
				e["same"] = r.Intn(4) == 0
			case 3:
				e["field"], e["arg"] = "haspts", r.Intn(2) == 0
			}
		case x < 5 && kind != "null":
			e["target"] = "cmd"
			if kind == "time" {
				if r.Intn(2) == 0 {
					e["field"], e["arg"] = "cmd.haspts", r.Intn(2) == 0
				} else {
					e["field"], e["arg"] = "cmd.pts", W64(c09Arg33(r, true))
				}
			} else {
				switch r.Intn(16) {
				case 13, 14, 15:
					// the components of a component-mode splice_insert are edited in place through the
					// Components() list (entries have setters; an entry can be replaced by CreateComponent())
					e["k"] = r.Intn(4)
					e["fresh"] = r.Intn(4) == 0
					switch r.Intn(3) {
					case 0:
						e["field"], e["arg"] = "ins.comp.tag", r.Intn(256)
					case 1:
						e["field"], e["arg"] = "ins.comp.haspts", r.Intn(2) == 0
					default:
						e["field"], e["arg"] = "ins.comp.pts", W64(c09Arg33(r, true))
					}
				case 0:
					e["field"], e["arg"] = "ins.eid", eid4(rndEid(r))
				case 1:
					e["field"], e["arg"] = "ins.out", r.Intn(2) == 0
				case 2:
					e["field"], e["arg"] = "ins.cancel", r.Intn(3) == 0
				case 3:
					e["field"], e["arg"] = "cmd.haspts", r.Intn(2) == 0
				case 4:
					e["field"], e["arg"] = "cmd.pts", W64(c09Arg33(r, true))
				case 5:
					e["field"], e["arg"] = "ins.hasdur", r.Intn(2) == 0
				case 6:
					e["field"], e["arg"] = "ins.dur", W64(rnd33(r))
				case 7:
					e["field"], e["arg"] = "ins.autoret", r.Intn(2) == 0
				case 8:
					e["field"], e["arg"] = "ins.upid", r.Intn(65536)
				case 9:
					e["field"], e["arg"] = "ins.avail", r.Intn(256)
				case 10:
					e["field"], e["arg"] = "ins.avails", r.Intn(256)
				case 11:
					e["field"], e["arg"] = "ins.program", r.Intn(2) == 0
				case 12:
					e["field"], e["arg"] = "ins.immediate", r.Intn(2) == 0
				}
			}
		case x < 9 && nseg > 0:
			e["target"] = fmt.Sprintf("seg:%d", r.Intn(nseg))
			switch r.Intn(22) {
			case 0:
				e["field"], e["arg"] = "seg.eid", eid4(rndEid(r))
			case 1:
				t := segTypes[r.Intn(len(segTypes))]
				if r.Intn(3) == 0 {
					t = []int{0x34, 0x36}[r.Intn(2)] // the two types that keep sub-segment fields
				}
				e["field"], e["arg"] = "seg.type", t
				if r.Intn(3) == 0 {
					// a descriptor of a sub-segment type with the flag set, then retyped (to the other
					// sub-segment type, the same one, or any other type)
					h = append(h, Ev{"op": "set", "target": e["target"], "field": "seg.type", "arg": []int{0x34, 0x36}[r.Intn(2)]},
						Ev{"op": "set", "target": e["target"], "field": "seg.hassub", "arg": true})
				}
			case 2:
				e["field"], e["arg"] = "seg.cancel", r.Intn(4) == 0
			case 3:
				e["field"], e["arg"] = "seg.hasdur", r.Intn(2) == 0
			case 4:
				v := rnd40(r)
				if r.Intn(3) == 0 {
					v |= 1 << 45 // documented: truncated to 40 bits
				}
				e["field"], e["arg"] = "seg.dur", W64(v)
			case 5:
				e["field"], e["arg"] = "seg.upidtype", []int{0, 1, 8, 9, 13, 13, 14, 15, -1, -1}[r.Intn(10)] // -1: the type it already has
			case 6:
				e["field"], e["arg"] = "seg.upid", B(rndBytes(r, r.Intn(14)))
			case 7:
				e["field"], e["arg"] = "seg.segnum", r.Intn(256)
			case 8:
				e["field"], e["arg"] = "seg.segexp", r.Intn(256)
			case 9:
				e["field"], e["arg"] = "seg.subnum", r.Intn(256)
			case 10:
				e["field"], e["arg"] = "seg.subexp", r.Intn(256)
			case 11:
				e["field"], e["arg"] = "seg.progseg", r.Intn(2) == 0
			case 12:
				e["field"], e["arg"] = "seg.dnr", r.Intn(2) == 0
			case 13:
				e["field"], e["arg"] = "seg.web", r.Intn(2) == 0
			case 14:
				e["field"], e["arg"] = "seg.arch", r.Intn(2) == 0
			case 15:
				e["field"], e["arg"] = "seg.noblk", r.Intn(2) == 0
			case 16:
				e["field"], e["arg"] = "seg.dev", r.Intn(4)
			case 17:
				e["field"], e["arg"] = "seg.hassub", r.Intn(2) == 0
			case 18, 19, 20, 21:
				if w := r.Intn(4); w >= 2 {
					// read-modify-write: the descriptor's own Components()/MID() views handed back
					// in another order, some dropped, fresh ones inserted (plan: -1 = a fresh entry)
					plan := []int{}
					for q := r.Intn(5); q > 0; q-- {
						plan = append(plan, r.Intn(5)-1)
					}
					fresh := []Ev{}
					for range plan {
						fresh = append(fresh, Ev{"tag": r.Intn(256), "off": W64(rnd33(r)), "type": []int{9, 14, 1}[r.Intn(3)], "upid": B(rndBytes(r, r.Intn(10)))})
					}
					e["field"], e["plan"], e["fresh"] = []string{"seg.comps", "seg.mid"}[w-2], plan, fresh
					e["arg"] = []Ev{} // resolved at execution time from the views read before the call
					if r.Intn(3) != 0 {
						// make sure there is something to reorder: a fresh list of 2..4 entries first
						pre := Ev{"op": "set", "target": e["target"], "field": e["field"]}
						l := []Ev{}
						for q := 2 + r.Intn(3); q > 0; q-- {
							if w == 2 {
								l = append(l, Ev{"tag": r.Intn(256), "off": W64(rnd33(r))})
							} else {
								l = append(l, Ev{"type": []int{9, 14, 1}[r.Intn(3)], "upid": B(rndBytes(r, 1+r.Intn(9)))})
							}
						}
						pre["arg"] = l
						h = append(h, pre)
					}
				} else if w == 0 {
					m := []Ev{}
					for q := r.Intn(3); q > 0; q-- {
						m = append(m, Ev{"type": []int{9, 14, 1}[r.Intn(3)], "upid": B(rndBytes(r, r.Intn(10)))})
					}
					e["field"], e["arg"] = "seg.mid", m
				} else {
					cs := []Ev{}
					for q := r.Intn(3); q > 0; q-- {
						cs = append(cs, Ev{"tag": r.Intn(256), "off": W64(rnd33(r))})
					}
					e["field"], e["arg"] = "seg.comps", cs
				}
			}
		default:
			e = Ev{"op": "encode", "how": ""}
		}
		if GS(e["op"]) == "set" && nseg > 0 && r.Intn(14) == 0 {
			// a descriptor made to carry a multiple-UPID list, then given the UPID type it already has
			tg := fmt.Sprintf("seg:%d", r.Intn(nseg))
			l := []Ev{}
			for q := 1 + r.Intn(3); q > 0; q-- {
				l = append(l, Ev{"type": []int{9, 14, 1}[r.Intn(3)], "upid": B(rndBytes(r, 1+r.Intn(9)))})
			}
			h = append(h, Ev{"op": "set", "target": tg, "field": "seg.upidtype", "arg": 13},
				Ev{"op": "set", "target": tg, "field": "seg.mid", "arg": l},
				Ev{"op": "set", "target": tg, "field": "seg.upidtype", "arg": -1})
		}
		h = append(h, e)
		if _, own := e["plan"]; GS(e["op"]) == "set" && !own && e["how"] == nil && r.Intn(6) == 0 {
			// the same call again with the same argument: the second one must change nothing
			e2 := Ev{"repeat": true}
			for k, v := range e {
				e2[k] = v
			}
			h = append(h, e2)
		}
	}
	h = append(h, Ev{"op": "encode", "how": ""})
	return h
}

// GenRows: the fuzzer's bytes drive the same history generator (structured fuzzing).
func (c09) GenRows(rows []Ev, tier string, seed int64, emit func([]Ev)) {
	for _, row := range rows {
		i := GI(row["opi"])
		if i%30 == 0 {
			i++ // long sections stay with the deterministic generator
		}
		emit(c09History(rand.New(&byteSrc{b: GB(row["in"])}), i, "quick"))
	}
}

type c09State struct {
	s       scte35.SCTE35
	fixed   Ev
	order   []string
	foreign []Ev
	segs    []scte35.SegmentationDescriptor
}

func c09Fill(e Ev, st *c09State) {
	e["fixed"], e["order"], e["foreign"] = st.fixed, st.order, st.foreign
}

func (c09) Exec(h []Ev) []Ev {
	st := &c09State{}
	dead := false
	// a second signal, built and encoded before the history starts, lives side by side: building and encoding the
	// signal under test must leave its getters and its encoded bytes alone, and it must still encode to the same bytes
	var by scte35.SCTE35
	var byData, byObs string
	guard(func() {
		by = scte35.CreateSCTE35()
		c := scte35.CreateTimeSignalCommand()
		c.SetHasPTS(true)
		by.SetCommandInfo(c)
		by.SetPTS(123456789)
		d := scte35.CreateSegmentationDescriptor()
		d.SetEventID(77)
		d.SetTypeID(scte35.SegDescType(0x30))
		d.SetHasProgramSegmentation(true)
		d.SetUPIDType(scte35.SegUPIDType(9))
		d.SetUPID([]byte("bystander"))
		by.SetDescriptors([]scte35.SegmentationDescriptor{d})
		byData = string(by.UpdateData())
		byObs = jsonOf(obsSig(by))
	})
	for i, e := range h {
		e["bystander_same"] = true
		if dead {
			e["panic"] = "skipped-after-panic"
			continue
		}
		if _, ok := e["repeat"]; !ok {
			e["repeat"] = false
		}
		e["panic"] = guard(func() {
			how := GS(e["how"])
			if i == 0 {
				if how == "decode" {
					src := GB(e["src"])
					s, err := scte35.NewSCTE35(append([]byte{0}, src...))
					if err != nil {
						panic("harness: canonical section rejected: " + err.Error())
					}
					st.s = s
					a := asMap(e["src_abs"])
					st.fixed = Ev{"tableid": GI(a["tableid"]), "ssi": GBool(a["ssi"]), "priv": GBool(a["priv"]), "protocol": GI(a["protocol"]), "encalg": GI(a["encalg"]), "cw": GI(a["cw"])}
					for _, x := range toList(e["order"]) {
						st.order = append(st.order, GS(x))
					}
					for _, x := range toList(e["foreign"]) {
						m := asMap(x)
						st.foreign = append(st.foreign, Ev{"tag": GI(m["tag"]), "body": B(GB(m["body"]))})
					}
					st.segs = s.Descriptors()
					e["raw0"] = B(s.Data())
					e["has_src"] = true
				} else {
					s := scte35.CreateSCTE35()
					st.s = s
					st.fixed = Ev{"tableid": 0xfc, "ssi": false, "priv": false, "protocol": 0, "encalg": 0, "cw": 0}
					switch GS(e["cmdkind"]) {
					case "time":
						s.SetCommandInfo(scte35.CreateTimeSignalCommand())
					case "insert":
						s.SetCommandInfo(scte35.CreateSpliceInsertCommand())
					default:
						s.SetCommandInfo(scte35.CreateSpliceNull())
					}
					for k := 0; k < GI(e["nseg"]); k++ {
						st.segs = append(st.segs, scte35.CreateSegmentationDescriptor())
						st.order = append(st.order, "s")
					}
					if GI0(e["ord"])%3 == 1 && len(st.segs) > 0 {
						// the descriptors belonged to another signal before they were given to this one
						donor := scte35.CreateSCTE35()
						dc := scte35.CreateTimeSignalCommand()
						dc.SetHasPTS(true)
						donor.SetCommandInfo(dc)
						donor.SetPTS(77777)
						donor.SetDescriptors(st.segs)
						donor.UpdateData()
					}
					s.SetDescriptors(st.segs)
					e["raw0"] = B(s.Data())
				}
				if st.order == nil {
					st.order = []string{}
				}
				if st.foreign == nil {
					st.foreign = []Ev{}
				}
			}
			s := st.s
			switch GS(e["op"]) {
			case "encode":
				if _, ok := e["has_src"]; !ok {
					e["has_src"], e["src"] = false, []int{}
				}
				c09Fill(e, st)
				e["g"] = obsSigO(e, s)
				e["data_before"] = B(s.Data())
				b := append([]byte(nil), s.UpdateData()...)
				e["bytes"] = B(b)
				e["bytes2"] = B(s.UpdateData())
				e["data_after"] = B(s.Data())
				e["g2"], e["err2"] = Ev{}, "nil"
				s2, err := scte35.NewSCTE35(append([]byte{0}, b...))
				e["err2"] = c08Err(err)
				if err == nil {
					e["g2"] = obsSigO(e, s2)
				}
			case "set":
				e["seg_index"] = -1
				if t := GS(e["target"]); len(t) > 4 && t[:4] == "seg:" {
					var k int
					fmt.Sscanf(t, "seg:%d", &k)
					e["seg_index"] = k
				}
				e["before"] = obsSig(s)
				c09Set(e, st)
				e["after"] = obsSig(s)
				e["data_after"] = B(s.Data())
			}
			if by != nil {
				same := string(by.Data()) == byData && jsonOf(obsSig(by)) == byObs
				if i == len(h)-1 {
					same = same && string(by.UpdateData()) == byData
				}
				e["bystander_same"] = same
			}
		})
		if GS(e["panic"]) != "" {
			dead = true
		}
	}
	return h
}

func toList(v interface{}) []interface{} {
	switch t := v.(type) {
	case []interface{}:
		return t
	case []Ev:
		out := make([]interface{}, len(t))
		for i := range t {
			out[i] = t[i]
		}
		return out
	case []string:
		out := make([]interface{}, len(t))
		for i := range t {
			out[i] = t[i]
		}
		return out
	}
	return nil
}

func eidOf(v interface{}) uint32 {
	x := GIs(v)
	return uint32(x[0])<<24 | uint32(x[1])<<16 | uint32(x[2])<<8 | uint32(x[3])
}

func c09Set(e Ev, st *c09State) {
	s := st.s
	f := GS(e["field"])
	arg := e["arg"]
	e["ctx_upidtype"], e["hassub_after"] = 0, false
	switch GS(e["target"]) {
	case "sig":
		switch f {
		case "tier":
			s.SetTier(uint16(GI(arg)))
			e["got"] = int(s.Tier())
		case "pts":
			if GBool(e["same"]) {
				arg = W64(uint64(s.PTS()))
				e["arg"] = arg
			}
			s.SetPTS(gots.PTS(UW64(arg)))
			e["got"] = W64(uint64(s.PTS()))
		case "adjustpts":
			if GBool(e["same"]) {
				arg = W64(uint64(s.PTS()))
				e["arg"] = arg
			}
			s.SetAdjustPTS(gots.PTS(UW64(arg)))
			e["got"] = W64(uint64(s.PTS()))
		case "astuff":
			s.SetAlignmentStuffing(uint(GI(arg)))
			e["got"] = int(s.AlignmentStuffing())
		case "haspts":
			s.SetHasPTS(GBool(arg))
			if s.Command() == scte35.SpliceNull {
				e["got"] = GBool(arg) // a null command has no time: nothing to observe
			} else {
				e["got"] = s.HasPTS()
			}
		}
	case "cmd":
		c := s.CommandInfo()
		ci, _ := c.(scte35.SpliceInsertCommand)
		switch f {
		case "cmd.haspts":
			c.SetHasPTS(GBool(arg))
			e["got"] = c.HasPTS()
		case "cmd.pts":
			c.SetPTS(gots.PTS(UW64(arg)))
			e["got"] = W64(uint64(c.PTS()))
		case "ins.eid":
			ci.SetEventID(eidOf(arg))
			e["got"] = eid4(ci.EventID())
		case "ins.out":
			ci.SetIsOut(GBool(arg))
			e["got"] = ci.IsOut()
		case "ins.cancel":
			ci.SetIsEventCanceled(GBool(arg))
			e["got"] = ci.IsEventCanceled()
		case "ins.hasdur":
			ci.SetHasDuration(GBool(arg))
			e["got"] = ci.HasDuration()
		case "ins.dur":
			ci.SetDuration(gots.PTS(UW64(arg)))
			e["got"] = W64(uint64(ci.Duration()))
		case "ins.autoret":
			ci.SetIsAutoReturn(GBool(arg))
			e["got"] = ci.IsAutoReturn()
		case "ins.upid":
			ci.SetUniqueProgramId(uint16(GI(arg)))
			e["got"] = int(ci.UniqueProgramId())
		case "ins.avail":
			ci.SetAvailNum(uint8(GI(arg)))
			e["got"] = int(ci.AvailNum())
		case "ins.avails":
			ci.SetAvailsExpected(uint8(GI(arg)))
			e["got"] = int(ci.AvailsExpected())
		case "ins.program":
			ci.SetIsProgramSplice(GBool(arg))
			e["got"] = ci.IsProgramSplice()
		case "ins.immediate":
			ci.SetSpliceImmediate(GBool(arg))
			e["got"] = ci.SpliceImmediate()
		case "ins.comp.tag", "ins.comp.haspts", "ins.comp.pts":
			cs := ci.Components()
			e["nocomp"] = len(cs) == 0
			if len(cs) == 0 {
				e["got"] = arg // nothing to edit: the call is not made
				break
			}
			k := GI(e["k"]) % len(cs)
			e["k"] = k
			if GBool(e["fresh"]) {
				nc := scte35.CreateComponent()
				nc.SetComponentTag(cs[k].ComponentTag())
				nc.SetHasPTS(cs[k].HasPTS())
				nc.SetPTS(cs[k].PTS())
				cs[k] = nc
			}
			switch f {
			case "ins.comp.tag":
				cs[k].SetComponentTag(byte(GI(arg)))
				e["got"] = int(ci.Components()[k].ComponentTag())
			case "ins.comp.haspts":
				cs[k].SetHasPTS(GBool(arg))
				e["got"] = ci.Components()[k].HasPTS()
			default:
				cs[k].SetPTS(gots.PTS(UW64(arg)))
				e["got"] = W64(uint64(ci.Components()[k].PTS()))
			}
		}
	default: // seg:<k>
		var k int
		fmt.Sscanf(GS(e["target"]), "seg:%d", &k)
		d := st.segs[k]
		e["ctx_upidtype"] = int(d.UPIDType())
		switch f {
		case "seg.eid":
			d.SetEventID(eidOf(arg))
			e["got"] = eid4(d.EventID())
		case "seg.type":
			d.SetTypeID(scte35.SegDescType(GI(arg)))
			e["got"] = int(d.TypeID())
		case "seg.cancel":
			d.SetIsEventCanceled(GBool(arg))
			e["got"] = d.IsEventCanceled()
		case "seg.hasdur":
			d.SetHasDuration(GBool(arg))
			e["got"] = d.HasDuration()
		case "seg.dur":
			d.SetDuration(gots.PTS(UW64(arg)))
			e["got"] = W64(uint64(d.Duration()))
		case "seg.upidtype":
			if GI(arg) < 0 { // set again to the value the field already holds: must be a no-op
				arg = int(d.UPIDType())
				e["arg"] = arg
			}
			d.SetUPIDType(scte35.SegUPIDType(GI(arg)))
			e["got"] = int(d.UPIDType())
		case "seg.upid":
			d.SetUPID(nilIfEmpty(e, GB(arg)))
			e["got"] = B(d.UPID())
		case "seg.segnum":
			d.SetSegmentNumber(uint8(GI(arg)))
			e["got"] = int(d.SegmentNumber())
		case "seg.segexp":
			d.SetSegmentsExpected(uint8(GI(arg)))
			e["got"] = int(d.SegmentsExpected())
		case "seg.subnum":
			d.SetSubSegmentNumber(uint8(GI(arg)))
			e["got"] = int(d.SubSegmentNumber())
		case "seg.subexp":
			d.SetSubSegmentsExpected(uint8(GI(arg)))
			e["got"] = int(d.SubSegmentsExpected())
		case "seg.progseg":
			d.SetHasProgramSegmentation(GBool(arg))
			e["got"] = d.HasProgramSegmentation()
		case "seg.dnr":
			d.SetIsDeliveryNotRestricted(GBool(arg))
			e["got"] = d.IsDeliveryNotRestricted()
		case "seg.web":
			d.SetIsWebDeliveryAllowed(GBool(arg))
			e["got"] = d.IsWebDeliveryAllowed()
		case "seg.arch":
			d.SetIsArchiveAllowed(GBool(arg))
			e["got"] = d.IsArchiveAllowed()
		case "seg.noblk":
			d.SetHasNoRegionalBlackout(GBool(arg))
			e["got"] = d.HasNoRegionalBlackout()
		case "seg.dev":
			d.SetDeviceRestrictions(scte35.DeviceRestrictions(GI(arg)))
			e["got"] = int(d.DeviceRestrictions())
		case "seg.hassub":
			d.SetHasSubSegments(GBool(arg))
			e["got"] = d.HasSubSegments()
		case "seg.mid":
			var us []scte35.UPID
			if plan, ok := e["plan"]; ok {
				own := d.MID()
				fresh := toList(e["fresh"])
				res := []Ev{}
				for k, ix := range GIs(plan) {
					var u scte35.UPID
					if ix >= 0 && len(own) > 0 {
						u = own[ix%len(own)]
					} else {
						m := asMap(fresh[k])
						u = scte35.CreateUPID()
						u.SetUPIDType(scte35.SegUPIDType(GI(m["type"])))
						u.SetUPID(GB(m["upid"]))
					}
					us = append(us, u)
					res = append(res, Ev{"type": int(u.UPIDType()), "upid": B(u.UPID())})
				}
				e["arg"], arg = res, []interface{}{}
			}
			for _, x := range toList(arg) {
				m := asMap(x)
				u := scte35.CreateUPID()
				u.SetUPIDType(scte35.SegUPIDType(GI(m["type"])))
				u.SetUPID(GB(m["upid"]))
				us = append(us, u)
			}
			d.SetMID(us)
			got := []Ev{}
			for _, m := range d.MID() {
				got = append(got, Ev{"type": int(m.UPIDType()), "upid": B(m.UPID())})
			}
			e["got"] = got
		case "seg.comps":
			var cs []scte35.ComponentOffset
			if plan, ok := e["plan"]; ok {
				own := d.Components()
				fresh := toList(e["fresh"])
				res := []Ev{}
				for k, ix := range GIs(plan) {
					var c scte35.ComponentOffset
					if ix >= 0 && len(own) > 0 {
						c = own[ix%len(own)]
					} else {
						m := asMap(fresh[k])
						c = scte35.CreateComponentOffset()
						c.SetComponentTag(byte(GI(m["tag"])))
						c.SetPTSOffset(gots.PTS(UW64(m["off"])))
					}
					cs = append(cs, c)
					res = append(res, Ev{"tag": int(c.ComponentTag()), "off": W64(uint64(c.PTSOffset()))})
				}
				e["arg"], arg = res, []interface{}{}
			}
			for _, x := range toList(arg) {
				m := asMap(x)
				c := scte35.CreateComponentOffset()
				c.SetComponentTag(byte(GI(m["tag"])))
				c.SetPTSOffset(gots.PTS(UW64(m["off"])))
				cs = append(cs, c)
			}
			d.SetComponents(cs)
			got := []Ev{}
			for _, c := range d.Components() {
				got = append(got, Ev{"tag": int(c.ComponentTag()), "off": W64(uint64(c.PTSOffset()))})
			}
			e["got"] = got
		}
		e["hassub_after"] = d.HasSubSegments()
	}
}

func (c09) Class(e Ev) string {
	if GS(e["op"]) == "set" {
		return "set/" + GS(e["field"])
	}
	g, ok := e["g"].(Ev)
	if !ok {
		return "encode"
	}
	nd := 0
	if ds, ok := g["descs"].([]Ev); ok {
		nd = len(ds)
	}
	return fmt.Sprintf("encode/cmd%d/descs%d/src%v", GI(g["cmdtype"]), nd, GBool(e["has_src"]))
}
