package main

import (
	"fmt"
	"math/rand"

	gots "github.com/Comcast/gots/v2"
	"github.com/Comcast/gots/v2/packet"
	"github.com/Comcast/gots/v2/pes"
)

// C11: PES header decoding.
type c11 struct{}

func init() { register("C11", c11{}) }

var c11NoOpt = map[int]bool{190: true, 191: true, 240: true, 241: true, 242: true, 248: true, 255: true}

// c11Pes builds a PES packet start (inputs only; TLC checks well-formedness itself).
func c11Pes(r *rand.Rand, sid int, ptsdts int, extra int, dataLen int, pts, dts uint64) []byte {
	plen := r.Intn(65536)
	b := []byte{0, 0, 1, byte(sid), byte(plen >> 8), byte(plen)}
	if !c11NoOpt[sid] {
		flags1 := byte(0x80 | r.Intn(64))
		flags2 := byte(ptsdts<<6 | r.Intn(64))
		hl := extra
		if ptsdts == 2 {
			hl += 5
		} else if ptsdts == 3 {
			hl += 10
		}
		if hl > 255 {
			hl = 255
			extra = 255
			if ptsdts == 2 {
				extra = 250
			} else if ptsdts == 3 {
				extra = 245
			}
		}
		b = append(b, flags1, flags2, byte(hl))
		ts := func(prefix byte, v uint64) {
			t := make([]byte, 5)
			gotsInsertPTS(t, prefix, v)
			b = append(b, t...)
		}
		if ptsdts == 2 {
			ts(0x20, pts)
		} else if ptsdts == 3 {
			ts(0x30, pts)
			ts(0x10, dts)
		}
		ex := make([]byte, extra)
		for i := range ex {
			ex[i] = 0xff
			if r.Intn(4) == 0 {
				ex[i] = byte(r.Intn(256))
			}
		}
		b = append(b, ex...)
	}
	d := make([]byte, dataLen)
	r.Read(d)
	b = append(b, d...)
	// PES_packet_length: any value (drawn above), the number of bytes that actually follow it, one next to that, or a small
	// value (what a decoder must not do is bound its parsing of the header by it wrongly)
	switch r.Intn(4) {
	case 1:
		plen = len(b) - 6
	case 2:
		plen = r.Intn(41)
	case 3:
		plen = len(b) - 6 + []int{-5, -1, 1, 6}[r.Intn(4)]
	}
	if plen < 0 || plen > 65535 {
		plen = 0
	}
	b[4], b[5] = byte(plen>>8), byte(plen)
	return b
}

// gotsInsertPTS: harness-side timestamp writer (independent of the library's InsertPTS).
func gotsInsertPTS(t []byte, prefix byte, v uint64) {
	t[0] = prefix | byte(v>>30&0x07)<<1 | 1
	t[1] = byte(v >> 22)
	t[2] = byte(v>>15&0x7f)<<1 | 1
	t[3] = byte(v >> 7)
	t[4] = byte(v&0x7f)<<1 | 1
}

var _ = gots.ExtractTime

func c11Time(r *rand.Rand) uint64 {
	switch r.Intn(6) {
	case 0:
		return uint64(1) << uint(r.Intn(33))
	case 1:
		return (uint64(1) << uint(1+r.Intn(33))) - 1
	case 2:
		return []uint64{0, 1<<33 - 1, 1 << 32, 1<<15 - 1, 1 << 15, 1 << 30, 1<<30 - 1}[r.Intn(7)]
	}
	return uint64(r.Int63n(1 << 33))
}

func (c11) Gen(tier string, seed int64, emit0 func([]Ev)) {
	emit, flush := grouper(emit0, "pes")
	defer flush()
	r := rand.New(rand.NewSource(seed))
	reps := 1
	if tier == "thorough" {
		reps = 80
	}
	for rep := 0; rep < reps; rep++ {
		for sid := 0; sid < 256; sid++ {
			for _, pd := range []int{0, 2, 3} {
				extras := []int{0, 1 + r.Intn(6), r.Intn(246)}
				if (sid+rep)%16 == 0 {
					extras = append(extras, 255)
				}
				for _, ex := range extras {
					dl := []int{0, 1, 3, 50, 300}[r.Intn(5)]
					if c11NoOpt[sid] && dl == 0 {
						dl = 1
					}
					b := c11Pes(r, sid, pd, ex, dl, c11Time(r), c11Time(r))
					// the getters of the fresh object are queried in an order chosen here (0: declaration order)
					emit([]Ev{{"op": "pes", "bytes": B(b), "lenient": false, "order": r.Intn(3) * (1 + r.Intn(1<<20))}})
				}
			}
		}
		// data longer than PES_packet_length can count (video elementary streams use length 0 for that)
		if rep == 0 || rep%20 == 0 {
			for k, dl := range []int{65527, 65536, 70003} {
				sid := []int{0xe0, 0xbe, 0xe1}[k]
				emit([]Ev{{"op": "pes", "bytes": B(c11Pes(r, sid, []int{2, 0, 3}[k], r.Intn(4), dl, c11Time(r), c11Time(r))), "lenient": false, "order": r.Intn(1 << 20)}})
			}
		}
		// the library's own PES creation option, end to end: Create(pid, WithPES(pts)) -> PESHeader -> NewPESHeader
		for k := 0; k < 120; k++ {
			emit([]Ev{{"op": "withpes", "pid": r.Intn(8192), "pts": W64(c11Time(r))}})
		}
		// transport packets carrying PES starts (and near misses)
		for k := 0; k < 400; k++ {
			afLen := -1
			switch r.Intn(4) {
			case 0:
				afLen = r.Intn(170)
			case 1:
				afLen = 176 + r.Intn(7) // payload of 1..7 bytes
			}
			var p packet.Packet
			if afLen >= 1 {
				p = pktWithAF(r, randAF(r, afLen), true)
			} else {
				r.Read(p[:])
				p[0], p[3] = 0x47, p[3]&0x0f|0x10
				if afLen == 0 {
					p[3] |= 0x20
					p[4] = 0
				}
			}
			p[1] &^= 0x40
			if r.Intn(4) != 0 {
				p[1] |= 0x40
			}
			hl := 4
			if p[3]&0x20 != 0 {
				hl = 5 + int(p[4])
			}
			pesb := c11Pes(r, []int{0xe0, 0xc0, 0xbd, 190, 191, 0xfc, r.Intn(256)}[r.Intn(7)], []int{0, 2, 3}[r.Intn(3)], r.Intn(8), 200, c11Time(r), c11Time(r))
			switch r.Intn(6) {
			case 0:
				pesb[2] = 2 // wrong prefix
			case 1:
				pesb[0] = 1
			}
			copy(p[hl:], pesb)
			if r.Intn(10) == 0 { // adaptation field only: no payload at all
				pusi := p[1] & 0x40
				p = pktWithAF(r, randAF(r, 183), false)
				p[1] = p[1]&^0x40 | pusi
			}
			emit([]Ev{{"op": "tspes", "pkt": B(p[:])}})
		}
		// pairs in one history: an aligned PES start with data, then one whose header fills the payload exactly
		// (no data at all): the answer for the second must not depend on the first
		for k := 0; k < 60; k++ {
			var h []Ev
			for j := 0; j < 2; j++ {
				sid := []int{0xe0, 0xc0, 0xbd}[r.Intn(3)]
				pd := []int{0, 2, 3}[r.Intn(3)]
				ex := r.Intn(6)
				dl := 20 + r.Intn(100)
				if j == 1 {
					dl = 0
				}
				pesb := c11Pes(r, sid, pd, ex, dl, c11Time(r), c11Time(r))
				pesb[6] |= 0x04 // data_alignment_indicator
				if len(pesb) > 184 {
					continue
				}
				var p packet.Packet
				if len(pesb) == 184 {
					r.Read(p[:])
					p[3] = p[3]&0x0f | 0x10
				} else {
					p = pktWithAF(r, absAF{Len: 183 - len(pesb)}, true)
				}
				p[0] = 0x47
				p[1] |= 0x40
				copy(p[188-len(pesb):], pesb)
				h = append(h, Ev{"op": "tspes", "pkt": B(p[:])})
			}
			if len(h) > 0 {
				emit(h)
			}
		}
	}
}

// GenRows: byte strings kept by the coverage-guided fuzzer (FuzzC11); judged when Pes!WellFormed accepts them.
func (c11) GenRows(rows []Ev, tier string, seed int64, emit func([]Ev)) {
	for _, row := range rows {
		in := GB(row["in"])
		if len(in) > 400 {
			in = in[:400]
		}
		if in == nil {
			in = []byte{}
		}
		emit([]Ev{{"op": "pes", "bytes": B(in), "lenient": true}})
	}
}

func (c11) Exec(h []Ev) []Ev {
	var held holder
	for _, e := range h {
		e["earlier_same"] = true
		e["panic"] = guard(func() {
			defer func() { e["earlier_same"] = held.same() }()
			switch GS(e["op"]) {
			case "withpes":
				pts := UW64(e["pts"])
				p := packet.Create(GI(e["pid"]), packet.WithPUSI, func(q *packet.Packet) { packet.WithPES(q, pts) })
				e["pkt"] = B(p[:])
				hb, err := packet.PESHeader(p)
				e["hdr_err"] = err != nil
				e["haspts"], e["pts_back"] = false, W64(0)
				if err == nil {
					if hd, herr := pes.NewPESHeader(hb); herr == nil {
						e["haspts"], e["pts_back"] = hd.HasPTS(), W64(hd.PTS())
					}
				}
			case "pes":
				b := GB(e["bytes"])
				keep := append([]byte(nil), b...)
				hd, err := pes.NewPESHeader(b)
				e["err"] = err != nil
				if hd != nil {
					gets := []func(){
						func() { e["prefix"] = int(hd.PacketStartCodePrefix()) },
						func() { e["sid"] = int(hd.StreamId()) },
						func() { e["dai"] = hd.DataAligned() },
						func() { e["haspts"] = hd.HasPTS() },
						func() { e["hasdts"] = hd.HasDTS() },
						func() { e["pts"] = W64(hd.PTS()) },
						func() { e["dts"] = W64(hd.DTS()) },
						func() { e["data"] = B(hd.Data()) },
					}
					idx := []int{0, 1, 2, 3, 4, 5, 6, 7}
					if o, ok := e["order"]; ok && GI(o) != 0 {
						idx = rand.New(rand.NewSource(int64(GI(o)))).Perm(len(gets))
					}
					for _, i := range idx {
						gets[i]()
					}
					defer held.hold(func() string {
						return jsonOf([]interface{}{hd.PacketStartCodePrefix(), hd.StreamId(), hd.DataAligned(), hd.HasPTS(), hd.HasDTS(), hd.PTS(), hd.DTS(), hd.Data()})
					})
				}
				e["input_same"] = string(b) == string(keep)
			case "tspes":
				var p packet.Packet
				copy(p[:], GB(e["pkt"]))
				hb, err := packet.PESHeader(&p)
				e["hdr"], e["hdr_err"] = B(hb), err != nil
				d, ok := pes.AlignedPUSI(&p)
				e["aligned"], e["aligned_ok"] = B(d), ok
			}
		})
	}
	return h
}

func (c11) Class(e Ev) string {
	if GS(e["op"]) == "withpes" {
		return "withpes"
	}
	if GS(e["op"]) == "tspes" {
		return fmt.Sprintf("tspes/hdr%v/aligned%v", !GBool(e["hdr_err"]), GBool(e["aligned_ok"]))
	}
	b := GB(e["bytes"])
	sid := int(b[3])
	if c11NoOpt[sid] {
		return fmt.Sprintf("pes/noopt/%d", sid)
	}
	hl := int(b[8])
	hb := "h0"
	if hl > 200 {
		hb = "hbig"
	} else if hl > 10 {
		hb = "hmid"
	} else if hl > 0 {
		hb = "hsmall"
	}
	return fmt.Sprintf("pes/opt/sid%x/ptsdts%d/%s", sid>>4, b[7]>>6, hb)
}
