package main

import (
	"fmt"
	"math/rand"

	gots "github.com/Comcast/gots/v2"
	"github.com/Comcast/gots/v2/packet"
	"github.com/Comcast/gots/v2/pes"
)

// X04: a PES packet carried over transport packets (spec growth beyond the listed properties): the payload
// accumulator under the "PES packet complete" predicate, then the PES header decoder on what it gathered -
// the composition of Accumulator and Pes.
type x04 struct{}

func init() { register("X04", x04{}) }

// x04Done is the caller's completion predicate: PES_packet_length is known (six bytes gathered), is not 0
// (unbounded) and that many bytes follow it.
func x04Done(b []byte) (bool, error) {
	if len(b) < 6 {
		return false, nil
	}
	pl := int(b[4])<<8 | int(b[5])
	return pl != 0 && len(b) >= 6+pl, nil
}

func x04Frags(r *rand.Rand, n int) []int {
	var fr []int
	for n > 0 {
		k := 184
		switch r.Intn(4) {
		case 0:
			k = 1 + r.Intn(184)
		case 1:
			k = 1 + r.Intn(8)
		}
		if k > n {
			k = n
		}
		fr = append(fr, k)
		n -= k
	}
	return fr
}

func (x04) Gen(tier string, seed int64, emit func([]Ev)) {
	r := rand.New(rand.NewSource(seed))
	n := 150
	if tier == "thorough" {
		n = 4000
	}
	for i := 0; i < n; i++ {
		sid := []int{0xe0, 0xc0, 0xbd, 0xbe, 0xbf, 0xf0, 0xfc, r.Intn(256)}[r.Intn(8)]
		dl := []int{0, 1, 10, 170, 184, 400, 900}[r.Intn(7)] + r.Intn(20)
		b := c11Pes(r, sid, []int{0, 2, 3}[r.Intn(3)], []int{0, 0, 3, 40}[r.Intn(4)], dl, c11Time(r), c11Time(r))
		pl := len(b) - 6
		variant := []string{"exact", "exact", "unbounded", "short", "long"}[r.Intn(5)]
		switch variant {
		case "unbounded":
			pl = 0
		case "short": // the length ends inside the data: the unit is complete before the last packet
			if pl > 3 {
				pl = 3 + r.Intn(pl-3)
			}
		case "long": // more announced than sent: never complete
			pl += 1 + r.Intn(300)
		}
		if pl > 65535 {
			pl = 0
		}
		b[4], b[5] = byte(pl>>8), byte(pl)
		pid := 0x20 + r.Intn(0x1fd0)
		var pk []packet.Packet
		// continuation packets of an earlier unit in front (refused: no unit has started)
		for k := r.Intn(3); k > 0 && i%3 == 0; k-- {
			q := mkPkt(r, pid, k, false, true, []int{-1, 100}[r.Intn(2)])
			pk = append(pk, q)
		}
		pk = append(pk, packetise(r, b, x04Frags(r, len(b)), pid, false)...)
		// an adaptation-field-only packet in between / the start of the next unit behind
		if r.Intn(4) == 0 && len(pk) > 1 {
			q := mkPkt(r, pid, 0, false, false, 183)
			at := 1 + r.Intn(len(pk)-1)
			pk = append(pk[:at], append([]packet.Packet{q}, pk[at:]...)...)
		}
		if r.Intn(2) == 0 {
			nb := c11Pes(r, 0xe0, 2, 0, 30, c11Time(r), c11Time(r))
			nb[4], nb[5] = 0, byte(len(nb)-6)
			pk = append(pk, packetise(r, nb, x04Frags(r, len(nb)), pid, false)...)
		}
		var list [][]int
		for k := range pk {
			list = append(list, B(pk[k][:]))
		}
		emit([]Ev{{"op": "pescarry", "packets": list, "variant": variant}})
	}
}

func (x04) Exec(h []Ev) []Ev {
	for _, e := range h {
		e["results"], e["bytes"], e["hdr_err"] = []string{}, []int{}, true
		e["g"] = Ev{}
		e["panic"] = guard(func() {
			acc := packet.NewAccumulator(x04Done)
			res := []string{}
			complete := false
			for _, p := range evPkts(e["packets"]) {
				q := *p
				_, err := acc.WritePacket(&q)
				switch err {
				case nil:
					res = append(res, "nil")
				case gots.ErrNoPayloadUnitStartIndicator:
					res = append(res, "nopusi")
				case gots.ErrAccumulatorDone:
					if complete {
						res = append(res, "refused-done")
					} else {
						res = append(res, "done")
						complete = true
					}
				default:
					res = append(res, "nopayload")
				}
			}
			e["results"] = res
			b := acc.Bytes()
			e["bytes"] = B(b)
			hd, err := pes.NewPESHeader(b)
			e["hdr_err"] = err != nil
			if err == nil && hd != nil {
				g := Ev{}
				inOrder(e, func() { g["prefix"] = int(hd.PacketStartCodePrefix()) }, func() { g["sid"] = int(hd.StreamId()) },
					func() { g["dai"] = hd.DataAligned() }, func() { g["haspts"] = hd.HasPTS() }, func() { g["hasdts"] = hd.HasDTS() },
					func() { g["pts"] = W64(hd.PTS()) }, func() { g["dts"] = W64(hd.DTS()) }, func() { g["data"] = B(hd.Data()) })
				e["g"] = g
			}
		})
	}
	return h
}

func (x04) Class(e Ev) string {
	last := "none"
	switch t := e["results"].(type) {
	case []string:
		if len(t) > 0 {
			last = t[len(t)-1]
		}
	case []interface{}:
		if len(t) > 0 {
			last = GS(t[len(t)-1])
		}
	}
	return fmt.Sprintf("pescarry/%s/last-%s/hdr%v", GS(e["variant"]), last, !GBool(e["hdr_err"]))
}
