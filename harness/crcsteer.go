package main

import "math/rand"

// crcSteer flips bits of msg among the listed free bit positions (bit i = byte i/8, mask 0x80>>(i%8)) so that
// CRC-32/MPEG-2 of msg becomes target (the checksum is affine in the message bits: a linear system over GF(2) in the
// free bits). Used to build well-formed sections whose CRC_32 has a chosen value (all ones, all zeros, a look-alike
// sync byte): inputs only - what the library must answer for them is the specification's business.
func crcSteer(msg []byte, free []int, target uint32) bool {
	if len(free) > 64 {
		free = free[:64]
	}
	base := crc32mpeg(msg)
	type row struct {
		v uint32
		c uint64
	}
	var basis [32]row
	var have [32]bool
	for k, bit := range free {
		msg[bit/8] ^= 0x80 >> uint(bit%8)
		v := crc32mpeg(msg) ^ base
		msg[bit/8] ^= 0x80 >> uint(bit%8)
		c := uint64(1) << uint(k)
		for b := 31; b >= 0 && v != 0; b-- {
			if v>>uint(b)&1 == 0 {
				continue
			}
			if !have[b] {
				basis[b], have[b] = row{v, c}, true
				v = 0
				break
			}
			v ^= basis[b].v
			c ^= basis[b].c
		}
	}
	need := base ^ target
	var combo uint64
	for b := 31; b >= 0; b-- {
		if need>>uint(b)&1 == 0 {
			continue
		}
		if !have[b] {
			return false
		}
		need ^= basis[b].v
		combo ^= basis[b].c
	}
	for k, bit := range free {
		if combo>>uint(k)&1 != 0 {
			msg[bit/8] ^= 0x80 >> uint(bit%8)
		}
	}
	return crc32mpeg(msg) == target
}

func bitsOf(byteOff, nbits, skipTop int) []int {
	var out []int
	for i := skipTop; i < skipTop+nbits; i++ {
		out = append(out, byteOff*8+i)
	}
	return out
}

var crcTargets = []uint32{0xffffffff, 0x00000000, 0xffffff47, 0x47ffffff, 0x000000ff}

// steerPAT changes transport_stream_id and the first program_number of p so that the section's CRC_32 is target.
func steerPAT(p *absPAT, target uint32) bool {
	if len(p.Entries) < 2 {
		return false
	}
	sec := patSection(*p)
	msg := sec[:len(sec)-4]
	free := append(bitsOf(3, 16, 0), bitsOf(8, 16, 0)...)
	if !crcSteer(msg, free, target) {
		return false
	}
	p.Tsid = int(msg[3])<<8 | int(msg[4])
	p.Entries[0][0] = int(msg[8])<<8 | int(msg[9])
	for _, e := range p.Entries[1:] {
		if e[0] == p.Entries[0][0] {
			return false // the same program_number twice is not a well-formed table
		}
	}
	return crc32mpeg(patSection(*p)[:len(sec)-4]) == target
}

// steerPMT changes program_number, PCR_PID and the first stream's elementary_PID of p so that the section's CRC_32 is target.
func steerPMT(p *absPMT, target uint32) bool {
	if len(p.Streams) < 1 {
		return false
	}
	sec := pmtSection(*p)
	msg := sec[:len(sec)-4]
	first := 12 + len(descBytes(p.ProgDescs))
	free := append(append(bitsOf(3, 16, 0), bitsOf(8, 13, 3)...), bitsOf(first+1, 13, 3)...)
	if !crcSteer(msg, free, target) {
		return false
	}
	p.Program = int(msg[3])<<8 | int(msg[4])
	p.PcrPid = int(msg[8]&0x1f)<<8 | int(msg[9])
	p.Streams[0].Pid = int(msg[first+1]&0x1f)<<8 | int(msg[first+2])
	for _, s := range p.Streams[1:] {
		if s.Pid == p.Streams[0].Pid {
			return false
		}
	}
	return crc32mpeg(pmtSection(*p)[:len(sec)-4]) == target
}

// ffTailPAT: a table whose last entries end in 0xFF bytes and whose CRC_32 is one of the corner values.
func ffTailPAT(r *rand.Rand, n int) (absPAT, bool) {
	for try := 0; try < 20; try++ {
		p := randPAT(r, n)
		if len(p.Entries) < 2 {
			continue
		}
		last := &p.Entries[len(p.Entries)-1]
		switch r.Intn(3) {
		case 0:
			last[1] = last[1]&0x1f00 | 0xff
		case 1:
			last[1] = 0x1fff
		case 2:
			last[0], last[1] = 0xffff, 0x1fff
			for _, e := range p.Entries[:len(p.Entries)-1] {
				if e[0] == 0xffff {
					last[0] = 0xfffe
				}
			}
		}
		if steerPAT(&p, crcTargets[r.Intn(len(crcTargets))]) {
			seen, ok := map[int]bool{}, true
			for _, e := range p.Entries { // a program_number listed twice is not a well-formed table
				ok = ok && !seen[e[0]]
				seen[e[0]] = true
			}
			if ok {
				return p, true
			}
		}
	}
	return absPAT{}, false
}

// ffTailPMT: the section ends in 0xFF bytes (the body of the last descriptor) and its CRC_32 is one of the corner values.
func ffTailPMT(r *rand.Rand, p absPMT) (absPMT, bool) {
	if len(p.Streams) < 1 {
		return p, false
	}
	for try := 0; try < 20; try++ {
		q := p
		q.Streams = append([]absStream(nil), p.Streams...)
		last := &q.Streams[len(q.Streams)-1]
		last.Descs = append(append([]absDescr(nil), last.Descs...), absDescr{Tag: []int{0x05, 0x0a, 0x52, 0xfe}[r.Intn(4)], Body: []byte{0xff, 0xff, 0xff, 0xff, 0xff, 0xff}[:1+r.Intn(6)]})
		if len(pmtSection(q)) > 1024 {
			return p, false
		}
		q.Program = r.Intn(65536)
		if steerPMT(&q, crcTargets[r.Intn(len(crcTargets))]) {
			return q, true
		}
	}
	return p, false
}

// steerSig changes the low 32 bits of pts_adjustment and cw_index of s so that the section's CRC_32 is target.
func steerSig(s *absSig, target uint32) bool {
	sec := s.section()
	msg := sec[:len(sec)-4]
	free := append(bitsOf(5, 32, 0), bitsOf(9, 8, 0)...)
	if !crcSteer(msg, free, target) {
		return false
	}
	s.PtsAdj = s.PtsAdj&(1<<32) | uint64(msg[5])<<24 | uint64(msg[6])<<16 | uint64(msg[7])<<8 | uint64(msg[8])
	s.Cw = int(msg[9])
	return crc32mpeg(s.section()[:len(sec)-4]) == target
}

// ffTailSig: the section ends in 0xFF bytes (a foreign descriptor's body, or the sub-segment fields of the last
// segmentation descriptor) and its CRC_32 is one of the corner values.
func ffTailSig(r *rand.Rand, s *absSig) bool {
	if len(s.AStuff) > 0 || s.Enc {
		return false
	}
	if r.Intn(2) == 0 {
		s.Descs = append(s.Descs, absSDesc{Kind: "foreign", Tag: []int{1, 3, 0xff}[r.Intn(3)], Body: []byte{0xff, 0xff, 0xff, 0xff, 0xff, 0xff}[:1+r.Intn(6)]})
	} else {
		d := rndSeg(r)
		d.Cancel, d.Type, d.HasSub, d.SegNum, d.SegExp, d.SubNum, d.SubExp = false, 0x34, true, 0xff, 0xff, 0xff, 0xff
		s.Descs = append(s.Descs, d)
	}
	return steerSig(s, crcTargets[r.Intn(len(crcTargets))])
}
