package main

import (
	"bufio"
	"bytes"
	"fmt"
	"io"
	"math/rand"
	"sort"
	"testing/iotest"

	gots "github.com/Comcast/gots/v2"
	"github.com/Comcast/gots/v2/packet"
	"github.com/Comcast/gots/v2/psi"
)

// C07: PAT decoding.
type c07 struct{}

func init() { register("C07", c07{}) }

type absPAT struct {
	Tsid, Version int
	CNI           bool
	Entries       [][2]int
}

func patSection(p absPAT) []byte {
	body := []byte{byte(p.Tsid >> 8), byte(p.Tsid), 0xC0 | byte(p.Version)<<1, 0, 0}
	if p.CNI {
		body[2] |= 1
	}
	for _, e := range p.Entries {
		body = append(body, byte(e[0]>>8), byte(e[0]), 0xE0|byte(e[1]>>8), byte(e[1]))
	}
	sl := len(body) + 4
	sec := append([]byte{0x00, 0xB0 | byte(sl>>8&3), byte(sl)}, body...)
	c := crc32mpeg(sec)
	return append(sec, byte(c>>24), byte(c>>16), byte(c>>8), byte(c))
}

func patEv(p absPAT) Ev {
	es := [][]int{}
	for _, e := range p.Entries {
		es = append(es, []int{e[0], e[1]})
	}
	return Ev{"tsid": p.Tsid, "version": p.Version, "cni": p.CNI, "entries": es}
}

func evPat(v interface{}) absPAT {
	m := asMap(v)
	p := absPAT{Tsid: GI(m["tsid"]), Version: GI(m["version"]), CNI: GBool(m["cni"])}
	switch t := m["entries"].(type) {
	case [][]int:
		for _, e := range t {
			p.Entries = append(p.Entries, [2]int{e[0], e[1]})
		}
	case []interface{}:
		for _, x := range t {
			e := GIs(x)
			p.Entries = append(p.Entries, [2]int{e[0], e[1]})
		}
	}
	return p
}

func randPAT(r *rand.Rand, n int) absPAT {
	p := absPAT{Tsid: r.Intn(65536), Version: r.Intn(32), CNI: r.Intn(2) == 0}
	used := map[int]bool{}
	for i := 0; i < n; i++ {
		pn := 1 + r.Intn(65535)
		if r.Intn(8) == 0 {
			pn = []int{1, 255, 256, 65535}[r.Intn(4)]
		}
		if i == 0 && r.Intn(3) == 0 || (n > 1 && i == n-1 && r.Intn(4) == 0) {
			pn = 0 // network entry
		}
		if used[pn] {
			pn = 1 + r.Intn(65535)
		}
		if used[pn] {
			continue
		}
		used[pn] = true
		pid := r.Intn(8192)
		if r.Intn(4) == 0 {
			pid = []int{0x10, 0xff, 0x100, 0x1ffe, 0x1fff, 0x1000, 0, 0, 1}[r.Intn(9)] // (a program may name PID 0 or 1: the map says what it says)
		}
		p.Entries = append(p.Entries, [2]int{pn, pid})
	}
	return p
}

// patPacket carries payload in a PID-0 packet, optionally behind adaptation field stuffing.
func patPacket(r *rand.Rand, payload []byte, withAF bool) packet.Packet {
	var p packet.Packet
	for i := range p {
		p[i] = 0xff
	}
	p[0], p[1], p[2], p[3] = 0x47, 0x40, 0x00, 0x10|byte(r.Intn(16))
	off := 4
	if withAF {
		afl := 0
		if room := 184 - len(payload); room > 1 {
			afl = r.Intn(room)
			if r.Intn(3) == 0 {
				afl = room - 1 // exact fit: the CRC_32 ends on the last byte of the packet, no stuffing behind it
			}
		}
		if afl > 0 {
			p[3] |= 0x20
			p[4] = byte(afl)
			p[5] = 0
			off = 5 + afl
		}
	}
	copy(p[off:], payload)
	return p
}

// plainOther: a payload-only packet of a random PID other than 0 (for streams whose alignment a sync search decides).
func plainOther(r *rand.Rand) packet.Packet {
	var p packet.Packet
	r.Read(p[:])
	p[0] = 0x47
	p[3] = p[3]&0x0f | 0x10
	if p[1]&0x1f == 0 && p[2] == 0 {
		p[2] = 1
	}
	return p
}

func otherPacket(r *rand.Rand) packet.Packet {
	var p packet.Packet
	r.Read(p[:])
	p[0] = 0x47
	p[3] = p[3]&0x0f | 0x10
	switch r.Intn(8) {
	case 0: // the PIDs next to 0, the reserved ones, the first free ones, the last ones
		pid := []int{1, 2, 3, 4, 5, 0xe, 0xf, 0x10, 0x11, 0x1ffe, 0x1fff, 0x100, 0x1000}[r.Intn(13)]
		p[1], p[2] = p[1]&0xe0|byte(pid>>8), byte(pid)
	case 1: // adaptation field only / adaptation field and payload
		if r.Intn(2) == 0 {
			p[3], p[4] = p[3]&0x0f|0x20, 183
		} else {
			p[3], p[4] = p[3]&0x0f|0x30, byte(r.Intn(183))
		}
		if p[4] > 0 {
			p[5] = 0
			for i := 6; i < 5+int(p[4]); i++ {
				p[i] = 0xff
			}
		}
	}
	if r.Intn(3) == 0 {
		// bytes that look like packet starts (of the PAT too) inside the body: the stream is aligned, they mean nothing
		for k := 1 + r.Intn(4); k > 0; k-- {
			fake := [][]byte{{0x47, 0x01, 0x00, 0x10}, {0x47, 0x40, 0x00, 0x10, 0x00, 0x00, 0xb0, 0x0d, 0x00, 0x01, 0xc1, 0x00, 0x00, 0x00, 0x01, 0xe1, 0x00},
				{0x47, 0x00, 0x00, 0x10}, {0x47, 0x1f, 0xff, 0x10}, {0x47, 0x47, 0x47, 0x47}}[r.Intn(5)]
			at := 4 + r.Intn(184-len(fake))
			if p[3]&0x20 != 0 {
				continue
			}
			copy(p[at:], fake)
		}
	}
	if p[1]&0x1f == 0 && p[2] == 0 {
		p[2] = 1
	}
	return p
}

// c07Reader: the ways a caller may hand the same byte stream to a stream reader.
var c07Readers = []string{"buffer", "bytesreader", "bufio16", "bufio188", "bufio4096", "onebyte", "chunks", "dataerr"}

type chunkReader struct {
	data []byte
	r    *rand.Rand
	eof  bool // the last piece is returned together with io.EOF
}

func (c *chunkReader) Read(p []byte) (int, error) {
	if len(c.data) == 0 {
		return 0, io.EOF
	}
	n := 1 + c.r.Intn(300)
	if n > len(c.data) {
		n = len(c.data)
	}
	n = copy(p, c.data[:n])
	c.data = c.data[n:]
	if c.eof && len(c.data) == 0 {
		return n, io.EOF
	}
	return n, nil
}

func c07Reader(kind string, data []byte) io.Reader {
	switch kind {
	case "bytesreader":
		return bytes.NewReader(data)
	case "bufio16":
		return bufio.NewReaderSize(bytes.NewReader(data), 16)
	case "bufio188":
		return bufio.NewReaderSize(bytes.NewReader(data), 188)
	case "bufio4096":
		return bufio.NewReader(bytes.NewReader(data))
	case "onebyte":
		return iotest.OneByteReader(bytes.NewReader(data))
	case "chunks":
		return &chunkReader{data: data, r: rand.New(rand.NewSource(int64(len(data))))}
	case "dataerr":
		return &chunkReader{data: data, r: rand.New(rand.NewSource(int64(len(data)))), eof: true}
	}
	return bytes.NewBuffer(data)
}

func (c07) Gen(tier string, seed int64, emit0 func([]Ev)) {
	emit, flush := grouper(emit0, "pat")
	defer flush()
	r := rand.New(rand.NewSource(seed))
	reps := 10
	if tier == "thorough" {
		reps = 600
	}
	for rep := 0; rep < reps; rep++ {
		for n := 0; n <= 42; n++ { // 42 entries is the single-packet limit (1 + 12 + 4n <= 184)
			p := randPAT(r, n)
			if n >= 2 && (n+rep)%4 == 0 {
				// a table whose last bytes are 0xFF (the last PID, the last program_number) and whose CRC_32 is all ones, all
				// zeros or ends like stuffing or a sync byte: section bytes, not stuffing
				if q, ok := ffTailPAT(r, n); ok {
					p = q
				}
			}
			sec := patSection(p)
			pay := append([]byte{0}, sec...)
			// payload carrier: exactly the section, or followed by stuffing (never 188 bytes long)
			stuff := []int{0, 1, 183 - len(sec), r.Intn(40)}[r.Intn(4)]
			if stuff < 0 {
				stuff = 0
			}
			pb := append(append([]byte(nil), pay...), bytes.Repeat([]byte{0xff}, stuff)...)
			if len(pb) == 188 {
				pb = pb[:187]
			}
			emit([]Ev{{"op": "pat", "carrier": "payload", "abs": patEv(p), "bytes": B(pb)}})
			pk := patPacket(r, pay, rep%2 == 1)
			emit([]Ev{{"op": "pat", "carrier": "packet", "abs": patEv(p), "bytes": B(pk[:])}})
			// stream carrier: preceded by packets of other PIDs; sometimes no PAT at all / truncated
			var st [][]int
			for k := r.Intn(21); k > 0; k-- {
				o := otherPacket(r)
				st = append(st, B(o[:]))
			}
			if len(st) > 0 && r.Intn(3) == 0 {
				// the very first packet has one of the reserved PIDs 4..15 and a body full of look-alike packet starts
				var o packet.Packet
				for i := 0; i+4 <= 188; i += 4 {
					copy(o[i:], [][]byte{{0x47, 0x01, 0x00, 0x10}, {0x47, 0x40, 0x00, 0x10}, {0x47, 0x1f, 0xff, 0x10}}[r.Intn(3)])
				}
				pid := 4 + r.Intn(12)
				o[0], o[1], o[2], o[3] = 0x47, byte(r.Intn(2))<<6, byte(pid), 0x10|byte(r.Intn(16))
				st[0] = B(o[:])
			}
			tail := 0
			if r.Intn(5) != 0 {
				st = append(st, B(pk[:]))
				for k := r.Intn(3); k > 0; k-- {
					o := otherPacket(r)
					st = append(st, B(o[:]))
				}
			} else {
				tail = r.Intn(188) // the stream ends inside a packet
			}
			if st == nil {
				st = [][]int{}
			}
			skip := 0
			if n%5 == 2 && len(st) > 0 {
				// the caller has already consumed the front of the stream (whole packets, among them an earlier table): the
				// reader is handed over where it stands
				decoy := patPacket(r, append([]byte{0}, patSection(randPAT(r, 1+r.Intn(3)))...), false)
				var pre [][]int
				for k := 1 + r.Intn(3); k > 0; k-- {
					o := otherPacket(r)
					pre = append(pre, B(o[:]))
				}
				pre = append(pre, B(decoy[:])) // the earlier table is the last thing the caller consumed
				skip = len(pre)
				st = append(pre, st...)
			}
			lead, leadN := []int{}, 0
			if n%9 == 4 && skip == 0 {
				// the table far into the stream (or not there at all): tens of thousands of packets of another PID first
				o := plainOther(r)
				lead, leadN = B(o[:]), []int{5000, 70000, 100001, 300000}[r.Intn(4)]
			}
			rk := c07Readers[r.Intn(len(c07Readers))]
			if skip > 0 && r.Intn(2) == 0 {
				rk = "bytesreader" // a reader that can seek knows where it stands
			}
			emit([]Ev{{"op": "pat", "carrier": "stream", "abs": patEv(p), "stream": st, "tail": tail, "reader": rk, "lead": lead, "lead_n": leadN, "skip": skip}})
		}
		// sections longer than one packet can carry (up to 253 entries in 1021 bytes), as payload bytes
		for _, n := range []int{43, 44, 63, 64, 65, 127, 128, 129, 200, 252, 253} {
			if rep%3 != 0 && n != 253 && n != 64 {
				continue
			}
			p := randPAT(r, n)
			pb := append([]byte{0}, patSection(p)...)
			emit([]Ev{{"op": "pat", "carrier": "payload", "abs": patEv(p), "bytes": B(pb)}})
		}
		p := randPAT(r, 1+r.Intn(8))
		dup := false
		if len(p.Entries) >= 2 && r.Intn(3) == 0 {
			// the same program_number listed twice with different PIDs (not a well-formed PAT: only the clause
			// "PMT packet exactly when the PID is a value of the map the library reports" is judged)
			k := r.Intn(len(p.Entries) - 1)
			if p.Entries[k][0] != 0 {
				p.Entries[len(p.Entries)-1][0] = p.Entries[k][0]
				dup = true
			}
		}
		emit([]Ev{{"op": "ispmt", "abs": patEv(p), "dup": dup, "bytes": B(append([]byte{0}, patSection(p)...))}})
	}
}

func c07Observe(e Ev, pat psi.PAT, err error) {
	e["nump"], e["pmap"], e["spts_ok"], e["spts"] = 0, [][]int{}, false, 0
	switch err {
	case nil:
		e["err"] = "nil"
	case gots.ErrPATNotFound:
		e["err"] = "notfound"
	default:
		e["err"] = "other"
	}
	if err != nil || pat == nil {
		return
	}
	inOrder(e, func() { e["nump"] = pat.NumPrograms() }, func() {
		pm := [][]int{}
		for pn, pid := range pat.ProgramMap() {
			pm = append(pm, []int{pn, pid})
		}
		sort.Slice(pm, func(i, j int) bool { return pm[i][0] < pm[j][0] })
		e["pmap"] = pm
	}, func() {
		pid, serr := pat.SPTSpmtPID()
		e["spts_ok"], e["spts"] = serr == nil, pid
	})
}

func (c07) Exec(h []Ev) []Ev {
	var held holder
	for _, e := range h {
		e["earlier_same"] = true
		e["panic"] = guard(func() {
			defer func() { e["earlier_same"] = held.same() }()
			switch GS(e["op"]) {
			case "pat":
				switch GS(e["carrier"]) {
				case "payload", "packet":
					b := GB(e["bytes"])
					keep := append([]byte(nil), b...)
					pat, err := psi.NewPAT(b)
					c07Observe(e, pat, err)
					if err == nil && pat != nil {
						defer held.hold(func() string { t := Ev{}; c07Observe(t, pat, nil); return jsonOf(t) })
					}
					if !bytes.Equal(b, keep) {
						panic("input modified")
					}
				case "stream":
					var buf bytes.Buffer
					var list []interface{}
					switch t := e["stream"].(type) {
					case [][]int:
						for _, x := range t {
							list = append(list, x)
						}
					case []interface{}:
						list = t
					}
					for _, x := range list {
						buf.Write(GB(x))
					}
					buf.Write(make([]byte, GI(e["tail"])))
					data := buf.Bytes()
					if n := GI0(e["lead_n"]); n > 0 { // one packet of another PID, n times, in front (described, not transmitted)
						data = append(bytes.Repeat(GB(e["lead"]), n), data...)
					}
					rd := c07Reader(GS(e["reader"]), data)
					e["skip"] = GI0(e["skip"])
					if k := GI0(e["skip"]); k > 0 {
						if _, cerr := io.CopyN(io.Discard, rd, int64(188*k)); cerr != nil {
							panic("harness: cannot consume the front of the stream")
						}
					}
					pat, err := psi.ReadPAT(rd)
					c07Observe(e, pat, err)
					if err == nil && pat != nil {
						defer held.hold(func() string { t := Ev{}; c07Observe(t, pat, nil); return jsonOf(t) })
					}
				}
			case "ispmt":
				pat, err := psi.NewPAT(GB(e["bytes"]))
				if err != nil {
					panic("harness: PAT rejected: " + err.Error())
				}
				tp := []int{}
				anyErr := false
				for pid := 0; pid < 8192; pid++ {
					var p packet.Packet
					p[0], p[1], p[2], p[3] = 0x47, byte(pid>>8), byte(pid), 0x10
					ok, err := psi.IsPMT(&p, pat)
					if err != nil {
						anyErr = true
					}
					if ok {
						tp = append(tp, pid)
					}
				}
				e["true_pids"], e["any_err"] = tp, anyErr
				// the values of the map the library itself reports (the classification is defined by that map)
				mp := map[int]bool{}
				for _, v := range pat.ProgramMap() {
					mp[v] = true
				}
				mv := []int{}
				for pid := 0; pid < 8192; pid++ {
					if mp[pid] {
						mv = append(mv, pid)
					}
				}
				e["map_pids"] = mv
				var p packet.Packet
				_, nerr := psi.IsPMT(&p, nil)
				e["nil_err"] = nerr != nil
			}
		})
	}
	return h
}

func (c07) Class(e Ev) string {
	if GS(e["op"]) == "ispmt" {
		return "ispmt"
	}
	p := evPat(e["abs"])
	net := false
	for _, x := range p.Entries {
		if x[0] == 0 {
			net = true
		}
	}
	n := len(p.Entries)
	nb := fmt.Sprint(n)
	if n > 2 {
		nb = "many"
	}
	return fmt.Sprintf("pat/%s/n%s/net%v/%s", GS(e["carrier"]), nb, net, GS(e["err"]))
}
