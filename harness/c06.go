package main

import (
	"bytes"
	"encoding/json"
	"fmt"
	"math/rand"

	gots "github.com/Comcast/gots/v2"
	"github.com/Comcast/gots/v2/packet"
	"github.com/Comcast/gots/v2/psi"
)

// C06: PMT decoding independent of packetisation.
type c06 struct{}

func init() { register("C06", c06{}) }

func c06Payload(ptr int, before [][]byte, sec []byte, stuff int) []byte {
	p := []byte{byte(ptr)}
	p = append(p, bytes.Repeat([]byte{0xff}, ptr)...)
	for _, b := range before {
		p = append(p, b...)
	}
	p = append(p, sec...)
	return append(p, bytes.Repeat([]byte{0xff}, stuff)...)
}

func (c06) Gen(tier string, seed int64, emit0 func([]Ev)) {
	// Parsing calls are grouped into histories of up to three: what an earlier call returned
	// must still read the same after the later ones (Exec re-reads it).
	var pend []Ev
	groups := 0
	emit := func(h []Ev) {
		if op := GS(h[0]["op"]); len(h) == 1 && (op == "pmt" || op == "readpmt") {
			pend = append(pend, h[0])
			if len(pend) >= 1+groups%3 {
				emit0(pend)
				pend = nil
				groups++
			}
			return
		}
		emit0(h)
	}
	defer func() {
		if len(pend) > 0 {
			emit0(pend)
		}
	}()
	r := rand.New(rand.NewSource(seed))
	thorough := tier == "thorough"
	shapes := []int{0, 1, 1, 2, 2, 3, 4, 5, 6, 8, 10, 12, 16, 20, 25, 30, 40}
	if thorough {
		shapes = append(shapes, shapes...)
		shapes = append(shapes, shapes...)
	}
	// sections at and just below the 1021-byte limit (negative shape = limitPMT kind)
	shapes = append(shapes, -1, -2, -3)
	if thorough {
		shapes = append(shapes, -1, -2, -3, -1, -2, -3)
	}
	for si, ns := range shapes {
		pmt := randPMT(r, ns, si%3 == 0)
		if ns < 0 {
			pmt = limitPMT(r, -ns-1, []int{1021, 1021, 1020, 1019, 1000 + r.Intn(22)}[r.Intn(5)])
		}
		if ns > 0 && si%4 == 1 {
			// the section ends in 0xFF bytes and its CRC_32 is all ones, all zeros or stuffing- / sync-like: section bytes, not stuffing
			if q, ok := ffTailPMT(r, pmt); ok {
				pmt = q
			}
		}
		if ns >= 2 && si%7 == 3 {
			// two stream entries with the same elementary PID (the syntax allows it): both are streams, both are listed
			pmt.Streams[len(pmt.Streams)-1].Pid = pmt.Streams[r.Intn(len(pmt.Streams)-1)].Pid
		}
		sec0, pmt0 := pmtSection(pmt), pmt
		for _, ptr := range []int{0, 1, 5, 100, 182, 71} {
			if !thorough && (si+ptr)%2 == 1 && ptr != 0 && ptr != 71 {
				continue
			}
			sec, pmt := sec0, pmt0
			if ptr == 71 {
				// pointer_field 71 (0x47, what a sync byte looks like) with a payload of exactly 188 bytes: a section padded to
				// 116 bytes by a program descriptor (a payload is a payload whatever its first byte and length)
				if d := 116 - len(sec0); ns > 0 && d >= 2 && d <= 257 {
					pmt.ProgDescs = append(append([]absDescr(nil), pmt0.ProgDescs...), absDescr{Tag: 0xfe, Body: rndBytes(r, d-2)})
					sec = pmtSection(pmt)
				} else if si%3 != 0 {
					continue
				}
			}
			var before [][]byte
			sel := r.Intn(6)
			if ptr == 71 {
				sel = 5 // nothing in front
			}
			switch sel {
			case 0, 1:
				before = append(before, otherSection(r, r.Intn(20)))
			case 2:
				// the program map section of another program carried on the same PID in front of it
				before = append(before, pmtSection(randPMT(r, 1+r.Intn(3), false)))
			case 3:
				// very short complete sections (section_length 0..3) in front of it
				for k := 1 + r.Intn(2); k > 0; k-- {
					before = append(before, shortSection(r, r.Intn(4)))
				}
			}
			bev := [][]int{}
			for _, b := range before {
				bev = append(bev, B(b))
			}
			stuff := []int{0, 1, 3, 17}[r.Intn(4)]
			if ptr == 71 {
				stuff = 0
			}
			pay := c06Payload(ptr, before, sec, stuff)
			base := Ev{"abs": absPMTEv(pmt), "ptr": ptr, "before": bev}
			e := Ev{"op": "pmt", "stuff": stuff, "payload": B(pay)}
			for k, v := range base {
				e[k] = v
			}
			emit([]Ev{e})
			// packetisations of the unstuffed payload
			pl := c06Payload(ptr, before, sec, 0)
			n := len(pl)
			var firsts []int
			lim := n - 1
			if lim > 184 {
				lim = 184
			}
			if thorough {
				for f := 1; f <= lim; f++ {
					firsts = append(firsts, f)
				}
			} else {
				cand := []int{1, 2, 3, 4, ptr + 1, ptr + 2, ptr + 3, ptr + 4, 12 + ptr, lim - 2, lim - 1, lim, 1 + r.Intn(lim), 1 + r.Intn(lim)}
				seen := map[int]bool{}
				for _, f := range cand {
					if f >= 1 && f <= lim && !seen[f] {
						seen[f] = true
						firsts = append(firsts, f)
					}
				}
			}
			if n <= 184 {
				firsts = append(firsts, n) // single packet
			}
			pid := 0x30 + r.Intn(0x1000)
			for fi, f := range firsts {
				frags := splitSizes(n, f)
				if fi%5 == 4 && n > 6 { // three / four packet splits with small middle fragments
					a := 1 + r.Intn(n/3)
					b := 1 + r.Intn(n/3)
					if a > 184 {
						a = 184
					}
					if b > 184 {
						b = 184
					}
					frags = append([]int{a, b}, splitSizes(n-a-b, 184)...)
				}
				// A cut exactly between a preceding section and the PMT section would start a section in a
				// packet without payload_unit_start_indicator, which ISO 13818-1 2.4.4 forbids: not a carriage.
				if len(before) > 0 {
					bad := 1 + ptr
					for _, b := range before {
						bad += len(b)
					}
					cum := 0
					for k := 0; k+1 < len(frags); k++ {
						cum += frags[k]
						if cum == bad {
							if frags[k] < 184 && frags[k+1] > 1 {
								frags[k]++
								frags[k+1]--
							} else {
								frags[k]--
								frags[k+1]++
							}
							break
						}
					}
					okf := true
					for _, f := range frags {
						if f < 1 || f > 184 {
							okf = false
						}
					}
					if !okf {
						continue
					}
				}
				if !c06CutsOK(frags, ptr, before) {
					continue
				}
				pk := packetise(r, pl, frags, pid, fi%2 == 0)
				// interleave packets of other PIDs (never the PMT PID)
				var all []packet.Packet
				for _, p := range pk {
					for k := r.Intn(3); k > 0 && fi%3 == 0; k-- {
						o := otherPacket(r)
						if int(o[1]&0x1f)<<8|int(o[2]) == pid {
							o[2] ^= 1
						}
						all = append(all, o)
					}
					all = append(all, p)
				}
				e := Ev{"op": "readpmt", "pid": pid, "packets": pktsEv(all)}
				if (si+fi)%11 == 5 {
					// the table far into the stream: tens of thousands of packets of another PID first
					o := plainOther(r)
					if int(o[1]&0x1f)<<8|int(o[2]) == pid {
						o[2] ^= 1
					}
					e["lead"], e["lead_n"] = B(o[:]), []int{5000, 70000, 100001, 300000}[r.Intn(4)]
				}
				for k, v := range base {
					e[k] = v
				}
				emit([]Ev{e})
			}
		}
	}
	// table header codec
	nth := 400
	if thorough {
		nth = 6000
	}
	for i := 0; i < nth; i++ {
		sl := r.Intn(1024)
		if i%4 == 0 {
			sl = []int{0, 1, 255, 256, 1021, 1023}[r.Intn(6)]
		}
		emit([]Ev{{"op": "th", "tid": r.Intn(256), "ssi": r.Intn(2) == 0, "priv": r.Intn(2) == 0, "slen": sl}})
	}
}

// c06CutsOK: no packet boundary falls exactly behind a complete section that precedes the PMT section (the next
// section would start in a packet without payload_unit_start_indicator, which ISO 13818-1 2.4.4 forbids - and the
// completion predicate is, rightly, true at such a boundary).
func c06CutsOK(frags []int, ptr int, before [][]byte) bool {
	bad := map[int]bool{}
	pos := 1 + ptr
	for _, b := range before {
		pos += len(b)
		bad[pos] = true
	}
	cum := 0
	for k := 0; k+1 < len(frags); k++ {
		cum += frags[k]
		if bad[cum] {
			return false
		}
	}
	for _, f := range frags {
		if f < 1 || f > 184 {
			return false
		}
	}
	return true
}

// c06FuzzHistory draws one program map section, one carriage of it and the two parsing calls from r (which may be
// driven by a fuzzer's bytes): the same event shapes as Gen, one random packetisation instead of a systematic set.
func c06FuzzHistory(r *rand.Rand) []Ev {
	pmt := randPMT(r, r.Intn(12), r.Intn(3) == 0)
	if r.Intn(12) == 0 {
		pmt = limitPMT(r, r.Intn(3), 900+r.Intn(122))
	}
	sec := pmtSection(pmt)
	ptr := []int{0, 0, 1, 5, 100, 182}[r.Intn(6)]
	var before [][]byte
	switch r.Intn(6) {
	case 0:
		before = append(before, otherSection(r, r.Intn(20)))
	case 1:
		before = append(before, pmtSection(randPMT(r, 1+r.Intn(3), false)))
	}
	bev := [][]int{}
	bad := 1 + ptr
	for _, b := range before {
		bev = append(bev, B(b))
		bad += len(b)
	}
	stuff := []int{0, 1, 3, 17}[r.Intn(4)]
	base := Ev{"abs": absPMTEv(pmt), "ptr": ptr, "before": bev}
	e1 := Ev{"op": "pmt", "stuff": stuff, "payload": B(c06Payload(ptr, before, sec, stuff))}
	pl := c06Payload(ptr, before, sec, 0)
	n := len(pl)
	// fragments of 1..184 bytes, never cut exactly between a preceding section and the PMT section
	var frags []int
	for rest, cum := n, 0; rest > 0; {
		k := 1 + r.Intn(184)
		if r.Intn(3) == 0 {
			k = 184
		}
		if k > rest {
			k = rest
		}
		if len(before) > 0 && cum+k == bad && rest > k {
			if k < 184 {
				k++
			} else {
				k--
			}
		}
		frags = append(frags, k)
		rest -= k
		cum += k
	}
	if !c06CutsOK(frags, ptr, before) {
		frags = splitSizes(n, minInt(n, 184)) // full packets; if even that cuts behind a preceding section, drop those sections
		if !c06CutsOK(frags, ptr, before) {
			before, bev = nil, [][]int{}
			base["before"] = bev
			e1["payload"] = B(c06Payload(ptr, before, sec, stuff))
			pl = c06Payload(ptr, before, sec, 0)
			n = len(pl)
			frags = splitSizes(n, minInt(n, 184))
		}
	}
	pid := 0x30 + r.Intn(0x1000)
	pk := packetise(r, pl, frags, pid, r.Intn(2) == 0)
	var all []packet.Packet
	for _, p := range pk {
		for k := r.Intn(3); k > 0 && r.Intn(3) == 0; k-- {
			o := otherPacket(r)
			if int(o[1]&0x1f)<<8|int(o[2]) == pid {
				o[2] ^= 1
			}
			all = append(all, o)
		}
		all = append(all, p)
	}
	e2 := Ev{"op": "readpmt", "pid": pid, "packets": pktsEv(all)}
	for k, v := range base {
		e1[k], e2[k] = v, v
	}
	return []Ev{e1, e2}
}

// GenRows: the fuzzer's bytes drive c06FuzzHistory (structured fuzzing).
func (c06) GenRows(rows []Ev, tier string, seed int64, emit func([]Ev)) {
	for _, row := range rows {
		emit(c06FuzzHistory(rand.New(&byteSrc{b: GB(row["in"])})))
	}
}

func c06Observe(e Ev, pmt psi.PMT, err error) {
	e["streams"], e["pids"], e["version"], e["cni"] = []Ev{}, []int{}, 0, false
	switch err {
	case nil:
		e["err"] = "nil"
	case gots.ErrPMTNotFound:
		e["err"] = "notfound"
	default:
		e["err"] = "other"
	}
	if err != nil || pmt == nil {
		return
	}
	inOrder(e, func() {
		ss := []Ev{}
		for _, es := range pmt.ElementaryStreams() {
			var one Ev = Ev{}
			inOrder(e, func() {
				ds := []Ev{}
				for _, d := range es.Descriptors() {
					ds = append(ds, Ev{"tag": int(d.Tag()), "body": B(descBody(d))})
				}
				one["descs"] = ds
			}, func() { one["type"] = int(es.StreamType()) }, func() { one["pid"] = es.ElementaryPid() })
			ss = append(ss, one)
		}
		e["streams"] = ss
	}, func() {
		pids := []int{}
		for _, p := range pmt.Pids() {
			pids = append(pids, p)
		}
		e["pids"] = pids
	}, func() {
		// the existence query for every PID of the table and two others (asked before or after the other getters, by ord)
		ex := [][]int{}
		qs := []int{0, 8191}
		for _, p := range pmt.Pids() {
			qs = append(qs, p, (p+1)%8192)
		}
		for _, q := range qs {
			v := 0
			if pmt.PIDExists(q) {
				v = 1
			}
			ex = append(ex, []int{q, v})
		}
		e["exists"] = ex
	}, func() { e["version"] = int(pmt.VersionNumber()) }, func() { e["cni"] = pmt.CurrentNextIndicator() })
}

func c06Snapshot(pmt psi.PMT) string {
	t := Ev{}
	c06Observe(t, pmt, nil)
	b, _ := json.Marshal(t)
	return string(b)
}

func (c06) Exec(h []Ev) []Ev {
	// tables returned by earlier calls of this history, with what they read as then
	var held []psi.PMT
	var heldObs []string
	hold := func(pmt psi.PMT, err error) {
		if err == nil && pmt != nil {
			held, heldObs = append(held, pmt), append(heldObs, c06Snapshot(pmt))
		}
	}
	for _, e := range h {
		e["earlier_same"] = true
		e["panic"] = guard(func() {
			switch GS(e["op"]) {
			case "pmt":
				p := GB(e["payload"])
				keep := append([]byte(nil), p...)
				pmt, err := psi.NewPMT(p)
				c06Observe(e, pmt, err)
				defer hold(pmt, err)
				dt := []int{}
				derr := false
				for L := 0; L <= len(p); L++ {
					ok, er := psi.PmtAccumulatorDoneFunc(p[:L])
					if er != nil {
						derr = true
					}
					if ok {
						dt = append(dt, L)
					}
				}
				e["done_true"], e["done_err"] = dt, derr
				e["pf"] = int(psi.PointerField(p))
				e["tid"] = int(psi.TableID(p))
				e["ssi"] = psi.SectionSyntaxIndicator(p)
				e["priv"] = psi.PrivateIndicator(p)
				e["slen"] = int(psi.SectionLength(p))
				e["crc"], e["crc_err"] = []int{}, false
				if GI(e["ptr"]) == 0 {
					c, cerr := psi.ExtractCRC(p)
					e["crc"], e["crc_err"] = []int{int(c >> 24), int(c >> 16 & 0xff), int(c >> 8 & 0xff), int(c & 0xff)}, cerr != nil
				}
				e["input_same"] = bytes.Equal(p, keep)
			case "readpmt":
				var buf bytes.Buffer
				for _, p := range evPkts(e["packets"]) {
					buf.Write(p[:])
				}
				// the way the stream is handed over (buffer, buffered readers, one byte at a time, random pieces, data
				// together with EOF) is a function of the event
				data := buf.Bytes()
				if n := GI0(e["lead_n"]); n > 0 { // one packet of another PID, n times, in front (described, not transmitted)
					data = append(bytes.Repeat(GB(e["lead"]), n), data...)
				}
				e["lead_n"] = GI0(e["lead_n"])
				if _, ok := e["lead"]; !ok {
					e["lead"] = []int{}
				}
				pmt, err := psi.ReadPMT(c07Reader(c07Readers[(buf.Len()/188*7+GI(e["pid"]))%len(c07Readers)], data), GI(e["pid"]))
				c06Observe(e, pmt, err)
				defer hold(pmt, err)
			case "th":
				th := psi.TableHeader{TableID: uint8(GI(e["tid"])), SectionSyntaxIndicator: GBool(e["ssi"]), PrivateIndicator: GBool(e["priv"]), SectionLength: uint16(GI(e["slen"]))}
				d := th.Data()
				e["data"] = B(d)
				back, err := psi.TableHeaderFromBytes(d)
				if err != nil {
					panic("TableHeaderFromBytes rejected its own encoding")
				}
				e["back_tid"], e["back_ssi"], e["back_priv"], e["back_slen"] = int(back.TableID), back.SectionSyntaxIndicator, back.PrivateIndicator, int(back.SectionLength)
				// the two trivial constructors: an all-zero header, and pointer_field n followed by n filler bytes
				z := psi.NewTableHeader()
				e["zero_hdr"] = z.TableID == 0 && !z.SectionSyntaxIndicator && !z.PrivateIndicator && z.SectionLength == 0
				n := GI(e["slen"]) % 256
				e["pf_n"], e["pf"] = n, B(psi.NewPointerField(n))
			}
			for i, pmt := range held {
				if c06Snapshot(pmt) != heldObs[i] {
					e["earlier_same"] = false
				}
			}
		})
	}
	return h
}

func (c06) Class(e Ev) string {
	switch GS(e["op"]) {
	case "th":
		return "th"
	case "pmt":
		a := evAbsPMT(e["abs"])
		return fmt.Sprintf("pmt/ptr%d/streams%d/%s", GI(e["ptr"]), bucket(len(a.Streams)), GS(e["err"]))
	case "readpmt":
		n := 0
		pid := GI(e["pid"])
		for _, p := range evPkts(e["packets"]) {
			if p.PID() == pid {
				n++
			}
		}
		return fmt.Sprintf("readpmt/ptr%d/pkts%d/%s", GI(e["ptr"]), n, GS(e["err"]))
	}
	return ""
}

func bucket(n int) int {
	switch {
	case n <= 2:
		return n
	case n <= 8:
		return 8
	case n <= 20:
		return 20
	}
	return 40
}
