package main

import (
	"bytes"
	"fmt"
	"math/rand"

	gots "github.com/Comcast/gots/v2"
	"github.com/Comcast/gots/v2/packet"
	"github.com/Comcast/gots/v2/psi"
	"github.com/Comcast/gots/v2/scte35"
)

// C13: ComputeCRC is CRC-32/MPEG-2.
type c13 struct{}

func init() { register("C13", c13{}) }

func (c13) Gen(tier string, seed int64, emit func([]Ev)) {
	r := rand.New(rand.NewSource(seed))
	one := func(d []byte) { emit([]Ev{{"op": "crc", "data": B(d)}}) }
	// every single-bit string of every length 1..16
	for ln := 1; ln <= 16; ln++ {
		for bit := 0; bit < ln*8; bit++ {
			d := make([]byte, ln)
			d[bit/8] = 0x80 >> uint(bit%8)
			one(d)
		}
		one(make([]byte, ln))
	}
	per := 48
	nrand := 250
	if tier == "thorough" {
		per = 1 << 30
		nrand = 4000
	}
	for _, ln := range []int{32, 64, 183, 184, 188, 1021, 1024} {
		nb := ln * 8
		step := 1
		if nb > per {
			step = nb / per
		}
		for bit := r.Intn(step); bit < nb; bit += step {
			d := make([]byte, ln)
			d[bit/8] = 0x80 >> uint(bit%8)
			one(d)
		}
	}
	// sections emitted by the library itself: encoded splice_info_sections (with and without
	// alignment stuffing) and filtered PMTs must have CRC residue zero
	nem := 120
	if tier == "thorough" {
		nem = 2500
	}
	for i := 0; i < nem; i++ {
		if i%3 == 2 {
			emit([]Ev{{"op": "emitted", "kind": "pmt", "seed": int(r.Int31()), "astuff": 0}})
		} else {
			emit([]Ev{{"op": "emitted", "kind": "scte35", "seed": int(r.Int31()), "astuff": []int{0, 0, 1, 2, 3, 4, 7}[r.Intn(7)]}})
		}
	}
	// long strings: up to the longest section (4096 bytes), beyond any 8- or 12-bit counter (TLC's CRC of a
	// 64 KiB string takes too long to be useful)
	for _, ln := range []int{255, 256, 257, 4093, 4095, 4096, 4097} {
		d := make([]byte, ln)
		r.Read(d)
		one(d)
	}
	// strings that steer the checksum register through its corner states: X, then CRC(X) with one bit (or no
	// bit, or every bit) flipped, then a tail - the register is zero, a single bit (x^k for every k), or all
	// ones at the byte boundaries behind the four bytes and walks through the single-bit states inside the tail
	nx := 2
	if tier == "thorough" {
		nx = 40
	}
	for k := 0; k < nx; k++ {
		x := rndBytes(r, []int{0, 1, 3, 4, 5, 17, 64, 183}[r.Intn(8)])
		c := c13Ref(x)
		var flips []uint32
		for b := 0; b < 32; b++ {
			flips = append(flips, 1<<uint(b))
		}
		flips = append(flips, 0, 0xffffffff, 0x04c11db7, 0x80000001, 0x7fffffff, 0xc0000000)
		for _, f := range flips {
			w := c ^ f
			d := append(append([]byte(nil), x...), byte(w>>24), byte(w>>16), byte(w>>8), byte(w))
			tails := [][]byte{{}, {0}, {0, 0, 0, 0, 0}, {0x80}, {0x7f, 0xff}, rndBytes(r, 1+r.Intn(8))}
			one(append(append([]byte(nil), d...), tails[r.Intn(len(tails))]...))
			one(append(append([]byte(nil), d...), tails[r.Intn(len(tails))]...))
		}
	}
	// the strings FF..FE of every short length (checksum x^k mod G) and their neighbours
	for ln := 1; ln <= 12; ln++ {
		for _, last := range []byte{0xfe, 0xff, 0x7f, 0x00, 0x01, 0x80} {
			d := bytes.Repeat([]byte{0xff}, ln)
			d[ln-1] = last
			one(d)
		}
	}
	for i := 0; i < nrand; i++ {
		ln := r.Intn(1025)
		if i%5 == 0 {
			ln = r.Intn(20)
		}
		d := make([]byte, ln)
		r.Read(d)
		switch i % 7 {
		case 1:
			for k := range d {
				d[k] = 0xff
			}
		case 2:
			for k := range d {
				d[k] = 0
			}
		}
		one(d)
	}
}

// c13Ref: harness-side bitwise CRC-32/MPEG-2, used only to construct inputs (the verdict comes from the specification).
func c13Ref(d []byte) uint32 {
	reg := uint32(0xffffffff)
	for _, b := range d {
		reg ^= uint32(b) << 24
		for i := 0; i < 8; i++ {
			if reg&0x80000000 != 0 {
				reg = reg<<1 ^ 0x04c11db7
			} else {
				reg <<= 1
			}
		}
	}
	return reg
}

// c13Emitted produces sections through the library's own emitters.
func c13Emitted(e Ev) {
	r := rand.New(rand.NewSource(int64(GI(e["seed"]))))
	switch GS(e["kind"]) {
	case "scte35":
		s := scte35.CreateSCTE35()
		switch r.Intn(3) {
		case 0:
			c := scte35.CreateTimeSignalCommand()
			c.SetHasPTS(true)
			s.SetCommandInfo(c)
			s.SetPTS(gots.PTS(rnd33(r)))
		case 1:
			c := scte35.CreateSpliceInsertCommand()
			c.SetEventID(rndEid(r))
			c.SetHasPTS(r.Intn(2) == 0)
			c.SetSpliceImmediate(r.Intn(2) == 0)
			c.SetHasDuration(r.Intn(2) == 0)
			c.SetDuration(gots.PTS(rnd33(r)))
			s.SetCommandInfo(c)
		}
		var ds []scte35.SegmentationDescriptor
		for k := r.Intn(3); k > 0; k-- {
			d := scte35.CreateSegmentationDescriptor()
			d.SetEventID(rndEid(r))
			d.SetTypeID(scte35.SegDescType(segTypes[r.Intn(len(segTypes))]))
			d.SetHasProgramSegmentation(true)
			d.SetIsDeliveryNotRestricted(r.Intn(2) == 0)
			if r.Intn(2) == 0 {
				d.SetHasDuration(true)
				d.SetDuration(gots.PTS(rnd40(r)))
			}
			d.SetUPIDType(scte35.SegUPIDType(9))
			d.SetUPID(rndBytes(r, r.Intn(12)))
			ds = append(ds, d)
		}
		s.SetDescriptors(ds)
		s.SetTier(uint16(r.Intn(4096)))
		s.SetAlignmentStuffing(uint(GI(e["astuff"])))
		e["section"] = B(s.UpdateData())
	case "pmt":
		pmt := randPMT(r, 1+r.Intn(8), false)
		sec := pmtSection(pmt)
		variant := r.Intn(4)
		switch variant {
		case 1: // the incoming section carries a wrong CRC_32 (the library does not verify it): the emitted one must be right
			sec[len(sec)-1-r.Intn(4)] ^= byte(1 + r.Intn(255))
		case 2: // the two bits in front of the 10 significant length bits are set on input (CRC computed over that)
			sec[1] |= 0x0c
			c := gots.ComputeCRC(sec[:len(sec)-4])
			copy(sec[len(sec)-4:], c)
		}
		pl := c06Payload(0, nil, sec, 0)
		pk := packetise(r, pl, splitSizes(len(pl), minInt(len(pl), 1+r.Intn(184))), 0x100, r.Intn(2) == 0)
		in := make([]*packet.Packet, len(pk))
		for i := range pk {
			in[i] = &pk[i]
		}
		var keep []int
		for _, st := range pmt.Streams {
			if r.Intn(2) == 0 || variant != 0 && r.Intn(2) == 0 || variant == 3 {
				keep = append(keep, st.Pid) // variant 3: every stream is kept (nothing to drop)
			}
		}
		if len(keep) == 0 {
			keep = []int{pmt.Streams[0].Pid}
		}
		out, err := psi.FilterPMTPacketsToPids(in, keep)
		if err != nil || len(out) == 0 {
			panic("harness: filter failed on a well-formed PMT")
		}
		var car []byte
		for _, p := range out {
			pay, _ := packet.Payload(p)
			car = append(car, pay...)
		}
		sl := int(car[2]&0x03)<<8 | int(car[3])
		if 4+sl > len(car) {
			sl = len(car) - 4
		}
		e["section"] = B(car[1 : 4+sl])
	}
}

func (c13) Exec(h []Ev) []Ev {
	for _, e := range h {
		if GS(e["op"]) == "emitted" {
			e["section"] = []int{}
			e["panic"] = guard(func() { c13Emitted(e) })
			continue
		}
		// the input is handed over as a sub-slice of a larger buffer (spare capacity behind it, as when a
		// caller checksums the front part of a section): neither the input nor the bytes around it may change,
		// and a checksum returned earlier must not change under later calls
		src := GB(e["data"])
		buf := make([]byte, 8+len(src)+8)
		for i := range buf {
			buf[i] = 0x5a
		}
		copy(buf[8:], src)
		keepBuf := append([]byte(nil), buf...)
		d := buf[8 : 8+len(src)]
		keep := append([]byte(nil), d...)
		e["par_same"] = true
		e["panic"] = guard(func() {
			c := gots.ComputeCRC(d)
			first := append([]byte(nil), c...)
			e["crc"] = B(c)
			e["input_same"] = string(d) == string(keep) && string(buf) == string(keepBuf)
			e["crc_appended"] = B(gots.ComputeCRC(append(append([]byte(nil), keep...), c...)))
			gots.ComputeCRC(buf[8 : 8+len(src)/2])
			gots.ComputeCRC(d)
			e["earlier_same"] = string(c) == string(first) && string(buf) == string(keepBuf)
			// the caller edits the buffer it has just had checksummed in place (one bit) and asks again, with no other call in
			// between; then it restores the bit and asks once more: the answer belongs to the bytes, not to the buffer
			e["edited"], e["crc_edited"], e["crc_restored"] = B(keep), B(first), B(first)
			if len(d) > 0 && len(d) <= 1024 {
				k, bit := GI0(e["ord"])%len(d), byte(1)<<uint(GI0(e["ord"])/7%8)
				d[k] ^= bit
				e["edited"] = B(d)
				e["crc_edited"] = B(gots.ComputeCRC(d))
				d[k] ^= bit
				e["crc_restored"] = B(gots.ComputeCRC(d))
			}
			// calls on separate strings that overlap in time (eight goroutines, each with its own rotation of the string)
			if GI0(e["ord"])%7 == 1 && len(src) >= 4 && len(src) <= 2048 {
				e["par_same"] = parSame(8, 150, func(k int) string {
					own := append(append([]byte(nil), src[k%len(src):]...), src[:k%len(src)]...)
					return string(gots.ComputeCRC(own))
				})
			}
		})
	}
	return h
}

func (c13) Class(e Ev) string {
	if GS(e["op"]) == "emitted" {
		return fmt.Sprintf("emitted/%s/astuff%d", GS(e["kind"]), GI(e["astuff"]))
	}
	d := GB(e["data"])
	ones := 0
	for _, x := range d {
		for ; x != 0; x &= x - 1 {
			ones++
		}
	}
	k := "random"
	if ones == 1 {
		k = "singlebit"
	} else if ones == 0 {
		k = "zeros"
	}
	lb := len(d)
	if lb > 16 {
		lb = 16 + lb/128
	}
	return fmt.Sprintf("crc/%s/len%d", k, lb)
}

func (c13) Table(rows []Ev, tier string, seed int64, rep *TableReport) {
	pairU32 := func(v interface{}) uint32 {
		p := GIs(v)
		return uint32(p[0])<<16 | uint32(p[1])
	}
	got := func(d []byte) uint32 {
		c := gots.ComputeCRC(d)
		if len(c) != 4 {
			return 0xdeadbeef
		}
		return uint32(c[0])<<24 | uint32(c[1])<<16 | uint32(c[2])<<8 | uint32(c[3])
	}
	seen := 0
	for _, r := range rows {
		tick([]Ev{r})
		switch GS(r["t"]) {
		case "len0":
			seen++
			if w := pairU32(r["crc"]); got(nil) != w {
				rep.Mismatches = append(rep.Mismatches, Ev{"op": "crc-len0", "reason": "crc-value", "want": w, "got": got(nil)})
			}
			rep.Compared++
		case "len1":
			seen++
			for x, v := range r["crc"].([]interface{}) {
				if w := pairU32(v); got([]byte{byte(x)}) != w {
					rep.Mismatches = append(rep.Mismatches, Ev{"op": "crc-len1", "reason": "crc-value", "data": []int{x}, "want": w, "got": got([]byte{byte(x)})})
				}
				rep.Compared++
			}
		case "len2":
			seen++
			a := GI(r["a"])
			for x, v := range r["crc"].([]interface{}) {
				if w := pairU32(v); got([]byte{byte(a), byte(x)}) != w {
					rep.Mismatches = append(rep.Mismatches, Ev{"op": "crc-len2", "reason": "crc-value", "data": []int{a, x}, "want": w, "got": got([]byte{byte(a), byte(x)})})
				}
				rep.Compared++
			}
		}
	}
	if seen != 258 {
		die("C13 table incomplete: %d rows", seen)
	}
	rep.Exhaustive = true
	rep.Classes["table/len0"] = 1
	rep.Classes["table/len1"] = 256
	rep.Classes["table/len2"] = 65536
	rep.Note = "every byte string of length 0..2 (65 793) compared with the TLC-computed CRC"
	rep.Samples = []Ev{{"data": []int{}, "crc_from_tlc": pairU32(rows[0]["crc"])}}
}
