package main

import (
	"fmt"
	"math/rand"

	gots "github.com/Comcast/gots/v2"
)

// C13: ComputeCRC is CRC-32/MPEG-2.
type c13 struct{}

func init() { register("C13", c13{}) }

func (c13) Gen(tier string, seed int64, emit func([]Ev)) {
	r := rand.New(rand.NewSource(seed))
	one := func(d []byte) { emit([]Ev{{"op": "crc", "data": B(d)}}) }
	// every single-bit string of every length 1..16
	for ln := 1; ln <= 16; ln++ {
		for bit := 0; bit < ln*8; bit++ {
			d := make([]byte, ln)
			d[bit/8] = 0x80 >> uint(bit%8)
			one(d)
		}
		one(make([]byte, ln))
	}
	per := 48
	nrand := 250
	if tier == "thorough" {
		per = 1 << 30
		nrand = 4000
	}
	for _, ln := range []int{32, 64, 183, 184, 188, 1021, 1024} {
		nb := ln * 8
		step := 1
		if nb > per {
			step = nb / per
		}
		for bit := r.Intn(step); bit < nb; bit += step {
			d := make([]byte, ln)
			d[bit/8] = 0x80 >> uint(bit%8)
			one(d)
		}
	}
	for i := 0; i < nrand; i++ {
		ln := r.Intn(1025)
		if i%5 == 0 {
			ln = r.Intn(20)
		}
		d := make([]byte, ln)
		r.Read(d)
		switch i % 7 {
		case 1:
			for k := range d {
				d[k] = 0xff
			}
		case 2:
			for k := range d {
				d[k] = 0
			}
		}
		one(d)
	}
}

func (c13) Exec(h []Ev) []Ev {
	for _, e := range h {
		d := GB(e["data"])
		keep := append([]byte(nil), d...)
		e["panic"] = guard(func() {
			c := gots.ComputeCRC(d)
			e["crc"] = B(c)
			e["input_same"] = string(d) == string(keep)
			e["crc_appended"] = B(gots.ComputeCRC(append(append([]byte(nil), keep...), c...)))
		})
	}
	return h
}

func (c13) Class(e Ev) string {
	d := GB(e["data"])
	ones := 0
	for _, x := range d {
		for ; x != 0; x &= x - 1 {
			ones++
		}
	}
	k := "random"
	if ones == 1 {
		k = "singlebit"
	} else if ones == 0 {
		k = "zeros"
	}
	lb := len(d)
	if lb > 16 {
		lb = 16 + lb/128
	}
	return fmt.Sprintf("crc/%s/len%d", k, lb)
}

func (c13) Table(rows []Ev, tier string, seed int64, rep *TableReport) {
	pairU32 := func(v interface{}) uint32 {
		p := GIs(v)
		return uint32(p[0])<<16 | uint32(p[1])
	}
	got := func(d []byte) uint32 {
		c := gots.ComputeCRC(d)
		if len(c) != 4 {
			return 0xdeadbeef
		}
		return uint32(c[0])<<24 | uint32(c[1])<<16 | uint32(c[2])<<8 | uint32(c[3])
	}
	seen := 0
	for _, r := range rows {
		switch GS(r["t"]) {
		case "len0":
			seen++
			if w := pairU32(r["crc"]); got(nil) != w {
				rep.Mismatches = append(rep.Mismatches, Ev{"op": "crc-len0", "reason": "crc-value", "want": w, "got": got(nil)})
			}
			rep.Compared++
		case "len1":
			seen++
			for x, v := range r["crc"].([]interface{}) {
				if w := pairU32(v); got([]byte{byte(x)}) != w {
					rep.Mismatches = append(rep.Mismatches, Ev{"op": "crc-len1", "reason": "crc-value", "data": []int{x}, "want": w, "got": got([]byte{byte(x)})})
				}
				rep.Compared++
			}
		case "len2":
			seen++
			a := GI(r["a"])
			for x, v := range r["crc"].([]interface{}) {
				if w := pairU32(v); got([]byte{byte(a), byte(x)}) != w {
					rep.Mismatches = append(rep.Mismatches, Ev{"op": "crc-len2", "reason": "crc-value", "data": []int{a, x}, "want": w, "got": got([]byte{byte(a), byte(x)})})
				}
				rep.Compared++
			}
		}
	}
	if seen != 258 {
		die("C13 table incomplete: %d rows", seen)
	}
	rep.Exhaustive = true
	rep.Classes["table/len0"] = 1
	rep.Classes["table/len1"] = 256
	rep.Classes["table/len2"] = 65536
	rep.Note = "every byte string of length 0..2 (65 793) compared with the TLC-computed CRC"
	rep.Samples = []Ev{{"data": []int{}, "crc_from_tlc": pairU32(rows[0]["crc"])}}
}
