// gotsverif: conformance harness binding the TLA+ specification in /verif/spec to
// the real Comcast/gots code (module replaced by /repo's working tree).
//
//	gotsverif gen    <prop> -tier quick|thorough -seed N -out DIR -shards K
//	    drive the real code with generated histories, write ndjson traces
//	    (DIR/trace.<k>.ndjson) and DIR/summary.json
//	gotsverif replay <prop> -in FILE -out FILE
//	    re-execute the input fields of recorded events against the real code
//	gotsverif table  <prop> -in FILE -out FILE -tier T -seed N
//	    compare a TLC-emitted decision table with the real code (exhaustive)
package main

import (
	"bufio"
	"encoding/json"
	"flag"
	"fmt"
	"math/rand"
	"os"
	"path/filepath"
	"regexp"
	"runtime"
	"sort"
	"strconv"
	"strings"
	"sync"
	"sync/atomic"
	"time"
)

// Ev is one trace event: input fields filled by a generator, observation
// fields filled by Exec on the real code.
type Ev map[string]interface{}

// Prop is one property's binding.
type Prop interface {
	// Gen produces histories of input-only events.
	Gen(tier string, seed int64, emit func(h []Ev))
	// Exec runs one history against the real code, filling observation fields.
	Exec(h []Ev) []Ev
	// Class returns the coverage class of an executed event ("" = trivial).
	Class(e Ev) string
}

// TableProp is implemented by properties with a TLC-emitted decision table.
type TableProp interface {
	Table(rows []Ev, tier string, seed int64, report *TableReport)
}

type TableReport struct {
	Rows       int            `json:"rows"`
	Compared   int64          `json:"compared"`
	Exhaustive bool           `json:"exhaustive"`
	Classes    map[string]int `json:"classes"`
	Mismatches []Ev           `json:"mismatches"`
	Samples    []Ev           `json:"samples"`
	Note       string         `json:"note"`
}

var props = map[string]Prop{}

// ---- watchdog: a call into the library that does not return is a finding, not a stuck check ----
var (
	wdTick    int64 // advanced by tick() whenever a unit of work (a history, a table row) completes
	wdCurrent atomic.Value
	wdOut     string // directory where hang.ndjson is written
)

func tick(current interface{}) {
	atomic.AddInt64(&wdTick, 1)
	wdCurrent.Store(current)
}

// startWatchdog aborts the process with exit status 3 when no unit of work completes for `limit`.
// The unit that was running is written to <wdOut>/hang.ndjson so that bin/check can report and replay it.
func startWatchdog(limit time.Duration) {
	go func() {
		last, since := int64(-1), time.Now()
		for {
			time.Sleep(500 * time.Millisecond)
			cur := atomic.LoadInt64(&wdTick)
			if cur != last {
				last, since = cur, time.Now()
				continue
			}
			if time.Since(since) > limit {
				if h, ok := wdCurrent.Load().([]Ev); ok && wdOut != "" {
					if f, err := os.Create(filepath.Join(wdOut, "hang.ndjson")); err == nil {
						enc := json.NewEncoder(f)
						for i, e := range h {
							e["h"], e["i"], e["first"] = 0, i, i == 0
							enc.Encode(e)
						}
						f.Close()
					}
				}
				fmt.Fprintf(os.Stderr, "gotsverif: HANG no progress for %v\n", limit)
				os.Exit(3)
			}
		}
	}()
}

func register(id string, p Prop) { props[id] = p }

// execGuarded runs one history. Exec implementations guard their library calls themselves; should a panic
// of library origin escape nevertheless, it is recorded on the first event not yet executed and the rest of
// the history is marked skipped (a panic of harness code still aborts the run).
func execGuarded(p Prop, h []Ev) []Ev {
	var evs []Ev
	pan := guard(func() { evs = p.Exec(h) })
	if pan == "" {
		return evs
	}
	if strings.HasPrefix(pan, "harness-panic") {
		die("%s", pan)
	}
	marked := false
	for _, e := range h {
		if _, done := e["panic"]; done && !marked {
			continue
		}
		if !marked {
			e["panic"], marked = pan, true
		} else {
			e["panic"] = "skipped-after-panic"
		}
	}
	if !marked && len(h) > 0 {
		h[len(h)-1]["panic"] = pan
	}
	return h
}

// RowGenProp: histories whose inputs are chosen by the specification (rows printed by a Gen_* module).
type RowGenProp interface {
	GenRows(rows []Ev, tier string, seed int64, emit func([]Ev))
}

type rowGenAdapter struct {
	Prop
	rg   RowGenProp
	rows []Ev
}

func (a rowGenAdapter) Gen(tier string, seed int64, emit func([]Ev)) {
	a.rg.GenRows(a.rows, tier, seed, emit)
}

type Summary struct {
	Prop      string         `json:"prop"`
	Tier      string         `json:"tier"`
	Seed      int64          `json:"seed"`
	Histories int            `json:"histories"`
	Events    int            `json:"events"`
	Classes   map[string]int `json:"classes"`
	Samples   []Ev           `json:"samples"`
	Shards    []string       `json:"shards"`
	ShardLens []int          `json:"shard_lens"`
}

func die(format string, a ...interface{}) {
	fmt.Fprintf(os.Stderr, "gotsverif: "+format+"\n", a...)
	os.Exit(2)
}

func main() {
	if len(os.Args) < 3 {
		die("usage: gotsverif gen|replay|table <prop> [flags]")
	}
	cmd, id := os.Args[1], os.Args[2]
	if cmd == "c05worker" {
		c05Worker()
		return
	}
	if cmd == "fuzzcorpus" { // gotsverif fuzzcorpus <out.ndjson> <src-label> <dir>...: Go fuzz corpus files -> rows
		fuzzCorpus(os.Args[2], os.Args[3], os.Args[4:])
		return
	}
	p, ok := props[id]
	if !ok {
		die("unknown property %s", id)
	}
	fs := flag.NewFlagSet(cmd, flag.ExitOnError)
	tier := fs.String("tier", "quick", "")
	seed := fs.Int64("seed", 1, "")
	out := fs.String("out", "", "")
	in := fs.String("in", "", "")
	shards := fs.Int("shards", 1, "")
	fs.Parse(os.Args[3:])
	switch cmd {
	case "gen":
		if *in != "" {
			// histories derived from rows a TLC generator printed (B2: model-chosen inputs)
			rg, ok := p.(RowGenProp)
			if !ok {
				die("property %s cannot generate histories from rows", id)
			}
			rows := readEvents(*in)
			p = rowGenAdapter{Prop: p, rg: rg, rows: rows}
		}
		doGen(id, p, *tier, *seed, *out, *shards)
	case "replay":
		doReplay(p, *in, *out)
	case "table":
		tp, ok := p.(TableProp)
		if !ok {
			die("property %s has no table binding", id)
		}
		doTable(tp, *in, *out, *tier, *seed)
	default:
		die("unknown command %s", cmd)
	}
}

func doGen(id string, p Prop, tier string, seed int64, out string, nshards int) {
	if err := os.MkdirAll(out, 0o755); err != nil {
		die("%v", err)
	}
	sum := Summary{Prop: id, Tier: tier, Seed: seed, Classes: map[string]int{}}
	files := make([]*bufio.Writer, nshards)
	closers := make([]*os.File, nshards)
	sum.ShardLens = make([]int, nshards)
	for k := 0; k < nshards; k++ {
		name := filepath.Join(out, fmt.Sprintf("trace.%d.ndjson", k))
		f, err := os.Create(name)
		if err != nil {
			die("%v", err)
		}
		closers[k] = f
		files[k] = bufio.NewWriterSize(f, 1<<20)
		sum.Shards = append(sum.Shards, name)
	}
	hid := 0
	wdOut = out
	os.Remove(filepath.Join(out, "hang.ndjson"))
	startWatchdog(hangLimit())
	p.Gen(tier, seed, func(h []Ev) {
		tick(h)
		for i, e := range h {
			if _, ok := e["ord"]; !ok {
				e["ord"] = ordOf(seed, hid, i)
			}
		}
		evs := execGuarded(p, h)
		k := hid % nshards
		enc := json.NewEncoder(files[k])
		for i, e := range evs {
			e["h"] = hid
			e["i"] = i
			if i == 0 {
				e["first"] = true
			} else {
				e["first"] = false
			}
			checkNarrow(e, "")
			if err := enc.Encode(e); err != nil {
				die("encode: %v", err)
			}
			sum.ShardLens[k]++
			sum.Events++
			// coverage class of the event; an event that panicked (or was skipped after a panic) may lack the
			// observations Class looks at, so classification itself must never abort the run
			c := ""
			if guard(func() { c = p.Class(e) }) != "" {
				c = "unclassified-after-panic"
			}
			if c != "" {
				if sum.Classes[c] == 0 && len(sum.Samples) < 6 {
					sum.Samples = append(sum.Samples, e)
				}
				sum.Classes[c]++
			}
		}
		hid++
	})
	sum.Histories = hid
	for k := range files {
		files[k].Flush()
		closers[k].Close()
	}
	writeJSON(filepath.Join(out, "summary.json"), sum)
}

// checkNarrow aborts if an event carries an integer that TLC (32-bit) would
// silently wrap when it parses the JSON; wide values must be digit arrays (W64).
func checkNarrow(v interface{}, path string) {
	switch t := v.(type) {
	case Ev:
		for k, x := range t {
			checkNarrow(x, path+"."+k)
		}
	case map[string]interface{}:
		for k, x := range t {
			checkNarrow(x, path+"."+k)
		}
	case []interface{}:
		for _, x := range t {
			checkNarrow(x, path+"[]")
		}
	case []Ev:
		for _, x := range t {
			checkNarrow(x, path+"[]")
		}
	case []int:
		for _, x := range t {
			checkNarrow(x, path+"[]")
		}
	case nil:
		die("event field %s is null (TLC's Json module cannot read null)", path)
	case int:
		if t > 2147483647 || t < -2147483648 {
			die("event field %s = %d does not fit TLC's 32-bit integers", path, t)
		}
	case int64:
		checkNarrow(int(t), path)
	case uint64:
		if t > 2147483647 {
			die("event field %s = %d does not fit TLC's 32-bit integers", path, t)
		}
	case uint32:
		checkNarrow(int(t), path)
	case float64:
		if t > 2147483647 || t < -2147483648 {
			die("event field %s = %v does not fit TLC's 32-bit integers", path, t)
		}
	}
}

func hangLimit() time.Duration {
	if v := os.Getenv("VERIF_HANG_S"); v != "" {
		var n int
		fmt.Sscanf(v, "%d", &n)
		if n > 0 {
			return time.Duration(n) * time.Second
		}
	}
	return 60 * time.Second
}

func readEvents(path string) []Ev {
	f, err := os.Open(path)
	if err != nil {
		die("%v", err)
	}
	defer f.Close()
	var evs []Ev
	sc := bufio.NewScanner(f)
	sc.Buffer(make([]byte, 1<<20), 1<<28)
	for sc.Scan() {
		if len(sc.Bytes()) == 0 {
			continue
		}
		var e Ev
		if err := json.Unmarshal(sc.Bytes(), &e); err != nil {
			die("%s: %v", path, err)
		}
		evs = append(evs, e)
	}
	return evs
}

func doReplay(p Prop, in, out string) {
	evs := readEvents(in)
	// split into histories on "first"
	var hs [][]Ev
	for _, e := range evs {
		if b, _ := e["first"].(bool); b || len(hs) == 0 {
			hs = append(hs, nil)
		}
		hs[len(hs)-1] = append(hs[len(hs)-1], e)
	}
	f, err := os.Create(out)
	if err != nil {
		die("%v", err)
	}
	w := bufio.NewWriter(f)
	enc := json.NewEncoder(w)
	wdOut = filepath.Dir(out)
	startWatchdog(hangLimit())
	for hid, h := range hs {
		tick(h)
		res := execGuarded(p, h)
		for i, e := range res {
			e["h"] = hid
			e["i"] = i
			e["first"] = i == 0
			enc.Encode(e)
		}
	}
	w.Flush()
	f.Close()
}

func doTable(tp TableProp, in, out, tier string, seed int64) {
	rows := readEvents(in)
	rep := &TableReport{Rows: len(rows), Classes: map[string]int{}}
	// a row (table row, or one model behaviour replayed on the real object) that does not complete is a hang
	wdOut = filepath.Dir(out)
	os.Remove(filepath.Join(wdOut, "hang.ndjson"))
	startWatchdog(2 * hangLimit())
	// Rows are independent: when the library panics inside a row, the panic is recorded as a mismatch
	// of that row and the comparison resumes with the next one (a panic of harness code aborts).
	for start := 0; start < len(rows); {
		before := atomic.LoadInt64(&wdTick)
		pan := guard(func() { tp.Table(rows[start:], tier, seed, rep) })
		if pan == "" {
			break
		}
		if strings.HasPrefix(pan, "harness-panic") {
			die("%s", pan)
		}
		done := int(atomic.LoadInt64(&wdTick) - before) // rows started, the last one panicked
		if done < 1 {
			die("panic outside a row: %s", pan)
		}
		idx := start + done - 1
		rep.Mismatches = append(rep.Mismatches, Ev{"op": "table-row", "reason": normPanic(pan), "row": rows[idx]})
		if len(rep.Mismatches) > 200 {
			break
		}
		start = idx + 1
	}
	if len(rep.Mismatches) > 200 {
		rep.Mismatches = rep.Mismatches[:200]
	}
	writeJSON(out, rep)
}

func writeJSON(path string, v interface{}) {
	b, err := json.Marshal(v)
	if err != nil {
		die("%v", err)
	}
	if err := os.WriteFile(path, b, 0o644); err != nil {
		die("%v", err)
	}
}

// ---- helpers shared by the property files ----

// B converts bytes to a JSON-friendly int slice (encoding/json would base64 a []byte).
func B(b []byte) []int {
	r := make([]int, len(b))
	for i, x := range b {
		r[i] = int(x)
	}
	return r
}

// GB reads a byte array field written by B (after a JSON round trip or not).
func GB(v interface{}) []byte {
	switch t := v.(type) {
	case []int:
		r := make([]byte, len(t))
		for i, x := range t {
			r[i] = byte(x)
		}
		return r
	case []interface{}:
		r := make([]byte, len(t))
		for i, x := range t {
			r[i] = byte(GI(x))
		}
		return r
	case nil:
		return nil
	}
	panic(fmt.Sprintf("GB: %T", v))
}

// GI reads an int field.
func GI(v interface{}) int {
	switch t := v.(type) {
	case int:
		return t
	case int64:
		return int(t)
	case uint64:
		return int(t)
	case float64:
		return int(t)
	case uint8:
		return int(t)
	}
	panic(fmt.Sprintf("GI: %T", v))
}

func GS(v interface{}) string  { s, _ := v.(string); return s }
func GBool(v interface{}) bool { b, _ := v.(bool); return b }

// GIs reads an int array field.
// ordOf: the order key of an event (recorded in the trace, so that a replay queries in the same order): 0 for a third
// of the events (getters in their listed order), a permutation seed otherwise.
func ordOf(seed int64, hid, i int) int {
	x := uint64(seed)*0x9e3779b97f4a7c15 + uint64(hid)*0xbf58476d1ce4e5b9 + uint64(i)*0x94d049bb133111eb
	x ^= x >> 31
	x *= 0xd6e8feb86659fd93
	x ^= x >> 29
	if x%3 == 0 {
		return 0
	}
	return 1 + int(x>>8%1000000)
}

// inOrder runs the getter closures of a freshly returned object in the order the event's key selects: what a getter
// reports must not depend on which other getters were called before it.
func inOrder(e Ev, gets ...func()) {
	key := GI0(e["ord"])
	if key == 0 {
		for _, g := range gets {
			g()
		}
		return
	}
	for _, i := range rand.New(rand.NewSource(int64(key))).Perm(len(gets)) {
		gets[i]()
	}
}

// parSame runs n goroutines, each calling f(k) rounds times, and reports whether every result equalled the one the same
// call gave when it ran alone (computed first): calls on separate data must not disturb one another when they
// overlap in time.
func parSame(n, rounds int, f func(k int) string) bool {
	alone := make([]string, n)
	for k := range alone {
		alone[k] = f(k)
	}
	var wg sync.WaitGroup
	var bad int32
	for k := 0; k < n; k++ {
		wg.Add(1)
		go func(k int) {
			defer wg.Done()
			defer func() {
				if recover() != nil {
					atomic.StoreInt32(&bad, 1)
				}
			}()
			for i := 0; i < rounds && atomic.LoadInt32(&bad) == 0; i++ {
				if f(k) != alone[k] {
					atomic.StoreInt32(&bad, 1)
				}
			}
		}(k)
	}
	wg.Wait()
	return bad == 0
}

// nilIfEmpty: a zero-length byte argument is handed over as a nil slice for the events whose order key is odd
// (nil and empty are the same argument to a function that takes a byte string).
func nilIfEmpty(e Ev, b []byte) []byte {
	if len(b) == 0 && GI0(e["ord"])%2 == 1 {
		return nil
	}
	return b
}

// GI0 is GI with 0 for an absent field.
func GI0(v interface{}) int {
	if v == nil {
		return 0
	}
	return GI(v)
}

func GIs(v interface{}) []int {
	switch t := v.(type) {
	case []int:
		return t
	case []interface{}:
		r := make([]int, len(t))
		for i, x := range t {
			r[i] = GI(x)
		}
		return r
	case nil:
		return nil
	}
	panic(fmt.Sprintf("GIs: %T", v))
}

// W64 writes a uint64 as 8 big-endian bytes: TLC integers are 32-bit, so wide
// values cross the Go/TLA+ boundary as digit sequences (module Wide).
func W64(v uint64) []int {
	r := make([]int, 8)
	for i := 0; i < 8; i++ {
		r[i] = int(v >> uint(56-8*i) & 0xff)
	}
	return r
}

// UW64 is the inverse of W64.
func UW64(v interface{}) uint64 {
	l := GIs(v)
	var r uint64
	for _, d := range l {
		r = r<<8 | uint64(d)
	}
	return r
}

// guard runs f, converting a panic raised inside the library into an
// error-class string "panic:<value>".  A panic whose innermost non-runtime frame
// is in this harness is a harness bug: it is reported as "harness-panic:..."
// which bin/check turns into BROKEN, never into a verdict about the code.
func guard(f func()) (perr string) {
	defer func() {
		if r := recover(); r != nil {
			pcs := make([]uintptr, 64)
			n := runtime.Callers(2, pcs)
			frames := runtime.CallersFrames(pcs[:n])
			seenPanic := false
			origin := ""
			for {
				fr, more := frames.Next()
				if fr.Function == "runtime.gopanic" {
					seenPanic = true
				} else if seenPanic && !strings.HasPrefix(fr.Function, "runtime.") {
					origin = fr.Function
					break
				}
				if !more {
					break
				}
			}
			if strings.HasPrefix(origin, "main.") {
				perr = fmt.Sprintf("harness-panic:%v at %s", r, origin)
			} else {
				perr = fmt.Sprintf("panic:%v", r)
			}
		}
	}()
	f()
	return ""
}

var digitsRe = regexp.MustCompile(`[0-9]+`)

// normPanic: panic text with numbers abstracted, so that one defect gives one signature
func normPanic(p string) string { return digitsRe.ReplaceAllString(p, "N") }

// asMap views a nested JSON object whether it was built in-process (Ev) or decoded.
func asMap(v interface{}) map[string]interface{} {
	switch t := v.(type) {
	case Ev:
		return t
	case map[string]interface{}:
		return t
	}
	panic(fmt.Sprintf("asMap: %T", v))
}

func sortedKeys(m map[string]int) []string {
	ks := make([]string, 0, len(m))
	for k := range m {
		ks = append(ks, k)
	}
	sort.Strings(ks)
	return ks
}

// ---- results of earlier calls must not change under later calls ----

// holder keeps re-readable observations of objects returned earlier in a history.
type holder struct {
	re  []func() string
	was []string
}

func (h *holder) hold(f func() string) {
	var v string
	if guard(func() { v = f() }) == "" {
		h.re, h.was = append(h.re, f), append(h.was, v)
	}
}

func (h *holder) same() bool {
	ok := true
	for i, f := range h.re {
		var v string
		if guard(func() { v = f() }) != "" || v != h.was[i] {
			ok = false
		}
	}
	return ok
}

func jsonOf(v interface{}) string {
	b, _ := json.Marshal(v)
	return string(b)
}

// grouper merges single-event histories of the given ops into histories of one to three events.
// Events that were generated next to each other (often variants of one object) are not put
// together: a group takes events that were generated four apart.
func grouper(emit0 func([]Ev), ops ...string) (emit func([]Ev), flush func()) {
	var q []Ev
	groups := 0
	take := func(force bool) {
		for len(q) >= 9 || (force && len(q) > 0) {
			n := 1 + groups%3
			groups++
			var g, rest []Ev
			for i, e := range q {
				if i%4 == 0 && len(g) < n {
					g = append(g, e)
				} else {
					rest = append(rest, e)
				}
			}
			q = rest
			emit0(g)
		}
	}
	emit = func(h []Ev) {
		if len(h) == 1 {
			for _, op := range ops {
				if GS(h[0]["op"]) == op {
					q = append(q, h[0])
					take(false)
					return
				}
			}
		}
		emit0(h)
	}
	flush = func() { take(true) }
	return
}

// fuzzCorpus converts "go test fuzz v1" corpus files with the signature (uint8, []byte, uint16) into rows.
func fuzzCorpus(out, label string, dirs []string) {
	f, err := os.Create(out)
	if err != nil {
		die("%v", err)
	}
	defer f.Close()
	enc := json.NewEncoder(f)
	lit := func(line string) (string, string) { // "type(literal)" -> type, literal
		i := strings.Index(line, "(")
		if i < 0 || !strings.HasSuffix(line, ")") {
			return "", ""
		}
		return line[:i], line[i+1 : len(line)-1]
	}
	for _, d := range dirs {
		ents, _ := os.ReadDir(d)
		for _, en := range ents {
			b, err := os.ReadFile(filepath.Join(d, en.Name()))
			if err != nil {
				continue
			}
			lines := strings.Split(strings.TrimSpace(string(b)), "\n")
			if len(lines) != 4 || !strings.HasPrefix(lines[0], "go test fuzz v1") {
				continue
			}
			row := Ev{"src": label, "file": en.Name()}
			ok := true
			for k, ln := range lines[1:] {
				ty, v := lit(strings.TrimSpace(ln))
				switch {
				case k == 0 && (ty == "byte" || ty == "uint8"):
					if strings.HasPrefix(v, "'") {
						r, _, _, e := strconv.UnquoteChar(v[1:len(v)-1], 39)
						ok = ok && e == nil
						row["opi"] = int(r) & 0xff
					} else {
						n, e := strconv.ParseInt(v, 0, 32)
						ok = ok && e == nil
						row["opi"] = int(n) & 0xff
					}
				case k == 1 && ty == "[]byte":
					sv, e := strconv.Unquote(v)
					ok = ok && e == nil
					row["in"] = B([]byte(sv))
				case k == 2 && ty == "uint16":
					n, e := strconv.ParseInt(v, 0, 32)
					ok = ok && e == nil
					row["arg"] = int(n) & 0xffff
				default:
					ok = false
				}
			}
			if ok {
				enc.Encode(row)
			}
		}
	}
}

// byteSrc is a math/rand source that reads a fuzzer's byte string; once the string is used up it continues as a
// small deterministic generator seeded by the string (constant output would make rejection loops in the generators
// spin). Every generator that draws from a *rand.Rand can thus be steered by the coverage-guided fuzzer and still
// only produces well-formed inputs.
type byteSrc struct {
	b    []byte
	i    int
	x    uint64
	init bool
}

func (s *byteSrc) Seed(int64) {}
func (s *byteSrc) Int63() int64 {
	if s.i+8 <= len(s.b) {
		var v uint64
		for k := 0; k < 8; k++ {
			v = v<<8 | uint64(s.b[s.i])
			s.i++
		}
		return int64(v >> 1)
	}
	if !s.init {
		s.x, s.init = 0x9e3779b97f4a7c15, true
		for _, c := range s.b {
			s.x = (s.x ^ uint64(c)) * 0x100000001b3
		}
	}
	s.x ^= s.x << 13
	s.x ^= s.x >> 7
	s.x ^= s.x << 17
	return int64(s.x >> 1)
}
