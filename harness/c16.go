package main

import (
	"bufio"
	"bytes"
	"fmt"
	"io"
	"math/bits"
	"math/rand"
	"strings"
	"testing/iotest"

	gots "github.com/Comcast/gots/v2"
	"github.com/Comcast/gots/v2/packet"
)

// C16: sync search.
type c16 struct{}

func init() { register("C16", c16{}) }

// slicePeeker is a minimal PeekScanner over a byte slice.
type slicePeeker struct {
	b      []byte
	pos    int
	canUnr bool
}

func (s *slicePeeker) ReadByte() (byte, error) {
	if s.pos >= len(s.b) {
		s.canUnr = false
		return 0, io.EOF
	}
	s.pos++
	s.canUnr = true
	return s.b[s.pos-1], nil
}
func (s *slicePeeker) UnreadByte() error {
	if !s.canUnr {
		return bufio.ErrInvalidUnreadByte
	}
	s.pos--
	s.canUnr = false
	return nil
}
func (s *slicePeeker) Peek(n int) ([]byte, error) {
	s.canUnr = false
	if s.pos+n > len(s.b) {
		return s.b[s.pos:], io.EOF
	}
	return s.b[s.pos : s.pos+n], nil
}
func (s *slicePeeker) Read(p []byte) (int, error) {
	if s.pos >= len(s.b) {
		return 0, io.EOF
	}
	n := copy(p, s.b[s.pos:])
	s.pos += n
	return n, nil
}

var c16Alphabet = []byte{0x47, 0x00, 0x10, 0x05, 0x1f}
var c16Readers = []string{"bufio16", "bufio4096", "slice", "bufio16-onebyte", "bufio188", "bufio512"}

func (c16) Gen(tier string, seed int64, emit func([]Ev)) {
	r := rand.New(rand.NewSource(seed))
	maxLen, nrand := 6, 1500
	if tier == "thorough" {
		maxLen, nrand = 9, 200000
	}
	c16IsSynced(r, emit)
	c16Boundary(r, tier == "thorough", emit)
	// the header far away: offsets beyond what 16 bits can count (a few rejected candidates on the way)
	fars := []int{65535, 65536, 65537, 70001}
	if tier == "thorough" {
		fars = append(fars, 131071, 131072, 131073, 200000, 65534, 65540)
	}
	// gaps of millions of bytes without a sync byte (described as pre, fill x n, suf; judged through Sync!GapLemma)
	gaps := []int{1<<20 + 5, 1<<22 + 1, 20000003}
	if tier == "thorough" {
		gaps = append(gaps, 1<<21, 1<<23+7, 1<<24+3, 1<<26+1, 50000000)
	}
	for k, g := range gaps {
		pre := rndBytes(r, r.Intn(6))
		for i := range pre {
			if pre[i] == 0x47 {
				pre[i] = 0x46
			}
		}
		if k%2 == 1 {
			pre = append(pre, 0x47, 0x00, 0x05) // a rejected candidate whose header reaches into the gap
		}
		suf := append([]byte{0x47, 0x01, 0x00, 0x10 | byte(r.Intn(16))}, bytes.Repeat([]byte{0x48}, 184+r.Intn(100))...)
		if k%3 == 2 {
			suf = append([]byte{0x47, 0x47, 0x40, 0x00}, suf...) // false candidates right behind the gap
		}
		emit([]Ev{{"op": "syncgap", "pre": B(pre), "fill": []int{0xff, 0x00, 0x48}[k%3], "n": g, "suf": B(suf), "stream": []int{},
			"reader": []string{"bufio4096", "slice", "bufio:752", "bufio16"}[k%4]}})
		if k == 0 { // and a gap that ends the stream: not found
			emit([]Ev{{"op": "syncgap", "pre": B(pre), "fill": 0xff, "n": g, "suf": []int{0x47, 0x01}, "stream": []int{}, "reader": "bufio4096"}})
		}
	}
	// more rejected candidates than 16 bits can count: a run of sync bytes (each one a candidate with
	// adaptation_field_control 00), then the header
	for _, g := range []int{65536 + r.Intn(5), 70001} {
		st := bytes.Repeat([]byte{0x47}, g)
		st = append(st, 0x47, 0x01, 0x00, 0x10|byte(r.Intn(16)))
		st = append(st, bytes.Repeat([]byte{0x48}, 184+r.Intn(50))...)
		emit([]Ev{{"op": "sync", "stream": B(st), "reader": []string{"bufio4096", "slice"}[g%2]}})
	}
	for k, g := range fars {
		st := bytes.Repeat([]byte{[]byte{0xff, 0x00, 0x48}[k%3]}, g)
		for q := 0; q < 20; q++ {
			copy(st[r.Intn(g-8):], []byte{0x47, 0x00, 0x05, 0x10})
		}
		for q := g - 4; q < g; q++ {
			st[q] = 0x46
		}
		st = append(st, 0x47, 0x01, 0x00, 0x10|byte(r.Intn(16)))
		st = append(st, bytes.Repeat([]byte{0x48}, 184+r.Intn(190))...)
		emit([]Ev{{"op": "sync", "stream": B(st), "reader": []string{"bufio4096", "slice", "bufio:752", "bufio16"}[k%4]}})
	}
	if tier == "thorough" {
		c16Structured(r, 3000, emit)
	} else {
		c16Structured(r, 200, emit)
	}
	// bounded-exhaustive: every stream of length <= maxLen over the alphabet
	var rec func(prefix []byte)
	n := 0
	rec = func(prefix []byte) {
		rd := c16Readers[n%2*2] // alternate bufio16 / slice
		n++
		emit([]Ev{{"op": "sync", "stream": B(prefix), "reader": rd}})
		if len(prefix) == maxLen {
			return
		}
		for _, a := range c16Alphabet {
			rec(append(append([]byte(nil), prefix...), a))
		}
	}
	rec(nil)
	// every PID around the reserved range x every adaptation_field_control, alone, behind a false sync
	// byte, and in front of a later good header (so that a wrongly rejected header changes the offset)
	for _, pid := range []int{0, 1, 2, 3, 4, 5, 6, 0xe, 0xf, 0x10, 0x11, 0x12, 0x100, 0x1003, 0x1004, 0x100f, 0x1010, 0x1ffe, 0x1fff} {
		for afc := 0; afc < 4; afc++ {
			hdr := []byte{0x47, byte(pid >> 8), byte(pid), byte(afc<<4) | 0x07}
			good := []byte{0x47, 0x01, 0x00, 0x10}
			for k, pre := range [][]byte{{}, {0x47}, {0x00, 0x47, 0x47}, {0x47, 0x00, 0x00}} {
				st := append(append(append([]byte(nil), pre...), hdr...), 0xAA, 0xBB)
				emit([]Ev{{"op": "sync", "stream": B(st), "reader": c16Readers[k%len(c16Readers)]}})
				emit([]Ev{{"op": "sync", "stream": B(append(st, good...)), "reader": c16Readers[(k+1)%len(c16Readers)]}})
			}
		}
	}
	// readers handed over after the caller consumed a prefix (a header inside the prefix does not count any more)
	for k := 0; k < 60; k++ {
		pre := 1 + r.Intn(12)
		st := rndBytes(r, pre)
		if k%2 == 0 {
			copy(st, []byte{0x47, 0x01, 0x00, 0x10}) // a plausible header at the very start, consumed
		}
		st = append(st, rndBytes(r, r.Intn(8))...)
		st = append(st, 0x47, byte(r.Intn(32)), byte(0x10+r.Intn(200)), 0x10|byte(r.Intn(16)))
		st = append(st, rndBytes(r, 4+r.Intn(190))...)
		emit([]Ev{{"op": "sync", "stream": B(st), "reader": c16Readers[k%len(c16Readers)], "skipn": pre}})
	}
	// random long streams dense in false sync bytes, headers cut by EOF, reserved PIDs
	for i := 0; i < nrand; i++ {
		ln := r.Intn(60)
		if i%10 == 0 {
			ln = 180 + r.Intn(400)
		}
		s := make([]byte, ln)
		for k := range s {
			switch r.Intn(6) {
			case 0, 1:
				s[k] = 0x47
			case 2:
				s[k] = byte(r.Intn(256))
			case 3:
				s[k] = []byte{0x00, 0x04, 0x0f, 0x10, 0x03}[r.Intn(5)]
			case 4:
				s[k] = []byte{0x00, 0x40, 0x1f, 0xe0}[r.Intn(4)]
			default:
				s[k] = []byte{0x10, 0x20, 0x30, 0x0f, 0xcf}[r.Intn(5)]
			}
		}
		if i%3 == 0 && ln >= 4 { // plant a true header somewhere, possibly cut by EOF
			at := r.Intn(ln)
			hdr := []byte{0x47, byte(r.Intn(256)), byte(r.Intn(256)), 0x10 | byte(r.Intn(16))}
			copy(s[at:], hdr)
		}
		emit([]Ev{{"op": "sync", "stream": B(s), "reader": c16Readers[r.Intn(len(c16Readers))]}})
	}
}

// c16Structured: real transport streams behind a run of bytes that holds no plausible header at all - a
// damaged first packet (run of 188), runs around one and two packet lengths, runs around typical reader
// buffer sizes - optionally with false sync bytes (0x47 followed by a reserved PID or AFC 00) inside the run.
func c16Structured(r *rand.Rand, n int, emit func([]Ev)) {
	lens := []int{0, 1, 3, 4, 5, 15, 16, 17, 183, 184, 185, 186, 187, 188, 189, 190, 191, 192, 200, 372, 373, 374, 375, 376, 377, 380, 510, 511, 512, 513, 600}
	for i := 0; i < n; i++ {
		g := lens[i%len(lens)]
		if i >= 3*len(lens) {
			g = r.Intn(700)
		}
		var st []byte
		for k := 0; k < g; k++ {
			b := byte(r.Intn(256))
			if b == 0x47 {
				b = 0x46
			}
			st = append(st, b)
		}
		if i%3 == 1 { // false sync bytes inside the run: reserved PID 0x0004..0x000f, or AFC 00
			for k := 0; k+4 <= g; k += 1 + r.Intn(40) {
				if r.Intn(2) == 0 {
					copy(st[k:], []byte{0x47, 0x00, byte(4 + r.Intn(12)), 0x10})
				} else {
					copy(st[k:], []byte{0x47, byte(r.Intn(32)), byte(r.Intn(256)), byte(r.Intn(4)<<6 | r.Intn(16))})
				}
				if k+4 < g && st[k+4] == 0x47 {
					st[k+4] = 0x46
				}
			}
			// the last bytes of the run must not combine with the packet that follows into an earlier header
			for k := g - 3; k < g; k++ {
				if k >= 0 && st[k] == 0x47 {
					st[k] = 0x46
				}
			}
		}
		for np := 1 + r.Intn(3); np > 0; np-- {
			var p [188]byte
			for k := range p {
				p[k] = byte(r.Intn(256))
				if p[k] == 0x47 {
					p[k] = 0x48
				}
			}
			pid := 0x10 + r.Intn(0x1ff0)
			p[0], p[1], p[2], p[3] = 0x47, byte(pid>>8), byte(pid), 0x10|byte(r.Intn(16))
			st = append(st, p[:]...)
		}
		if i%4 == 3 {
			st = st[:len(st)-r.Intn(188)] // the last packet cut by the end of the stream
		}
		emit([]Ev{{"op": "sync", "stream": B(st), "reader": c16Readers[i%len(c16Readers)]}})
	}
}

// c16Boundary: a rejected sync byte whose four header bytes straddle the end of a buffer fill, with the true header
// beginning inside those four bytes - for buffered readers of many sizes (whole packets, whole packets plus one
// or two, powers of two), at every alignment of the pair against the end of the first (second, third) fill.
func c16Boundary(r *rand.Rand, thorough bool, emit func([]Ev)) {
	var sizes []int
	for n := 1; n <= 8; n++ {
		sizes = append(sizes, n*188, n*188+1, n*188+2)
	}
	sizes = append(sizes, 16, 17, 64, 100, 256, 512, 1000, 1024, 2048, 4096)
	fills := 1
	if thorough {
		fills = 3
		for k := 0; k < 40; k++ {
			sizes = append(sizes, 16+r.Intn(3000))
		}
	}
	pairs := [][]byte{
		{0x47, 0x47, 0x40, 0x00, 0x10},             // false (AFC 00) at 0, true at 1
		{0x47, 0x00, 0x47, 0x40, 0x00, 0x10},       // false (AFC 00) at 0, true at 2
		{0x47, 0x00, 0x05, 0x47, 0x01, 0x00, 0x10}, // false (PID 5) at 0, true at 3
	}
	for _, sz := range sizes {
		for f := 1; f <= fills; f++ {
			for d := -6; d <= 1; d++ {
				at := f*sz + d
				if at < 0 {
					continue
				}
				for _, pr := range pairs {
					st := make([]byte, at, at+len(pr)+200)
					fill := []byte{0xff, 0x00, 0x46}[r.Intn(3)]
					for i := range st {
						st[i] = fill
					}
					st = append(st, pr...)
					// more than one further buffer fill behind the pair, so that a refill replaces the whole buffer
					for k := 0; k < sz+183+r.Intn(10); k++ {
						st = append(st, 0x48)
					}
					emit([]Ev{{"op": "sync", "stream": B(st), "reader": fmt.Sprintf("bufio:%d", sz)}})
				}
			}
		}
	}
}

// c16IsSynced: IsSynced on every AFC value x PIDs around the reserved range x first-byte variants,
// and on streams shorter than a header.
func c16IsSynced(r *rand.Rand, emit func([]Ev)) {
	pids := []int{0, 1, 2, 3, 4, 5, 0xe, 0xf, 0x10, 0x11, 0x100, 0x1ffe, 0x1fff, 0x1004, 0x100f, 0x0104}
	for _, b0 := range []int{0x47, 0x46, 0x48, 0x00, 0xff} {
		for _, pid := range pids {
			for afc := 0; afc < 4; afc++ {
				hi := r.Intn(8) << 5 // TEI / PUSI / priority bits are irrelevant
				st := []byte{byte(b0), byte(hi | pid>>8), byte(pid), byte(r.Intn(4)<<6 | afc<<4 | r.Intn(16))}
				st = append(st, rndBytes(r, r.Intn(6))...)
				emit([]Ev{{"op": "issynced", "stream": B(st), "reader": c16Readers[r.Intn(len(c16Readers))]}})
			}
		}
	}
	// every value of the fourth header byte for the PIDs at the edges of the reserved range, with each setting of the
	// three flag bits in front of the PID (the test is on PID and adaptation_field_control alone)
	for _, pid := range []int{3, 4, 0xf, 0x10, 0x1003, 0x1004} {
		for b3 := 0; b3 < 256; b3++ {
			st := []byte{0x47, byte((b3%8)<<5 | pid>>8), byte(pid), byte(b3), 0x48, 0x48}
			emit([]Ev{{"op": "issynced", "stream": B(st), "reader": c16Readers[b3%len(c16Readers)]}})
			if b3%16 == 15 || b3%16 == 0 {
				emit([]Ev{{"op": "sync", "stream": B(append(append([]byte{0x00, 0x47}, st...), 0x47, 0x01, 0x00, 0x10, 0x48)), "reader": c16Readers[(b3/16)%len(c16Readers)]}})
			}
		}
	}
	for n := 0; n < 4; n++ {
		st := append([]byte{0x47, 0x01, 0x00, 0x10}[:n:n], []byte{}...)
		emit([]Ev{{"op": "issynced", "stream": B(st), "reader": c16Readers[n%len(c16Readers)]}})
	}
}

// GenRows: byte streams kept by the coverage-guided fuzzer (FuzzC16); Sync is specified on every byte stream.
func (c16) GenRows(rows []Ev, tier string, seed int64, emit func([]Ev)) {
	for _, row := range rows {
		in := GB(row["in"])
		if len(in) > 1500 {
			in = in[:1500]
		}
		if in == nil {
			in = []byte{}
		}
		emit([]Ev{{"op": "sync", "stream": B(in), "reader": c16Readers[GI(row["opi"])%len(c16Readers)]}})
	}
}

func (c16) Exec(h []Ev) []Ev {
	for _, e := range h {
		s := GB(e["stream"])
		if GS(e["op"]) == "syncgap" { // described, not transmitted: pre, fill x n, suf
			s = append(append(append([]byte(nil), GB(e["pre"])...), bytes.Repeat([]byte{byte(GI(e["fill"]))}, GI(e["n"]))...), GB(e["suf"])...)
		}
		keep := append([]byte(nil), s...)
		var rd packet.PeekScanner
		var rest io.Reader
		switch GS(e["reader"]) {
		case "bufio16":
			b := bufio.NewReaderSize(bytes.NewReader(s), 16)
			rd, rest = b, b
		case "bufio4096":
			b := bufio.NewReaderSize(bytes.NewReader(s), 4096)
			rd, rest = b, b
		case "bufio188":
			b := bufio.NewReaderSize(bytes.NewReader(s), 188)
			rd, rest = b, b
		case "bufio512":
			b := bufio.NewReaderSize(iotest.HalfReader(bytes.NewReader(s)), 512)
			rd, rest = b, b
		case "bufio16-onebyte":
			b := bufio.NewReaderSize(iotest.OneByteReader(bytes.NewReader(s)), 16)
			rd, rest = b, b
		default:
			var n int
			if _, err := fmt.Sscanf(GS(e["reader"]), "bufio:%d", &n); err == nil && n > 0 {
				b := bufio.NewReaderSize(bytes.NewReader(s), n)
				rd, rest = b, b
				break
			}
			sp := &slicePeeker{b: s}
			rd, rest = sp, sp
		}
		e["skipn"] = GI0(e["skipn"])
		if k := GI0(e["skipn"]); k > 0 && GS(e["op"]) == "sync" {
			// the caller consumed the first k bytes before it handed the reader over: offsets count from where it stands
			io.CopyN(io.Discard, rest, int64(k))
		}
		if GS(e["op"]) == "issynced" {
			e["panic"] = guard(func() {
				ok, err := packet.IsSynced(rd)
				e["ok"], e["err"] = ok, "nil"
				if err != nil {
					e["err"] = "other"
				}
				left, _ := io.ReadAll(rest)
				e["rest"] = B(left)
				e["input_same"] = bytes.Equal(s, keep)
			})
			continue
		}
		e["panic"] = guard(func() {
			off, err := packet.Sync(rd)
			e["off"] = int(off)
			switch err {
			case nil:
				e["err"] = "nil"
			case gots.ErrSyncByteNotFound:
				e["err"] = "notfound"
			default:
				e["err"] = "other"
			}
			// a reader that Sync left on a header is synced: asking again must answer 0 and not move it
			e["again_off"], e["again_err"] = 0, "nil"
			if err == nil {
				off2, err2 := packet.Sync(rd)
				e["again_off"] = int(off2)
				if err2 != nil {
					e["again_err"] = "err"
				}
			}
			left, _ := io.ReadAll(rest)
			if len(left) > 1<<16 {
				left = left[:1<<16] // (a search that stopped inside a long gap: enough to show it)
			}
			e["rest"] = B(left)
			e["input_same"] = bytes.Equal(s, keep)
		})
	}
	return h
}

func (c16) Class(e Ev) string {
	if GS(e["op"]) == "issynced" {
		return fmt.Sprintf("issynced/%v/%s", GBool(e["ok"]), GS(e["err"]))
	}
	if GS(e["op"]) == "syncgap" {
		return fmt.Sprintf("syncgap/%s/%s/n>=2^%d", GS(e["reader"]), GS(e["err"]), bits.Len(uint(GI(e["n"])))-1)
	}
	s := GB(e["stream"])
	nsync := bytes.Count(s, []byte{0x47})
	if nsync > 3 {
		nsync = 3
	}
	lb := len(s)
	if lb > 8 {
		lb = 9
	}
	rd := GS(e["reader"])
	if strings.HasPrefix(rd, "bufio:") {
		rd = "bufio:N"
	}
	return fmt.Sprintf("sync/%s/%s/syncbytes%d/len%d", rd, GS(e["err"]), nsync, lb)
}
