package main

import (
	"fmt"
	"math/rand"

	"github.com/Comcast/gots/v2/packet"
)

// X02: SetAdaptationFieldControl (spec growth beyond the listed properties).
type x02 struct{}

func init() { register("X02", x02{}) }

func (x02) Gen(tier string, seed int64, emit func([]Ev)) {
	r := rand.New(rand.NewSource(seed))
	per := 1
	if tier == "thorough" {
		per = 8
	}
	c02Packets(r, per, func(p packet.Packet, kind string) {
		for v := 1; v <= 3; v++ {
			emit([]Ev{{"op": "setafc", "before": B(p[:]), "v": v, "kind": kind}})
		}
	})
	// more packets that gain an adaptation field (payload-only, arbitrary payload bytes)
	for k := 0; k < 12*per; k++ {
		var p packet.Packet
		r.Read(p[:])
		p[0], p[3] = 0x47, p[3]&0x0f|0x10
		for v := 2; v <= 3; v++ {
			emit([]Ev{{"op": "setafc", "before": B(p[:]), "v": v, "kind": "payload-only"}})
		}
	}
	emit([]Ev{{"op": "newaf", "v": 2, "kind": "new"}})
	// adaptation fields of length 183 that are completely full (cannot shrink)
	for k := 0; k < 20*per; k++ {
		a := absAF{Len: 183, HasTPD: true, TPD: rndBytes(r, 181)}
		if k%2 == 0 {
			a = absAF{Len: 183, HasPCR: true, PCR: rndBytes(r, 6), HasAFE: true, AFE: rndBytes(r, 175)}
		}
		p := pktWithAF(r, a, false)
		for v := 1; v <= 3; v++ {
			emit([]Ev{{"op": "setafc", "before": B(p[:]), "v": v, "kind": "af-full"}})
		}
	}
}

func (x02) Exec(h []Ev) []Ev {
	for _, e := range h {
		e["err"] = "nil"
		if GS(e["op"]) == "newaf" {
			// NewAdaptationField() = New() with the control bits set to "adaptation field only"
			e["panic"] = guard(func() {
				e["before"] = B(packet.New()[:])
				af := packet.NewAdaptationField()
				e["after"] = B(af[:])
			})
			continue
		}
		e["panic"] = guard(func() {
			var p packet.Packet
			copy(p[:], GB(e["before"]))
			if err := p.SetAdaptationFieldControl(packet.AdaptationFieldControlOptions(GI(e["v"]))); err != nil {
				e["err"] = "err"
			}
			e["after"] = B(p[:])
		})
	}
	return h
}

func (x02) Class(e Ev) string {
	if GS(e["op"]) == "newaf" {
		return "newaf"
	}
	b := GB(e["before"])
	return fmt.Sprintf("setafc/%s/from%d/to%d/%s", GS(e["kind"]), b[3]>>4&3, GI(e["v"]), GS(e["err"]))
}
