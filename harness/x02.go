package main

import (
	"fmt"
	"math/rand"

	"github.com/Comcast/gots/v2/packet"
)

// X02: SetAdaptationFieldControl (spec growth beyond the listed properties).
type x02 struct{}

func init() { register("X02", x02{}) }

func (x02) Gen(tier string, seed int64, emit func([]Ev)) {
	r := rand.New(rand.NewSource(seed))
	per := 1
	if tier == "thorough" {
		per = 8
	}
	c02Packets(r, per, func(p packet.Packet, kind string) {
		for v := 1; v <= 3; v++ {
			emit([]Ev{{"op": "setafc", "before": B(p[:]), "v": v, "kind": kind}})
		}
	})
	// more packets that gain an adaptation field (payload-only, arbitrary payload bytes)
	for k := 0; k < 12*per; k++ {
		var p packet.Packet
		r.Read(p[:])
		p[0], p[3] = 0x47, p[3]&0x0f|0x10
		for v := 2; v <= 3; v++ {
			emit([]Ev{{"op": "setafc", "before": B(p[:]), "v": v, "kind": "payload-only"}})
		}
	}
	emit([]Ev{{"op": "newaf", "v": 2, "kind": "new"}})
	// Create(pid, options...) with every option helper of create.go, in any order and number (TsPacket / Create!ExpectCreate)
	kinds := []string{"pay", "af", "priv", "pusi", "cont", "disc", "pes"}
	for k := 0; k < 60*per; k++ {
		opts := []Ev{}
		for n := r.Intn(6); n > 0; n-- {
			o := Ev{"k": kinds[r.Intn(len(kinds))], "pts": W64(0)}
			if k%3 == 0 && n%2 == 0 {
				o["k"] = "pes" // several PES starts and flags around them
			}
			if GS(o["k"]) == "pes" {
				v := uint64(r.Int63n(1 << 33))
				switch r.Intn(4) {
				case 0:
					v = 1<<33 - 1
				case 1:
					v = uint64(1) << uint(r.Intn(33))
				}
				o["pts"] = W64(v)
			}
			opts = append(opts, o)
		}
		pid := r.Intn(8192)
		if k%7 == 0 {
			pid = []int{0, 8191, 256, 255, 4096}[k/7%5]
		}
		emit([]Ev{{"op": "createseq", "pid": pid, "opts": opts, "kind": "create"}})
	}
	// the convenience constructors = their documented compositions of Create and SetCC (Create!ExpectCreateFn)
	for k := 0; k < 48*per; k++ {
		kind := []string{"CreateTestPacket", "CreateDCPacket", "CreatePacketWithPayload"}[k%3]
		d := rndBytes(r, []int{0, 1, 17, 183, 184, 185, 300}[r.Intn(7)])
		if kind != "CreatePacketWithPayload" {
			d = []byte{}
		}
		emit([]Ev{{"op": "createfn", "kind": kind, "pid": r.Intn(8192), "cc": k / 3 % 16, "pusi": k/3%2 == 1, "haspay": k/6%2 == 1, "d": B(d)}})
	}
	// adaptation fields of length 183 that are completely full (cannot shrink)
	for k := 0; k < 20*per; k++ {
		a := absAF{Len: 183, HasTPD: true, TPD: rndBytes(r, 181)}
		if k%2 == 0 {
			a = absAF{Len: 183, HasPCR: true, PCR: rndBytes(r, 6), HasAFE: true, AFE: rndBytes(r, 175)}
		}
		p := pktWithAF(r, a, false)
		for v := 1; v <= 3; v++ {
			emit([]Ev{{"op": "setafc", "before": B(p[:]), "v": v, "kind": "af-full"}})
		}
	}
}

func (x02) Exec(h []Ev) []Ev {
	for _, e := range h {
		e["err"] = "nil"
		if GS(e["op"]) == "newaf" {
			// NewAdaptationField() = New() with the control bits set to "adaptation field only"
			e["panic"] = guard(func() {
				e["before"] = B(packet.New()[:])
				af := packet.NewAdaptationField()
				e["after"] = B(af[:])
			})
			continue
		}
		if GS(e["op"]) == "createfn" {
			e["panic"] = guard(func() {
				var p *packet.Packet
				pid, cc := GI(e["pid"]), uint8(GI(e["cc"]))
				switch GS(e["kind"]) {
				case "CreateTestPacket":
					p = packet.CreateTestPacket(pid, cc, GBool(e["pusi"]), GBool(e["haspay"]))
				case "CreateDCPacket":
					p = packet.CreateDCPacket(pid, cc)
				default:
					p = packet.CreatePacketWithPayload(pid, cc, GB(e["d"]))
				}
				e["after"] = B(p[:])
			})
			continue
		}
		if GS(e["op"]) == "createseq" {
			e["panic"] = guard(func() {
				var fs []func(*packet.Packet)
				for _, om := range x02Opts(e["opts"]) {
					switch GS(om["k"]) {
					case "pay":
						fs = append(fs, packet.WithHasPayloadFlag)
					case "af":
						fs = append(fs, packet.WithHasAdaptationFieldFlag)
					case "priv":
						fs = append(fs, packet.WithAFPrivateDataFlag)
					case "pusi":
						fs = append(fs, packet.WithPUSI)
					case "cont":
						fs = append(fs, packet.WithContinuousAF)
					case "disc":
						fs = append(fs, packet.WithDiscontinuousAF)
					case "pes":
						pts := UW64(om["pts"])
						fs = append(fs, func(p *packet.Packet) { packet.WithPES(p, pts) })
					default:
						panic("harness: unknown option")
					}
				}
				p := packet.Create(GI(e["pid"]), fs...)
				e["after"] = B(p[:])
			})
			continue
		}
		e["panic"] = guard(func() {
			var p packet.Packet
			copy(p[:], GB(e["before"]))
			if err := p.SetAdaptationFieldControl(packet.AdaptationFieldControlOptions(GI(e["v"]))); err != nil {
				e["err"] = "err"
			}
			e["after"] = B(p[:])
		})
	}
	return h
}

func (x02) Class(e Ev) string {
	if GS(e["op"]) == "newaf" {
		return "newaf"
	}
	if GS(e["op"]) == "createfn" {
		return fmt.Sprintf("createfn/%s/pusi%v/pay%v/len%d", GS(e["kind"]), GBool(e["pusi"]), GBool(e["haspay"]), len(GB(e["d"])))
	}
	if GS(e["op"]) == "createseq" {
		c := "create"
		for _, om := range x02Opts(e["opts"]) {
			c += "/" + GS(om["k"])
		}
		return c
	}
	b := GB(e["before"])
	return fmt.Sprintf("setafc/%s/from%d/to%d/%s", GS(e["kind"]), b[3]>>4&3, GI(e["v"]), GS(e["err"]))
}

// x02Opts reads the option list of a createseq event (as generated, or as read back from JSON).
func x02Opts(v interface{}) []Ev {
	switch l := v.(type) {
	case []Ev:
		return l
	case []interface{}:
		r := []Ev{}
		for _, o := range l {
			switch m := o.(type) {
			case Ev:
				r = append(r, m)
			case map[string]interface{}:
				r = append(r, Ev(m))
			}
		}
		return r
	}
	return nil
}
