package main

import (
	"fmt"
	"math/rand"
	"reflect"

	"github.com/Comcast/gots/v2/packet"
)

// C02: header/payload partition, SetPayload, creation helpers.
type c02 struct{}

func init() { register("C02", c02{}) }

// c02Packets yields well-formed packets: payload only, AF-only, AF of every length
// 0..182 with payload and every combination of optional fields that fits.
func c02Packets(r *rand.Rand, perLen int, emit func(p packet.Packet, kind string)) {
	// payload only
	for k := 0; k < perLen; k++ {
		var p packet.Packet
		r.Read(p[:])
		p[0], p[3] = 0x47, p[3]&0x0f|0x10
		emit(p, "payload-only")
	}
	// payload-only packets whose payload starts with bytes that mean something where an adaptation field would be
	// (0x00 = "length 0", 183/184 = "fills the packet", 0xFF)
	for _, b4 := range []byte{0x00, 0x01, 183, 184, 0xff} {
		for _, b5 := range []byte{0x00, 0xff, 0x02} {
			var p packet.Packet
			r.Read(p[:])
			p[0], p[3], p[4], p[5] = 0x47, p[3]&0x0f|0x10, b4, b5
			emit(p, "payload-only")
		}
	}
	// adaptation fields filled exactly by their optional fields (capacity for payload = what is left, 0 at 183)
	for _, ln := range []int{183, 183, 182, 100, 20, 4} {
		for v := 0; v < 4; v++ {
			emit(pktWithAF(r, fullAF(r, ln, v), true), "af+payload")
		}
	}
	for ln := 0; ln <= 183; ln++ {
		for k := 0; k < perLen; k++ {
			hasPay := ln <= 182
			if ln == 183 && k%2 == 1 {
				hasPay = true // degenerate: AFC 11, adaptation field fills the packet, empty payload
			}
			blank := k == 0 || (ln == 183 && k == 1) // no optional fields: the field is all stuffing
			var p packet.Packet
			if ln == 0 {
				r.Read(p[:])
				p[0], p[3], p[4] = 0x47, p[3]&0x0f|0x30, 0
			} else {
				a := randAF(r, ln)
				if blank {
					a = absAF{Len: ln}
				}
				p = pktWithAF(r, a, hasPay)
			}
			kind := "af+payload"
			if !hasPay {
				kind = "af-only"
			}
			emit(p, kind)
		}
	}
}

func (c02) Gen(tier string, seed int64, emit func([]Ev)) {
	r := rand.New(rand.NewSource(seed))
	perLen := 2
	if tier == "thorough" {
		perLen = 60
	}
	n := 0
	c02Packets(r, perLen, func(p packet.Packet, kind string) {
		n++
		emit([]Ev{{"op": "parts", "pkt": B(p[:]), "kind": kind}})
		// payload lengths 0..200: a few per packet, every length covered across packets
		lens := []int{(n * 7) % 201, r.Intn(201), []int{0, 1, 182, 183, 184, 185, 200}[r.Intn(7)]}
		// around this packet's capacity
		hl := 4
		if p[3]&0x20 != 0 {
			hl = 5 + int(p[4])
		}
		room := 188 - hl
		for _, d := range []int{-1, 0, 1} {
			if room+d >= 0 && room+d <= 200 {
				lens = append(lens, room+d)
			}
		}
		for _, ln := range lens {
			d := make([]byte, ln)
			r.Read(d)
			for i := range d { // payload bytes never 0xFF so stuffing is distinguishable
				if d[i] == 0xff {
					d[i] = 0xab
				}
			}
			emit([]Ev{{"op": "setpayload", "before": B(p[:]), "data": B(d), "kind": kind, "chain": false}})
		}
		// SetPayload applied repeatedly to the same packet: each result is again a well-formed packet
		if kind != "af-only" && (n%2 == 0 || room == 0) {
			var h []Ev
			for k := 2 + r.Intn(3); k > 0; k-- {
				ln := []int{0, 0, 1, r.Intn(201), r.Intn(185), 184, 183}[r.Intn(7)]
				d := make([]byte, ln)
				r.Read(d)
				for i := range d {
					if d[i] == 0xff {
						d[i] = 0xab
					}
				}
				ev := Ev{"op": "setpayload", "data": B(d), "kind": kind, "chain": len(h) > 0}
				if len(h) == 0 {
					ev["before"] = B(p[:])
				}
				h = append(h, ev)
			}
			emit(h)
		}
		if n%3 == 0 {
			d := make([]byte, r.Intn(201))
			r.Read(d)
			emit([]Ev{{"op": "setpayload_fn", "before": B(p[:]), "data": B(d), "kind": kind}})
		}
	})
	// creation helpers
	for i := 0; i < 60*perLen; i++ {
		pid := []int{0, 1, 0x100, 0x1ffe, 0x1fff, r.Intn(8192)}[r.Intn(6)]
		cc := r.Intn(16)
		switch i % 5 {
		case 0:
			emit([]Ev{{"op": "create", "kind": "Create", "pid": pid, "cc": 0, "opts": r.Intn(8)}})
		case 1:
			emit([]Ev{{"op": "create", "kind": "CreateTestPacket", "pid": pid, "cc": cc, "pusi": r.Intn(2) == 0, "haspay": r.Intn(2) == 0}})
		case 2:
			emit([]Ev{{"op": "create", "kind": "CreateDCPacket", "pid": pid, "cc": cc}})
		case 3:
			d := make([]byte, []int{0, 1, 2, 100, 183, 184, 185, 200, r.Intn(201)}[r.Intn(9)])
			r.Read(d)
			emit([]Ev{{"op": "create", "kind": "CreatePacketWithPayload", "pid": pid, "cc": cc, "pay": B(d)}})
		case 4:
			emit([]Ev{{"op": "create", "kind": "New", "pid": 0x1fff, "cc": 0}})
		}
	}
}

// GenRows (B2): rows are the (packet, data) pairs of the model's structural space (Gen_C02).
func (c02) GenRows(rows []Ev, tier string, seed int64, emit func([]Ev)) {
	for i, row := range rows {
		if tier != "thorough" && i%8 != int(seed)%8 {
			continue // quick: every eighth pair (which ones depends on the seed)
		}
		kind := "af+payload"
		if GB(row["pkt"])[3]&0x20 == 0 {
			kind = "payload-only"
		}
		emit([]Ev{{"op": "setpayload", "before": row["pkt"], "data": row["data"], "kind": kind, "chain": false}})
	}
}

func (c02) Exec(h []Ev) []Ev {
	var prev []byte // the packet as the previous SetPayload of this history left it
	for _, e := range h {
		if ch, _ := e["chain"].(bool); ch {
			if prev == nil {
				e["panic"] = "skipped-after-panic"
				continue
			}
			e["before"] = B(prev)
		}
		prev = nil
		e["opts_list_same"] = true
		e["panic"] = guard(func() {
			switch GS(e["op"]) {
			case "parts":
				var p packet.Packet
				copy(p[:], GB(e["pkt"]))
				keep := p
				e["hdr"] = B(packet.Header(&p))
				pf, err := packet.Payload(&p)
				e["pay_fn"], e["pay_fn_err"] = B(pf), err != nil
				pm, err := p.Payload()
				e["pay_m"], e["pay_m_err"] = B(pm), err != nil
				for i := range pm {
					pm[i] ^= 0xff
				}
				e["m_copy_indep"] = p == keep
				p = keep
				e["pkt_same"] = true
			case "setpayload":
				var p packet.Packet
				copy(p[:], GB(e["before"]))
				d := GB(e["data"])
				if len(d) == 0 && GI0(e["ord"])%2 == 1 {
					d = nil // a payload of zero bytes may be handed over as a nil slice
				}
				dk := append([]byte(nil), d...)
				n, err := p.SetPayload(d)
				e["n"] = n
				e["err"] = "nil"
				if err != nil {
					e["err"] = "err"
				}
				if string(d) != string(dk) {
					panic("data modified")
				}
				e["after"] = B(p[:])
				prev = append([]byte(nil), p[:]...)
				rb, rerr := p.Payload()
				e["readback"], e["readback_err"] = B(rb), rerr != nil
			case "setpayload_fn":
				var p packet.Packet
				copy(p[:], GB(e["before"]))
				if d := GB(e["data"]); len(d) == 0 && GI0(e["ord"])%2 == 1 {
					e["n"] = packet.SetPayload(&p, nil)
				} else {
					e["n"] = packet.SetPayload(&p, d)
				}
				e["after"] = B(p[:])
			case "create":
				pid, cc := GI(e["pid"]), uint8(GI(e["cc"]))
				var p *packet.Packet
				switch GS(e["kind"]) {
				case "Create":
					var opts []func(*packet.Packet)
					o := GI(e["opts"])
					if o&1 != 0 {
						opts = append(opts, packet.WithHasPayloadFlag)
					}
					if o&2 != 0 {
						opts = append(opts, packet.WithPUSI)
					}
					if o&4 != 0 {
						opts = append(opts, packet.WithHasAdaptationFieldFlag)
					}
					// the option list is handed over as a prefix of a longer list (spare capacity behind it, as when a
					// caller keeps one list and uses prefixes of it): the entries behind the prefix must stay as they are
					full := append(append(make([]func(*packet.Packet), 0, len(opts)+3), opts...), packet.WithPUSI, packet.WithHasPayloadFlag, packet.WithHasAdaptationFieldFlag)
					tail := func() string {
						t := ""
						for _, f := range full[len(opts):] {
							t += fmt.Sprint(reflect.ValueOf(f).Pointer(), ";")
						}
						return t
					}
					before := tail()
					p = packet.Create(pid, full[:len(opts)]...)
					e["opts_list_same"] = tail() == before
				case "CreateTestPacket":
					p = packet.CreateTestPacket(pid, cc, GBool(e["pusi"]), GBool(e["haspay"]))
				case "CreateDCPacket":
					p = packet.CreateDCPacket(pid, cc)
				case "CreatePacketWithPayload":
					p = packet.CreatePacketWithPayload(pid, cc, GB(e["pay"]))
				case "New":
					p = packet.New()
				}
				e["pkt"] = B(p[:])
			}
		})
	}
	return h
}

func (c02) Class(e Ev) string {
	switch GS(e["op"]) {
	case "parts":
		return "parts/" + GS(e["kind"])
	case "setpayload":
		b := GB(e["before"])
		hl := 4
		if b[3]&0x20 != 0 {
			hl = 5 + int(b[4])
		}
		room := 188 - hl
		dl := len(GB(e["data"]))
		rel := "shorter"
		if dl == room {
			rel = "exact"
		} else if dl > room {
			rel = "longer"
		}
		afl := "noaf"
		if b[3]&0x20 != 0 {
			afl = fmt.Sprintf("af%d", int(b[4])/32)
		}
		return fmt.Sprintf("setpayload/%s/%s/%s/%s", GS(e["kind"]), afl, rel, GS(e["err"]))
	case "setpayload_fn":
		return "setpayload_fn/" + GS(e["kind"])
	case "create":
		return "create/" + GS(e["kind"])
	}
	return ""
}
