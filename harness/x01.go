package main

import (
	"bufio"
	"bytes"
	"fmt"
	"github.com/Comcast/gots/v2"
	"github.com/Comcast/gots/v2/ebp"
	"github.com/Comcast/gots/v2/packet/adaptationfield"
	"io"
	"math/rand"

	"github.com/Comcast/gots/v2/packet"
	"github.com/Comcast/gots/v2/psi"
	"github.com/Comcast/gots/v2/scte35"
)

// X01: the Demux composition (spec growth beyond the listed properties): the
// library's readers applied in the order of cli/parsefile.go to one multiplex.
type x01 struct{}

func init() { register("X01", x01{}) }

func (x01) Gen(tier string, seed int64, emit func([]Ev)) {
	r := rand.New(rand.NewSource(seed))
	n := 60
	if tier == "thorough" {
		n = 1500
	}
	for i := 0; i < n; i++ {
		pmtPid := 0x30 + r.Intn(0x1000)
		sctePid := 0x1100 + r.Intn(0x100)
		pat := absPAT{Tsid: r.Intn(65536), Version: r.Intn(32), CNI: true, Entries: [][2]int{{1 + r.Intn(65535), pmtPid}}}
		pmt := randPMT(r, 1+r.Intn(5), false)
		// make one stream the SCTE-35 stream; keep foreign PIDs away from the PMT / SCTE PIDs
		pmt.Streams = append(pmt.Streams, absStream{Type: 0x86, Pid: sctePid})
		clean := func(p *packet.Packet) {
			for {
				pid := int(p[1]&0x1f)<<8 | int(p[2])
				if pid != 0 && pid != pmtPid && pid != sctePid {
					return
				}
				p[2] ^= 0x55
				p[1] ^= 0x01
			}
		}
		var st []byte
		// leading garbage without a plausible header: no 0x47 at all
		for k := r.Intn(40); k > 0; k-- {
			b := byte(r.Intn(256))
			if b == 0x47 {
				b = 0x48
			}
			st = append(st, b)
		}
		other := func(k int) {
			for ; k > 0; k-- {
				o := plainOther(r)
				clean(&o)
				st = append(st, o[:]...)
			}
		}
		other(r.Intn(3))
		// sometimes a stale PMT carriage BEFORE the PAT: ReadPMT must not see it (the reader has moved on)
		if r.Intn(3) == 0 {
			stale := randPMT(r, 1+r.Intn(3), false)
			pl := c06Payload(0, nil, pmtSection(stale), 0)
			for _, p := range packetise(r, pl, splitSizes(len(pl), minInt(len(pl), 184)), pmtPid, true) {
				st = append(st, p[:]...)
			}
		}
		variant := "full"
		switch i % 6 {
		case 3:
			variant = "nopat"
		case 4:
			variant = "nopmt"
		case 5:
			variant = "cutpmt"
		}
		pp := patPacket(r, append([]byte{0}, patSection(pat)...), i%2 == 0)
		if variant != "nopat" {
			st = append(st, pp[:]...)
		}
		other(r.Intn(3))
		// sometimes the tail of an earlier PMT unit (no PUSI) right after the PAT: must be skipped
		if r.Intn(3) == 0 {
			tail := packetise(r, bytes.Repeat([]byte{0xff}, 30), []int{30}, pmtPid, true)
			tail[0][1] &^= 0x40
			st = append(st, tail[0][:]...)
		}
		pl := c06Payload(0, nil, pmtSection(pmt), 0)
		first := minInt(len(pl), 1+r.Intn(184))
		if variant == "cutpmt" && len(pl) > 1 {
			first = minInt(len(pl)-1, 1+r.Intn(100)) // at least two packets: the last one will be missing
		}
		carriage := packetise(r, pl, splitSizes(len(pl), first), pmtPid, i%3 == 0)
		switch variant {
		case "nopmt":
			carriage = nil
		case "cutpmt":
			carriage = carriage[:len(carriage)-1]
		}
		for _, p := range carriage {
			st = append(st, p[:]...)
			if r.Intn(3) == 0 {
				other(1)
			}
		}
		// SCTE-35 sections on the SCTE PID, one per packet
		scte := []Ev{}
		for k := r.Intn(4); k > 0; k-- {
			s := rndSig(r)
			for !(s.Cmd.Kind == "null" || s.Cmd.Kind == "time" || s.Cmd.Kind == "insert") || len(s.section()) > 180 {
				s = rndSig(r)
			}
			sec := s.section()
			for _, p := range packetise(r, append([]byte{0}, sec...), []int{1 + len(sec)}, sctePid, true) {
				st = append(st, p[:]...)
			}
			scte = append(scte, Ev{"section": B(sec)})
			other(r.Intn(2))
		}
		if r.Intn(4) == 0 {
			st = append(st, rndBytes(r, r.Intn(188))...) // partial tail
		}
		emit([]Ev{{"op": "demux", "variant": variant, "stream": B(st), "pat": patEv(pat), "pmt": absPMTEv(pmt), "scte_pid": sctePid, "scte": scte}})
		if i%3 == 0 {
			emit([]Ev{{"op": "ebpscan", "packets": pktsEv(x01EBPPackets(r, 6+r.Intn(10)))}})
		}
	}
}

// x01EBPPackets: packets of an elementary stream, some carrying an encoder boundary point in the
// transport private data of their adaptation field, some tempting the extractor (no adaptation field but
// the private-data bit pattern in byte 5, adaptation field of length 0, other optional fields in front).
func x01EBPPackets(r *rand.Rand, n int) []packet.Packet {
	var out []packet.Packet
	for i := 0; i < n; i++ {
		var p packet.Packet
		switch r.Intn(6) {
		case 0: // payload only; byte 5 is payload and may look like "has private data"
			r.Read(p[:])
			p[0], p[3] = 0x47, p[3]&0x0f|0x10
			p[5] |= 0x02
		case 1: // adaptation field of length 0
			r.Read(p[:])
			p[0], p[3], p[4] = 0x47, p[3]&0x0f|0x30, 0
			p[5] |= 0x02
		case 2: // adaptation field without private data
			a := randAF(r, 20+r.Intn(100))
			a.HasTPD, a.TPD = false, nil
			for a.content() > a.Len {
				a.HasAFE, a.AFE = false, nil
				a.Len++
			}
			p = pktWithAF(r, a, true)
		default: // an EBP (either flavour) behind any combination of PCR / OPCR / splice countdown
			eb := c12Bytes(r, r.Intn(2) == 0)
			a := absAF{Rai: r.Intn(2) == 0, HasPCR: r.Intn(2) == 0, PCR: rndBytes(r, 6), HasOPCR: r.Intn(3) == 0, OPCR: rndBytes(r, 6),
				HasSpl: r.Intn(3) == 0, Splice: byte(r.Intn(256)), HasTPD: true, TPD: eb}
			a.Len = a.content() + r.Intn(10)
			if a.Len > 183 {
				continue
			}
			p = pktWithAF(r, a, a.Len < 183)
		}
		out = append(out, p)
	}
	return out
}

func (x01) Exec(h []Ev) []Ev {
	for _, e := range h {
		if GS(e["op"]) == "ebpscan" {
			res := []Ev{}
			e["panic"] = guard(func() {
				for _, p := range evPkts(e["packets"]) {
					b, err := adaptationfield.EncoderBoundaryPoint(p)
					m := Ev{"err": "nil", "bytes": B(b), "err2": false, "redata": []int{}}
					switch err {
					case nil:
						x, err2 := ebp.ReadEncoderBoundaryPoint(b)
						m["err2"] = err2 != nil
						if err2 == nil {
							m["redata"] = B(x.Data())
						}
					case gots.ErrNoEBP:
						m["err"], m["bytes"] = "noebp", []int{}
					default:
						m["err"], m["bytes"] = "other", []int{}
					}
					res = append(res, m)
				}
			})
			e["res"] = res
			continue
		}
		e["sync_off"], e["sync_err"], e["pat_err"], e["pmt_err"], e["rest_len"] = 0, "nil", "nil", "nil", 0
		e["nump"], e["spts_ok"], e["spts"], e["streams"], e["pids"] = 0, false, 0, []Ev{}, []int{}
		e["panic"] = guard(func() {
			st := GB(e["stream"])
			rd := bufio.NewReader(bytes.NewReader(st))
			off, err := packet.Sync(rd)
			e["sync_off"] = int(off)
			if err != nil {
				e["sync_err"] = "err"
				return
			}
			// the readers get a plain io.Reader (not the *bufio.Reader Sync needed): what they consume is then visible
			plain := struct{ io.Reader }{rd}
			pat, err := psi.ReadPAT(plain)
			if err != nil {
				e["pat_err"] = "err"
				if err == gots.ErrPATNotFound {
					e["pat_err"] = "notfound"
				}
				return
			}
			e["nump"] = pat.NumPrograms()
			pid, serr := pat.SPTSpmtPID()
			e["spts_ok"], e["spts"] = serr == nil, pid
			if serr != nil {
				return
			}
			pmt, err := psi.ReadPMT(plain, pid)
			if err != nil {
				e["pmt_err"] = "err"
				if err == gots.ErrPMTNotFound {
					e["pmt_err"] = "notfound"
				}
				return
			}
			left, _ := io.ReadAll(plain)
			e["rest_len"] = len(left) // what the readers left unread: everything behind the packet that completed the PMT
			tmp := Ev{}
			c06Observe(tmp, pmt, nil)
			e["streams"], e["pids"] = tmp["streams"], tmp["pids"]
			// every packet after the sync point on the SCTE PID
			scte := toList(e["scte"])
			k := 0
			sp := GI(e["scte_pid"])
			for i := int(off); i+188 <= len(st); i += 188 {
				var p packet.Packet
				copy(p[:], st[i:i+188])
				if p.PID() != sp || k >= len(scte) {
					continue
				}
				m := asMap(scte[k])
				k++
				pay, perr := packet.Payload(&p)
				if perr != nil {
					m["err"], m["redata"] = "payload", []int{}
					continue
				}
				s, derr := scte35.NewSCTE35(pay)
				m["err"], m["redata"] = c08Err(derr), []int{}
				if derr == nil {
					// Data() is the section including any trailing stuffing of the payload: cut at section_length
					d := s.Data()
					if len(d) >= 3 {
						sl := int(d[1]&0x0f)<<8 | int(d[2])
						if 3+sl <= len(d) {
							d = d[:3+sl]
						}
					}
					m["redata"] = B(d)
				}
			}
			for ; k < len(scte); k++ {
				m := asMap(scte[k])
				m["err"], m["redata"] = "missing", []int{}
			}
		})
		for _, x := range toList(e["scte"]) {
			m := asMap(x)
			if _, ok := m["err"]; !ok {
				m["err"], m["redata"] = "notrun", []int{}
			}
		}
	}
	return h
}

func (x01) Class(e Ev) string {
	return fmt.Sprintf("demux/scte%d/%s%s%s", len(toList(e["scte"])), GS(e["sync_err"]), GS(e["pat_err"]), GS(e["pmt_err"]))
}
