package main

import (
	gots "github.com/Comcast/gots/v2"
)

// Abstract PMT used by the generators of C06, C14 and C20.  The bytes built here
// are *inputs*; where a property depends on them being the ISO serialisation of
// the abstract value, the trace carries both and TLC checks bytes = Ser(abs).
type absDescr struct {
	Tag  int
	Body []byte
}
type absStream struct {
	Type  int
	Pid   int
	Descs []absDescr
}
type absPMT struct {
	Program   int
	Version   int
	CNI       bool
	PcrPid    int
	ProgDescs []absDescr
	Streams   []absStream
}

func descBytes(ds []absDescr) []byte {
	var b []byte
	for _, d := range ds {
		b = append(b, byte(d.Tag), byte(len(d.Body)))
		b = append(b, d.Body...)
	}
	return b
}

// pmtSection serialises a TS_program_map_section (ISO/IEC 13818-1 Table 2-33).
// The CRC is computed by an independent table-free implementation below, not by the library.
func pmtSection(p absPMT) []byte {
	pd := descBytes(p.ProgDescs)
	var body []byte
	body = append(body, byte(p.Program>>8), byte(p.Program))
	v := byte(0xC0) | byte(p.Version&0x1f)<<1
	if p.CNI {
		v |= 1
	}
	body = append(body, v, 0, 0)
	body = append(body, 0xE0|byte(p.PcrPid>>8&0x1f), byte(p.PcrPid))
	body = append(body, 0xF0|byte(len(pd)>>8&0x0f), byte(len(pd)))
	body = append(body, pd...)
	for _, s := range p.Streams {
		sd := descBytes(s.Descs)
		body = append(body, byte(s.Type), 0xE0|byte(s.Pid>>8&0x1f), byte(s.Pid), 0xF0|byte(len(sd)>>8&0x0f), byte(len(sd)))
		body = append(body, sd...)
	}
	sl := len(body) + 4
	sec := []byte{0x02, 0xB0 | byte(sl>>8&0x03), byte(sl)}
	sec = append(sec, body...)
	c := crc32mpeg(sec)
	return append(sec, byte(c>>24), byte(c>>16), byte(c>>8), byte(c))
}

// crc32mpeg: straightforward bitwise CRC-32/MPEG-2 (harness-side, for building inputs only).
func crc32mpeg(b []byte) uint32 {
	crc := uint32(0xffffffff)
	for _, x := range b {
		crc ^= uint32(x) << 24
		for i := 0; i < 8; i++ {
			if crc&0x80000000 != 0 {
				crc = crc<<1 ^ 0x04c11db7
			} else {
				crc <<= 1
			}
		}
	}
	return crc
}

var _ = gots.ComputeCRC

func absDescrEv(ds []absDescr) []Ev {
	r := make([]Ev, 0, len(ds))
	for _, d := range ds {
		r = append(r, Ev{"tag": d.Tag, "body": B(d.Body)})
	}
	return r
}

func absPMTEv(p absPMT) Ev {
	ss := make([]Ev, 0, len(p.Streams))
	for _, s := range p.Streams {
		ss = append(ss, Ev{"type": s.Type, "pid": s.Pid, "descs": absDescrEv(s.Descs)})
	}
	return Ev{"program": p.Program, "version": p.Version, "cni": p.CNI, "pcrpid": p.PcrPid,
		"progdescs": absDescrEv(p.ProgDescs), "streams": ss}
}

func evAbsDescr(v interface{}) []absDescr {
	var r []absDescr
	switch t := v.(type) {
	case []Ev:
		for _, d := range t {
			r = append(r, absDescr{GI(d["tag"]), GB(d["body"])})
		}
	case []interface{}:
		for _, x := range t {
			d := asMap(x)
			r = append(r, absDescr{GI(d["tag"]), GB(d["body"])})
		}
	}
	return r
}

func evAbsPMT(v interface{}) absPMT {
	m := asMap(v)
	p := absPMT{Program: GI(m["program"]), Version: GI(m["version"]), CNI: GBool(m["cni"]), PcrPid: GI(m["pcrpid"]),
		ProgDescs: evAbsDescr(m["progdescs"])}
	add := func(x interface{}) {
		s := asMap(x)
		p.Streams = append(p.Streams, absStream{GI(s["type"]), GI(s["pid"]), evAbsDescr(s["descs"])})
	}
	switch t := m["streams"].(type) {
	case []Ev:
		for _, x := range t {
			add(x)
		}
	case []interface{}:
		for _, x := range t {
			add(x)
		}
	}
	return p
}
