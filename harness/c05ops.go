package main

import (
	"bufio"
	"bytes"
	"fmt"
	"io"
	"runtime"
	"testing/iotest"

	gots "github.com/Comcast/gots/v2"
	"github.com/Comcast/gots/v2/ebp"
	"github.com/Comcast/gots/v2/packet"
	"github.com/Comcast/gots/v2/packet/adaptationfield"
	"github.com/Comcast/gots/v2/pes"
	"github.com/Comcast/gots/v2/psi"
	"github.com/Comcast/gots/v2/scte35"
)

// The catalogue of decoding entry points for C05.  Every op takes a byte string
// (a 188-byte array for the packet ops) and returns "value" or "error"; `ro`
// marks read-only operations (the input must be left untouched).  An op also
// exercises every getter / printer / re-encoder of the object it returns.

type c05Op struct {
	name string
	kind string // "packet" | "bytes" | "stream"
	ro   bool
	run  func(in []byte, arg int) (outcome string)
}

func res(err error) string {
	if err != nil {
		return "error"
	}
	return "value"
}

// pk views a 188-byte slice as a packet without copying, so that a write by a read-only
// operation is visible in the caller's buffer; shorter input (stream tails) is copied.
func pk(in []byte) *packet.Packet {
	if len(in) >= packet.PacketSize {
		return (*packet.Packet)(in[:packet.PacketSize])
	}
	var p packet.Packet
	copy(p[:], in)
	return &p
}

func c05UseDescriptor(d psi.PmtDescriptor) {
	_ = d.Tag()
	c05Print(func() { _ = d.Format(); _ = fmt.Sprintf("%v", d) })
	_ = d.IsIso639LanguageDescriptor()
	_ = d.IsMaximumBitrateDescriptor()
	_ = d.IsIFrameProfile()
	_ = d.IsEBPDescriptor()
	_ = d.DecodeMaximumBitRate()
	_ = d.DecodeIso639LanguageCode()
	_ = d.DecodeIso639AudioType()
	_ = d.IsDolbyATMOS()
	_ = d.IsDolbyVision()
	_ = d.DecodeDolbyVisionCodec("hvc1")
	_ = d.IsTTMLSubtitlingDescriptor()
	_ = d.DecodeTTMLIso639LanguageCode()
	_ = d.DecodeTTMLSubtitlePurpose()
	_ = d.IsTTMLDescTagExtension()
}

func c05UsePMT(p psi.PMT) {
	_ = p.Pids()
	_ = p.VersionNumber()
	_ = p.CurrentNextIndicator()
	c05Print(func() { _ = p.String() })
	for _, es := range p.ElementaryStreams() {
		_ = es.StreamType()
		_ = es.StreamTypeDescription()
		_ = es.ElementaryPid()
		_ = es.MaxBitRate()
		_ = es.IsTTMLSubtitling()
		c05Print(func() { _ = fmt.Sprintf("%v", es) })
		_ = p.IsPidForStreamWherePresentationLagsEbp(es.ElementaryPid())
		_ = p.PIDExists(es.ElementaryPid())
		for _, d := range es.Descriptors() {
			c05UseDescriptor(d)
		}
	}
	pids := append([]int(nil), p.Pids()...)
	if len(pids) > 0 {
		p.RemoveElementaryStreams(pids[:1])
	}
}

func c05UseSCTE(s scte35.SCTE35) {
	_ = s.HasPTS()
	_ = s.PTS()
	_ = s.Tier()
	_ = s.Command()
	_ = s.AlignmentStuffing()
	_ = s.Data()
	c := s.CommandInfo()
	_ = c.CommandType()
	_ = c.HasPTS()
	_ = c.PTS()
	_ = c.Data()
	if ci, ok := c.(scte35.SpliceInsertCommand); ok {
		_ = obsInsert(ci)
	}
	for _, d := range s.Descriptors() {
		_ = obsSeg(d, s)
		_ = d.IsIn()
		_ = d.IsOut()
		_ = d.Data()
		_, _ = d.StreamSwitchSignalId()
		_ = d.SegmentNum()
		for _, o := range s.Descriptors() {
			_ = d.CanClose(o)
			_ = d.Equal(o)
		}
	}
	c05Print(func() { _ = s.String() })
	_ = s.UpdateData()
	st := scte35.NewState()
	for _, d := range s.Descriptors() {
		_, _ = st.ProcessDescriptor(d)
		_ = st.Open()
	}
}

func c05UseEBP(e ebp.EncoderBoundaryPoint) {
	_ = c12Getters(e)
	_ = e.EBPSuccessReadTime()
	_ = e.Data()
	c05Print(func() { _ = fmt.Sprintf("%+v", e) })
}

func c05UsePES(h pes.PESHeader) {
	_ = h.HasPTS()
	_ = h.PTS()
	_ = h.HasDTS()
	_ = h.DTS()
	_ = h.Data()
	_ = h.StreamId()
	_ = h.DataAligned()
	_ = h.PacketStartCodePrefix()
	if f, ok := h.(interface{ Format() string }); ok {
		c05Print(func() { _ = f.Format() })
	}
}

func c05UsePAT(p psi.PAT) {
	_ = p.NumPrograms()
	_ = p.ProgramMap()
	_, _ = p.SPTSpmtPID()
}

// c05PrintBytes: bytes allocated inside printing calls since the worker last reset it. Printing is required not to panic;
// the memory bound of the property is on the entry points themselves, so what String() / Format() allocate (repeated
// string concatenation: 32 MB for a splice_insert of 255 components) is accounted apart.
var c05PrintBytes uint64

func c05Print(f func()) {
	var a, b runtime.MemStats
	runtime.ReadMemStats(&a)
	defer func() {
		runtime.ReadMemStats(&b)
		c05PrintBytes += b.TotalAlloc - a.TotalAlloc
	}()
	f()
}

func c05Reader(in []byte, arg int) packet.PeekScanner {
	switch arg % 3 {
	case 0:
		return bufio.NewReaderSize(bytes.NewReader(in), 16)
	case 1:
		return bufio.NewReaderSize(iotest.OneByteReader(bytes.NewReader(in)), 16)
	}
	return &slicePeeker{b: in}
}

var c05AfSetters = []string{"SetDiscontinuity", "SetRandomAccess", "SetElementaryStreamPriority", "SetHasPCR", "SetHasOPCR",
	"SetHasSplicingPoint", "SetHasTransportPrivateData", "SetHasAdaptationFieldExtension", "SetPCR", "SetOPCR",
	"SetSpliceCountdown", "SetTransportPrivateData", "SetAdaptationFieldExtension"}

var c05Ops = []c05Op{
	// ---- packets ----
	{"packet.accessors", "packet", true, func(in []byte, arg int) string {
		p := pk(in)
		_ = c01Getters(p)
		_, _ = packet.Payload(p)
		_, _ = p.Payload()
		_ = packet.Header(p)
		_, _ = packet.PESHeader(p)
		_, _ = pes.AlignedPUSI(p)
		_ = p.CheckErrors()
		_, err := packet.FromBytes(in)
		return res(err)
	}},
	{"packet.af-getters-method", "packet", true, func(in []byte, arg int) string {
		p := pk(in)
		af, err := p.AdaptationField()
		if err != nil {
			return "error"
		}
		_ = af.Length()
		_, _ = af.Discontinuity()
		_, _ = af.RandomAccess()
		_, _ = af.ElementaryStreamPriority()
		_, _ = af.HasPCR()
		_, _ = af.PCR()
		_, _ = af.HasOPCR()
		_, _ = af.OPCR()
		_, _ = af.HasSplicingPoint()
		_, _ = af.SpliceCountdown()
		_, _ = af.HasTransportPrivateData()
		_, _ = af.TransportPrivateData()
		_, _ = af.HasAdaptationFieldExtension()
		_, _ = af.AdaptationFieldExtension()
		return "value"
	}},
	{"packet.af-getters-function", "packet", true, func(in []byte, arg int) string {
		p := pk(in)
		_ = adaptationfield.Length(p)
		_ = adaptationfield.IsDiscontinuous(p)
		_ = adaptationfield.IsRandomAccess(p)
		_ = adaptationfield.IsESHigherPriority(p)
		_ = adaptationfield.HasPCR(p)
		_ = adaptationfield.HasOPCR(p)
		_ = adaptationfield.HasSplicingPoint(p)
		_ = adaptationfield.HasTransportPrivateData(p)
		_ = adaptationfield.HasAdaptationFieldExtension(p)
		_, _ = adaptationfield.PCR(p)
		_, _ = adaptationfield.OPCR(p)
		_, _ = adaptationfield.SpliceCountdown(p)
		_, _ = adaptationfield.TransportPrivateData(p)
		b, err := adaptationfield.EncoderBoundaryPoint(p)
		if err == nil {
			if e, err2 := ebp.ReadEncoderBoundaryPoint(b); err2 == nil {
				c05UseEBP(e)
			}
		}
		return res(err)
	}},
	{"packet.af-setters", "packet", false, func(in []byte, arg int) string {
		p := pk(in)
		af, err := p.AdaptationField()
		if err != nil {
			return "error"
		}
		data := make([]byte, arg%200)
		switch c05AfSetters[arg%len(c05AfSetters)] {
		case "SetDiscontinuity":
			err = af.SetDiscontinuity(arg%2 == 0)
		case "SetRandomAccess":
			err = af.SetRandomAccess(arg%2 == 0)
		case "SetElementaryStreamPriority":
			err = af.SetElementaryStreamPriority(arg%2 == 0)
		case "SetHasPCR":
			err = af.SetHasPCR(arg%2 == 0)
		case "SetHasOPCR":
			err = af.SetHasOPCR(arg%2 == 0)
		case "SetHasSplicingPoint":
			err = af.SetHasSplicingPoint(arg%2 == 0)
		case "SetHasTransportPrivateData":
			err = af.SetHasTransportPrivateData(arg%2 == 0)
		case "SetHasAdaptationFieldExtension":
			err = af.SetHasAdaptationFieldExtension(arg%2 == 0)
		case "SetPCR":
			err = af.SetPCR(uint64(arg) * 1234567)
		case "SetOPCR":
			err = af.SetOPCR(uint64(arg) * 7654321)
		case "SetSpliceCountdown":
			err = af.SetSpliceCountdown(byte(arg))
		case "SetTransportPrivateData", "SetAdaptationFieldExtension":
			// besides the length derived from arg: exactly the lengths the packet's own (possibly corrupt) length
			// bytes announce, so that "same size as before" paths are taken on ill-formed fields too
			off := 6
			if p[5]&0x10 != 0 {
				off += 6
			}
			if p[5]&0x08 != 0 {
				off += 6
			}
			if p[5]&0x04 != 0 {
				off++
			}
			lens := []int{len(data)}
			if off < 188 {
				lens = append(lens, int(p[off]))
				if p[5]&0x02 != 0 {
					off += 1 + int(p[off])
				}
				if off < 188 {
					lens = append(lens, int(p[off]))
				}
			}
			for _, n := range lens {
				q := *p
				qa, e2 := q.AdaptationField()
				if e2 != nil {
					continue
				}
				if c05AfSetters[arg%len(c05AfSetters)] == "SetTransportPrivateData" {
					err = qa.SetTransportPrivateData(make([]byte, n))
				} else {
					err = qa.SetAdaptationFieldExtension(make([]byte, n))
				}
			}
		}
		return res(err)
	}},
	{"packet.modify", "packet", false, func(in []byte, arg int) string {
		p := pk(in)
		_, err := p.SetPayload(make([]byte, arg%201))
		_ = p.SetAdaptationFieldControl(packet.AdaptationFieldControlOptions(1 + arg%3))
		q := pk(in)
		_ = packet.SetPayload(q, make([]byte, arg%201))
		src := pk(in)
		src[4] = byte(arg)
		if sa, e2 := src.AdaptationField(); e2 == nil {
			_ = pk(in).SetAdaptationField(sa)
		}
		return res(err)
	}},
	// ---- byte strings ----
	{"psi.accessors", "bytes", true, func(in []byte, arg int) string {
		_ = psi.PointerField(in)
		_ = psi.TableID(in)
		_ = psi.SectionSyntaxIndicator(in)
		_ = psi.PrivateIndicator(in)
		_ = psi.SectionLength(in)
		_, err := psi.TableHeaderFromBytes(in)
		return res(err)
	}},
	{"psi.NewPAT", "bytes", true, func(in []byte, arg int) string {
		p, err := psi.NewPAT(in)
		if err == nil {
			c05UsePAT(p)
			_, _ = psi.IsPMT(pk(in), p)
		}
		return res(err)
	}},
	{"psi.NewPMT", "bytes", true, func(in []byte, arg int) string {
		p, err := psi.NewPMT(in)
		if err == nil {
			c05UsePMT(p)
		}
		return res(err)
	}},
	{"psi.PmtAccumulatorDoneFunc", "bytes", true, func(in []byte, arg int) string {
		_, err := psi.PmtAccumulatorDoneFunc(in)
		_, _ = scte35.SCTE35AccumulatorDoneFunc(in)
		return res(err)
	}},
	{"psi.ExtractCRC", "bytes", true, func(in []byte, arg int) string {
		_, err := psi.ExtractCRC(in)
		_ = psi.CanBuildPMT(in, uint16(arg))
		return res(err)
	}},
	{"psi.descriptor", "bytes", true, func(in []byte, arg int) string {
		tag := uint8(arg)
		if len(in) > 0 {
			tag = in[0]
			in = in[1:]
		}
		d := psi.NewPmtDescriptor(tag, in)
		c05UseDescriptor(d)
		es := psi.NewPmtElementaryStream(uint8(arg), arg&0x1fff, []psi.PmtDescriptor{d})
		_ = es.MaxBitRate()
		_ = es.IsTTMLSubtitling()
		c05Print(func() { _ = fmt.Sprintf("%v", es) })
		return "value"
	}},
	{"psi.FilterPMTPacketsToPids", "bytes", true, func(in []byte, arg int) string {
		var pkts []*packet.Packet
		for i := 0; i+188 <= len(in); i += 188 {
			pkts = append(pkts, pk(in[i:i+188]))
		}
		_, err := psi.FilterPMTPacketsToPids(pkts, []int{arg & 0x1fff, 0x101})
		// also ask for streams the table really lists (as far as the library's own parser makes them out),
		// so that the copying of kept streams runs on ill-formed tables too
		var pay []byte
		for _, p := range pkts {
			if b, e2 := packet.Payload(p); e2 == nil {
				pay = append(pay, b...)
			}
		}
		if t, e2 := psi.NewPMT(pay); e2 == nil && t != nil {
			if pids := t.Pids(); len(pids) > 0 {
				_, _ = psi.FilterPMTPacketsToPids(pkts, append([]int(nil), pids...))
				_, _ = psi.FilterPMTPacketsToPids(pkts, []int{pids[len(pids)-1]})
				_, _ = psi.FilterPMTPacketsToPids(pkts, []int{0, pids[0]})
			}
		}
		return res(err)
	}},
	{"pes.NewPESHeader", "bytes", true, func(in []byte, arg int) string {
		h, err := pes.NewPESHeader(in)
		if err == nil && h != nil {
			c05UsePES(h)
		}
		return res(err)
	}},
	{"ebp.ReadEncoderBoundaryPoint", "bytes", true, func(in []byte, arg int) string {
		e, err := ebp.ReadEncoderBoundaryPoint(in)
		if err == nil {
			c05UseEBP(e)
		}
		return res(err)
	}},
	{"scte35.NewSCTE35", "bytes", true, func(in []byte, arg int) string {
		s, err := scte35.NewSCTE35(in)
		if err == nil {
			c05UseSCTE(s)
		}
		return res(err)
	}},
	{"gots.ComputeCRC", "bytes", true, func(in []byte, arg int) string {
		_ = gots.ComputeCRC(in)
		return "value"
	}},
	// ---- streams ----
	{"packet.Sync", "stream", true, func(in []byte, arg int) string {
		_, err := packet.Sync(c05Reader(in, arg))
		return res(err)
	}},
	{"psi.ReadPAT", "stream", true, func(in []byte, arg int) string {
		p, err := psi.ReadPAT(bytes.NewReader(in))
		if err == nil {
			c05UsePAT(p)
		}
		return res(err)
	}},
	{"psi.ReadPMT", "stream", true, func(in []byte, arg int) string {
		pid := arg & 0x1fff
		if len(in) >= 3 {
			pid = int(in[1]&0x1f)<<8 | int(in[2])
		}
		p, err := psi.ReadPMT(bytes.NewReader(in), pid)
		if err == nil {
			c05UsePMT(p)
		}
		return res(err)
	}},
	{"packet.Accumulator", "stream", true, func(in []byte, arg int) string {
		acc := packet.NewAccumulator(psi.PmtAccumulatorDoneFunc)
		var err error
		for i := 0; i+188 <= len(in); i += 188 {
			_, err = acc.WritePacket(pk(in[i : i+188]))
			if len(in) <= 1<<16 || i+376 > len(in) { // Bytes() concatenates everything gathered so far: on long streams only at the end
				_ = acc.Bytes()
				_ = acc.Packets()
			}
		}
		acc.Reset()
		return res(err)
	}},
	{"packet.IOWriter", "stream", true, func(in []byte, arg int) string {
		w := &recWriter{failAt: arg % 4}
		wr, rf := c18Adapter(c18Adapters[arg%len(c18Adapters)], w)
		_, err := wr.Write(in)
		var rd io.Reader = bytes.NewReader(in)
		if arg%2 == 1 {
			rd = iotest.OneByteReader(rd)
		}
		_, err2 := rf.ReadFrom(rd)
		if err == nil {
			err = err2
		}
		return res(err)
	}},
}
