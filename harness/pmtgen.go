package main

import (
	"math/rand"

	"github.com/Comcast/gots/v2/packet"
	"github.com/Comcast/gots/v2/psi"
)

// randPMT draws a PMT with ns streams; descriptor body sizes are boundary-biased.
func randPMT(r *rand.Rand, ns int, big bool) absPMT {
	p := absPMT{Program: 1 + r.Intn(65535), Version: r.Intn(32), CNI: r.Intn(2) == 0, PcrPid: r.Intn(8192)}
	if r.Intn(4) == 0 {
		p.Version = []int{0, 31}[r.Intn(2)]
	}
	desc := func(max int) absDescr {
		n := r.Intn(6)
		switch r.Intn(8) {
		case 0:
			n = 0
		case 1:
			if big {
				n = max
			}
		}
		if n > max {
			n = max
		}
		b := make([]byte, n)
		r.Read(b)
		return absDescr{Tag: []int{5, 10, 14, 82, 127, 176, 233, r.Intn(256)}[r.Intn(8)], Body: b}
	}
	for k := r.Intn(3); k > 0; k-- {
		p.ProgDescs = append(p.ProgDescs, desc(40))
	}
	used := map[int]bool{}
	for i := 0; i < ns; i++ {
		pid := 0x20 + r.Intn(0x1fd0)
		for used[pid] {
			pid = 0x20 + r.Intn(0x1fd0)
		}
		used[pid] = true
		s := absStream{Type: []int{0x02, 0x0f, 0x1b, 0x24, 0x81, 0x86, 0x87, 0x15, 0x06, r.Intn(256)}[r.Intn(10)], Pid: pid}
		for k := r.Intn(4); k > 0; k-- {
			mx := 12
			if big && r.Intn(6) == 0 {
				mx = 255
			}
			s.Descs = append(s.Descs, desc(mx))
		}
		p.Streams = append(p.Streams, s)
	}
	// respect the 1021 limit on section_length
	for len(pmtSection(p))-3 > 1021 {
		if len(p.Streams) > 0 {
			p.Streams = p.Streams[:len(p.Streams)-1]
		} else {
			p.ProgDescs = nil
		}
	}
	return p
}

// limitPMT builds a PMT whose section_length is exactly target (<= 1021): kind 0 many streams,
// kind 1 one stream with a very long descriptor loop, kind 2 a very long program descriptor loop.
func limitPMT(r *rand.Rand, kind, target int) absPMT {
	p := absPMT{Program: 1 + r.Intn(65535), Version: r.Intn(32), CNI: true, PcrPid: r.Intn(8192)}
	body := func(n int) absDescr {
		b := make([]byte, n)
		r.Read(b)
		return absDescr{Tag: []int{5, 10, 14, 82, 127, 176}[r.Intn(6)], Body: b}
	}
	room := func() int { return target - (len(pmtSection(p)) - 3) }
	switch kind {
	case 0:
		used := map[int]bool{}
		for room() >= 5 {
			pid := 0x20 + r.Intn(0x1fd0)
			if used[pid] {
				continue
			}
			used[pid] = true
			s := absStream{Type: []int{0x02, 0x0f, 0x1b, 0x81, 0x86}[r.Intn(5)], Pid: pid}
			if n := room() - 5; n >= 2 && r.Intn(2) == 0 {
				if n > 40 {
					n = 2 + r.Intn(39)
				}
				s.Descs = append(s.Descs, body(n-2))
			}
			p.Streams = append(p.Streams, s)
		}
	case 1:
		s := absStream{Type: 0x1b, Pid: 0x100 + r.Intn(0x1000)}
		p.Streams = append(p.Streams, s)
		for room() >= 2 {
			n := room() - 2
			if n > 255 {
				n = 255
			}
			if room()-2-n == 1 { // never leave a single byte: a descriptor needs two
				n--
			}
			p.Streams[0].Descs = append(p.Streams[0].Descs, body(n))
		}
	default:
		p.Streams = append(p.Streams, absStream{Type: 0x0f, Pid: 0x100 + r.Intn(0x1000)})
		for room() >= 2 {
			n := room() - 2
			if n > 255 {
				n = 255
			}
			if room()-2-n == 1 {
				n--
			}
			p.ProgDescs = append(p.ProgDescs, body(n))
		}
	}
	// kind 0 can be left a few bytes short: lengthen the last descriptor / add one
	for k := 0; room() > 0 && k < 10; k++ {
		last := &p.Streams[len(p.Streams)-1]
		if len(last.Descs) > 0 && len(last.Descs[len(last.Descs)-1].Body)+room() <= 255 {
			d := &last.Descs[len(last.Descs)-1]
			d.Body = append(d.Body, make([]byte, room())...)
		} else if room() >= 2 {
			last.Descs = append(last.Descs, body(room()-2))
		} else {
			break
		}
	}
	return p
}

// packetise carries payload in packets of pid: fragment sizes frags (each 1..184, summing to
// len(payload)); a fragment shorter than 184 is carried behind adaptation-field stuffing, except
// that with fillLast the last one is carried payload-only and padded with 0xFF.
func packetise(r *rand.Rand, payload []byte, frags []int, pid int, fillLast bool) []packet.Packet {
	var out []packet.Packet
	off := 0
	cc := r.Intn(16)
	for i, n := range frags {
		var p packet.Packet
		for k := range p {
			p[k] = 0xff
		}
		p[0] = 0x47
		p[1] = byte(pid >> 8 & 0x1f)
		if i == 0 {
			p[1] |= 0x40
		}
		p[2] = byte(pid)
		p[3] = 0x10 | byte(cc&0x0f)
		cc++
		last := i == len(frags)-1
		if n == 184 || (last && fillLast) {
			copy(p[4:], payload[off:off+n])
		} else {
			afl := 183 - n
			p[3] |= 0x20
			p[4] = byte(afl)
			if afl > 0 {
				p[5] = 0x00
			}
			copy(p[5+afl:], payload[off:off+n])
		}
		off += n
		out = append(out, p)
	}
	return out
}

// splitSizes: fragment sizes for a payload of length n cut at the given first-fragment size, rest in 184s.
func splitSizes(n, first int) []int {
	if first > n {
		first = n
	}
	fr := []int{first}
	rest := n - first
	for rest > 0 {
		k := rest
		if k > 184 {
			k = 184
		}
		fr = append(fr, k)
		rest -= k
	}
	return fr
}

func pktsEv(ps []packet.Packet) [][]int {
	out := make([][]int, 0, len(ps))
	for i := range ps {
		out = append(out, B(ps[i][:]))
	}
	return out
}

func evPkts(v interface{}) []*packet.Packet {
	var list []interface{}
	switch t := v.(type) {
	case [][]int:
		for _, x := range t {
			list = append(list, x)
		}
	case []interface{}:
		list = t
	}
	var out []*packet.Packet
	for _, x := range list {
		var p packet.Packet
		copy(p[:], GB(x))
		out = append(out, &p)
	}
	return out
}

// otherSection: a complete non-PMT section (table id != 2, != 0xFF) of body length n.
// shortSection: a complete short-form private section of 3..6 bytes (section_syntax_indicator 0, section_length 0..3, no CRC)
func shortSection(r *rand.Rand, sl int) []byte {
	sec := []byte{[]byte{0x42, 0xC8, 0x70, 0x80}[r.Intn(4)], 0x30, byte(sl)}
	return append(sec, rndBytes(r, sl)...)
}

func otherSection(r *rand.Rand, n int) []byte {
	body := make([]byte, n)
	r.Read(body)
	tid := []byte{0x42, 0x00, 0xC8, 0x70}[r.Intn(4)]
	sl := n + 4
	sec := append([]byte{tid, 0xB0 | byte(sl>>8&3), byte(sl)}, body...)
	c := crc32mpeg(sec)
	return append(sec, byte(c>>24), byte(c>>16), byte(c>>8), byte(c))
}

// descBody reads a descriptor's body through the verif hook in /repo/psi (build tag verif).
func descBody(d psi.PmtDescriptor) []byte { return psi.VerifDescriptorData(d) }
