package main

import (
	"bufio"
	"bytes"
	"encoding/json"
	"fmt"
	"math/rand"
	"os"
	"os/exec"
	"runtime"
	"sort"
	"strings"
	"sync"
	"time"

	"github.com/Comcast/gots/v2/packet"
)

// C05: decoders are total.  Calls run in a child process (gotsverif c05worker)
// that reports, per call: outcome value|error|panic|hang|oom, the panic site,
// bytes allocated, and whether the input was left untouched.
type c05 struct{}

func init() { register("C05", c05{}) }

const c05HeapLimit = 512 << 20

// c05Deadline is the per-call deadline of the worker: 4 s, or C05_DEADLINE_S seconds (the parent
// re-runs a call that timed out once with a 30 s deadline before it reports a hang, so that a
// stalled machine does not look like a non-terminating decoder).
var c05Deadline = func() time.Duration {
	if v := os.Getenv("C05_DEADLINE_S"); v != "" {
		var n int
		fmt.Sscanf(v, "%d", &n)
		if n > 0 {
			return time.Duration(n) * time.Second
		}
	}
	return 4 * time.Second
}()

// ---------------------------------------------------------------- worker (child)

func c05Worker() {
	in := bufio.NewReaderSize(os.Stdin, 1<<20)
	out := bufio.NewWriter(os.Stdout)
	var mu sync.Mutex
	reply := func(r Ev) {
		mu.Lock()
		b, _ := json.Marshal(r)
		out.Write(b)
		out.WriteByte('\n')
		out.Flush()
		mu.Unlock()
	}
	var started time.Time
	busy := false
	var bmu sync.Mutex
	go func() { // watchdog: per-call deadline and heap limit
		var ms runtime.MemStats
		for {
			time.Sleep(25 * time.Millisecond)
			bmu.Lock()
			b, st := busy, started
			bmu.Unlock()
			if !b {
				continue
			}
			if time.Since(st) > c05Deadline {
				reply(Ev{"outcome": "hang", "panic": "", "site": "", "alloc": 0, "print_alloc": 0, "stack": 0, "input_same": true})
				os.Exit(3)
			}
			runtime.ReadMemStats(&ms)
			if ms.HeapAlloc > c05HeapLimit {
				reply(Ev{"outcome": "oom", "panic": "", "site": "", "alloc": int(c05HeapLimit), "print_alloc": 0, "stack": 0, "input_same": true})
				os.Exit(4)
			}
		}
	}()
	ops := map[string]c05Op{}
	for _, o := range c05Ops {
		ops[o.name] = o
	}
	for {
		line, err := in.ReadBytes('\n')
		if len(line) > 1 {
			var req map[string]interface{}
			if json.Unmarshal(line, &req) != nil {
				reply(Ev{"outcome": "harness-bad-request"})
				continue
			}
			op := ops[GS(req["op"])]
			input := GB(req["in"])
			if input == nil {
				input = []byte{}
			}
			if rep := GI0(req["rep"]); rep > 1 {
				input = bytes.Repeat(input, rep) // long inputs are described, not transmitted
			}
			// the input is handed over as a sub-slice of a larger buffer (spare capacity and guard bytes around it, as when a
			// caller parses the front part of what it received): a read-only operation leaves the surroundings alone too
			var frame []byte
			if len(input) < 1<<20 {
				frame = make([]byte, len(input)+16)
				for i := range frame {
					frame[i] = 0x5a
				}
				copy(frame[8:], input)
				input = frame[8 : 8+len(input)]
			}
			frameKeep := append([]byte(nil), frame...)
			keep := append([]byte(nil), input...)
			arg := GI(req["arg"])
			r := Ev{"outcome": "", "panic": "", "site": "", "alloc": 0, "print_alloc": 0, "stack": 0, "input_same": true}
			var m0, m1 runtime.MemStats
			c05PrintBytes = 0
			runtime.ReadMemStats(&m0)
			for k := 0; k < 12 && m0.StackInuse > 4<<20; k++ { // a stack grown by an earlier call shrinks at collections
				runtime.GC()
				runtime.ReadMemStats(&m0)
			}
			bmu.Lock()
			busy, started = true, time.Now()
			bmu.Unlock()
			func() {
				defer func() {
					if p := recover(); p != nil {
						r["outcome"] = "panic"
						r["panic"] = fmt.Sprintf("%v", p)
						r["site"] = c05Site()
					}
				}()
				r["outcome"] = op.run(input, arg)
			}()
			bmu.Lock()
			busy = false
			bmu.Unlock()
			runtime.ReadMemStats(&m1)
			a := m1.TotalAlloc - m0.TotalAlloc
			pa := c05PrintBytes
			if pa > a {
				pa = a
			}
			a -= pa // what printing the returned object allocated is reported apart
			if a > 2000000000 {
				a = 2000000000
			}
			if pa > 2000000000 {
				pa = 2000000000
			}
			r["alloc"], r["print_alloc"] = int(a), int(pa)
			// the goroutine's stack keeps the size it grew to until a later collection shrinks it
			if m1.StackInuse > m0.StackInuse {
				st := m1.StackInuse - m0.StackInuse
				if st > 2000000000 {
					st = 2000000000
				}
				r["stack"] = int(st)
			}
			r["input_same"] = bytes.Equal(input, keep) && bytes.Equal(frame, frameKeep)
			reply(r)
		}
		if err != nil {
			return
		}
	}
}

// c05Site names the innermost library frame of the current panic.
func c05Site() string {
	pcs := make([]uintptr, 64)
	n := runtime.Callers(3, pcs)
	frames := runtime.CallersFrames(pcs[:n])
	seen := false
	for {
		fr, more := frames.Next()
		if fr.Function == "runtime.gopanic" {
			seen = true
		} else if seen && strings.Contains(fr.Function, "github.com/Comcast/gots") {
			return strings.TrimPrefix(fr.Function, "github.com/Comcast/gots/v2")
		} else if seen && strings.HasPrefix(fr.Function, "main.") {
			return "harness:" + fr.Function
		}
		if !more {
			return "unknown"
		}
	}
}

var c05Kind = func() map[string]string {
	m := map[string]string{}
	for _, o := range c05Ops {
		m[o.name] = o.kind
	}
	return m
}()

// ---------------------------------------------------------------- parent side

type c05Child struct {
	cmd *exec.Cmd
	in  *bufio.Writer
	out *bufio.Reader
	err *tailBuf
}

// tailBuf keeps the first bytes a worker wrote to its standard error (where the Go runtime reports a fatal error
// that no recover can catch: stack overflow, out of memory, concurrent map access).
type tailBuf struct {
	mu sync.Mutex
	b  []byte
}

func (t *tailBuf) Write(p []byte) (int, error) {
	t.mu.Lock()
	if len(t.b) < 4096 {
		t.b = append(t.b, p[:minInt(len(p), 4096-len(t.b))]...)
	}
	t.mu.Unlock()
	return len(p), nil
}
func (t *tailBuf) String() string { t.mu.Lock(); defer t.mu.Unlock(); return string(t.b) }

var c05c *c05Child

func c05Start() *c05Child {
	cmd := exec.Command(os.Args[0], "c05worker", "C05")
	tb := &tailBuf{}
	cmd.Stderr = tb
	w, _ := cmd.StdinPipe()
	r, _ := cmd.StdoutPipe()
	if err := cmd.Start(); err != nil {
		die("cannot start C05 worker: %v", err)
	}
	return &c05Child{cmd: cmd, in: bufio.NewWriter(w), out: bufio.NewReaderSize(r, 1<<20), err: tb}
}

func c05Call(e Ev) Ev {
	if c05c == nil {
		c05c = c05Start()
	}
	b, _ := json.Marshal(Ev{"op": e["op"], "in": e["in"], "arg": e["arg"], "rep": GI0(e["rep"])})
	c05c.in.Write(b)
	c05c.in.WriteByte('\n')
	c05c.in.Flush()
	type rr struct {
		line []byte
		err  error
	}
	ch := make(chan rr, 1)
	child := c05c
	go func() {
		l, err := child.out.ReadBytes('\n')
		ch <- rr{l, err}
	}()
	var resp Ev
	select {
	case r := <-ch:
		if len(r.line) > 1 {
			json.Unmarshal(r.line, &resp)
		}
		if resp == nil {
			child.cmd.Wait()
			resp = Ev{"outcome": "crash", "panic": "worker died without a report", "site": "", "alloc": 0, "print_alloc": 0, "stack": 0, "input_same": true}
			// the Go runtime names a fatal error on standard error before it ends the process: that is the library's
			// failure (no recover can catch it); anything else that kills the worker is a failure of the harness
			if msg := child.err.String(); strings.Contains(msg, "fatal error:") || strings.Contains(msg, "goroutine stack exceeds") {
				resp["outcome"] = "fatal"
				resp["panic"] = c05FirstLine(msg)
			} else {
				os.Stderr.WriteString(msg)
			}
		}
		if o := GS(resp["outcome"]); o == "hang" || o == "oom" || o == "crash" || o == "fatal" {
			child.cmd.Wait()
			c05c = nil
		}
	case <-time.After(c05Deadline + 6*time.Second):
		child.cmd.Process.Kill()
		child.cmd.Wait()
		c05c = nil
		resp = Ev{"outcome": "hang", "panic": "worker unresponsive", "site": "", "alloc": 0, "print_alloc": 0, "stack": 0, "input_same": true}
	}
	return resp
}

func c05FirstLine(msg string) string {
	for _, l := range strings.Split(msg, "\n") {
		if strings.Contains(l, "fatal error:") || strings.Contains(l, "goroutine stack exceeds") {
			return strings.TrimSpace(l)
		}
	}
	return "fatal error"
}

// c05Len: the length of the input an event describes ("in" repeated "rep" times).
func c05Len(e Ev) int {
	n := len(GB(e["in"]))
	if rep := GI0(e["rep"]); rep > 1 {
		n *= rep
	}
	return n
}

// c05Bad counts, per entry point, the calls that ended without a result (hang / out of memory, each of which costs
// many seconds): after three of them the entry point is not called any more in this run - the finding is already
// made, and a library change that makes an entry point spin must not turn the check into an hour-long run.
var c05Bad = map[string]int{}

func (c05) Exec(h []Ev) []Ev {
	for _, e := range h {
		if c05Bad[GS(e["op"])] >= 3 {
			e["outcome"], e["panic"], e["site"], e["alloc"], e["input_same"] = "not-run", "", "", 0, true
			e["stack"], e["print_alloc"] = 0, 0
			e["len"] = c05Len(e)
			e["kind"] = c05Kind[GS(e["op"])]
			continue
		}
		r := c05Call(e)
		if GS(r["outcome"]) == "hang" {
			// confirm with a generous deadline in a fresh worker
			os.Setenv("C05_DEADLINE_S", "30")
			c05Deadline = 30 * time.Second
			r = c05Call(e)
			if c05c != nil {
				c05c.in.Flush()
				c05c.cmd.Process.Kill()
				c05c.cmd.Wait()
				c05c = nil
			}
			os.Unsetenv("C05_DEADLINE_S")
			c05Deadline = 4 * time.Second
		}
		if GS(r["outcome"]) == "fatal" {
			// a fatal error must show again in a fresh worker before it is reported
			if r2 := c05Call(e); GS(r2["outcome"]) != "fatal" {
				r = r2
			}
		}
		if o := GS(r["outcome"]); o == "hang" || o == "oom" || o == "fatal" {
			c05Bad[GS(e["op"])]++
		}
		for k, v := range r {
			e[k] = v
		}
		e["len"] = c05Len(e)
		e["alloc"] = GI(e["alloc"])
		e["stack"] = GI0(e["stack"])
		e["print_alloc"] = GI0(e["print_alloc"])
		e["kind"] = c05Kind[GS(e["op"])]
	}
	return h
}

func (c05) Class(e Ev) string {
	ln := GI(e["len"])
	lb := "long"
	switch {
	case ln == 0:
		lb = "empty"
	case ln < 8:
		lb = "tiny"
	case ln < 64:
		lb = "short"
	case ln <= 188:
		lb = "packet"
	case ln >= 1<<20:
		lb = "huge"
	}
	return fmt.Sprintf("%s/%s/%s/%s", GS(e["op"]), GS(e["src"]), lb, GS(e["outcome"]))
}

// ---------------------------------------------------------------- input generation

// c05Mutations derives "almost well-formed" strings from a well-formed one: truncation,
// every byte of the leading/trailing structure set to boundary values, random flips.
func c05Mutations(r *rand.Rand, b []byte, dense bool, emit func([]byte, string)) {
	emit(b, "wellformed")
	step := 1
	if !dense && len(b) > 40 {
		step = 1 + len(b)/40
	}
	for n := 0; n < len(b); n += step {
		emit(b[:n], "truncated")
	}
	lim := len(b)
	if !dense && lim > 48 {
		lim = 48
	}
	for i := 0; i < lim; i++ {
		for _, v := range []int{0, 1, int(b[i]) - 1, int(b[i]) + 1, 0x7f, 0x80, 0xff} {
			if v < 0 || v > 255 || byte(v) == b[i] {
				continue
			}
			if !dense && r.Intn(3) != 0 {
				continue
			}
			m := append([]byte(nil), b...)
			m[i] = byte(v)
			emit(m, "field-corrupted")
		}
	}
	// a long run of continuation-style bytes after every short prefix (chains whose "more follows" bit is a byte's
	// top bit, runs of filler): longer than any 8-bit index or length can count
	for i := 0; i <= len(b) && i <= 16; i++ {
		for _, v := range []byte{0x80, 0xff, 0x9c} {
			if !dense && i > 8 && r.Intn(2) != 0 {
				continue
			}
			m := append(append([]byte(nil), b[:i]...), bytes.Repeat([]byte{v}, 300)...)
			emit(m, "long-run")
		}
	}
	// two-byte fields at the top of their range (16-bit / 12-bit / 10-bit lengths: sums with a constant overflow there)
	lim2 := len(b)
	if !dense && lim2 > 200 {
		lim2 = 200
	}
	for i := 0; i+1 < lim2; i++ {
		for _, v := range [][2]byte{{0xff, 0xff}, {0xff, 0xfc}, {0x0f, 0xff}, {0x03, 0xff}} {
			if !dense && i >= 24 && r.Intn(2) != 0 {
				continue
			}
			m := append([]byte(nil), b...)
			m[i], m[i+1] = m[i]|v[0], v[1]
			emit(m, "wide-field-extreme")
		}
	}
	for k := 0; k < 6; k++ {
		if len(b) == 0 {
			break
		}
		m := append([]byte(nil), b...)
		for q := 1 + r.Intn(3); q > 0; q-- {
			m[r.Intn(len(m))] ^= 1 << uint(r.Intn(8))
		}
		emit(m, "bit-flips")
		m2 := append(append([]byte(nil), b...), rndBytes(r, 1+r.Intn(8))...)
		emit(m2, "extended")
	}
}

// GenRows: inputs chosen by the coverage-guided fuzzer (crashers and corpus entries of FuzzC05), executed
// by the monitored worker like the generated ones.
func (c05) GenRows(rows []Ev, tier string, seed int64, emit func([]Ev)) {
	for _, row := range rows {
		o := c05Ops[GI(row["opi"])%len(c05Ops)]
		in := GB(row["in"])
		if len(in) > 2048 {
			in = in[:2048]
		}
		if o.kind == "packet" {
			var p [188]byte
			copy(p[:], in)
			in = p[:]
		}
		if in == nil {
			in = []byte{}
		}
		emit([]Ev{{"op": o.name, "in": B(in), "arg": GI(row["arg"]), "src": GS(row["src"])}})
	}
}

func (c05) Gen(tier string, seed int64, emit func([]Ev)) {
	r := rand.New(rand.NewSource(seed))
	dense := tier == "thorough"
	one := func(op string, in []byte, arg int, src string) {
		if in == nil {
			in = []byte{}
		}
		emit([]Ev{{"op": op, "in": B(in), "arg": arg, "src": src}})
	}
	byKind := map[string][]c05Op{}
	for _, o := range c05Ops {
		byKind[o.kind] = append(byKind[o.kind], o)
	}
	// ---- 188-byte arrays: the bytes that steer control flow are enumerated ----
	afLens := []int{0, 1, 2, 6, 7, 8, 13, 14, 15, 20, 100, 176, 182, 183, 184, 200, 255}
	flagStep := 5
	if dense {
		flagStep = 1
	}
	n := 0
	for afc := 0; afc < 4; afc++ {
		for _, al := range afLens {
			for fl := (afc + al) % flagStep; fl < 256; fl += flagStep {
				for _, first := range []int{0, 1, 183, 255} {
					var p packet.Packet
					for i := range p {
						p[i] = 0xff
					}
					if n%3 == 0 {
						r.Read(p[:])
					}
					p[0], p[1], p[2], p[3] = 0x47, byte(0x40|r.Intn(32)), byte(r.Intn(256)), byte(afc<<4|r.Intn(16))
					p[4], p[5] = byte(al), byte(fl)
					// the first optional length byte, wherever the flags put it
					off := 6
					if fl&0x10 != 0 {
						off += 6
					}
					if fl&0x08 != 0 {
						off += 6
					}
					if fl&0x04 != 0 {
						off++
					}
					p[off] = byte(first)
					n++
					for _, o := range byKind["packet"] {
						one(o.name, p[:], n+r.Intn(4096), "steered")
					}
				}
			}
		}
	}
	nrand := 300
	if dense {
		nrand = 6000
	}
	for i := 0; i < nrand; i++ {
		var p packet.Packet
		r.Read(p[:])
		if i%2 == 0 {
			p[0] = 0x47
		}
		for _, o := range byKind["packet"] {
			one(o.name, p[:], r.Intn(1<<20), "random")
		}
	}
	// ---- byte strings: well-formed vectors of every format and their near misses ----
	bytesOps := byKind["bytes"]
	seeds := map[string][][]byte{}
	rounds := 3
	if dense {
		rounds = 25
	}
	for k := 0; k < rounds; k++ {
		pat := randPAT(r, r.Intn(6))
		seeds["psi.NewPAT"] = append(seeds["psi.NewPAT"], append([]byte{0}, patSection(pat)...))
		pmt := randPMT(r, r.Intn(5), k%2 == 0)
		pl := c06Payload([]int{0, 0, 1, 5}[r.Intn(4)], nil, pmtSection(pmt), r.Intn(3))
		seeds["psi.NewPMT"] = append(seeds["psi.NewPMT"], pl)
		seeds["pes.NewPESHeader"] = append(seeds["pes.NewPESHeader"], c11Pes(r, []int{0xe0, 0xc0, 0xbd, 190, 0xfc}[r.Intn(5)], []int{0, 2, 3}[r.Intn(3)], r.Intn(6), r.Intn(20), c11Time(r), c11Time(r)))
		seeds["ebp.ReadEncoderBoundaryPoint"] = append(seeds["ebp.ReadEncoderBoundaryPoint"], c12Bytes(r, k%2 == 0))
		s := rndSig(r)
		seeds["scte35.NewSCTE35"] = append(seeds["scte35.NewSCTE35"], append([]byte{0}, s.section()...))
	}
	// signals with the structure the stream-switch getter looks for (delivery restricted, a two-entry MID: an ADI entry
	// "BLACKOUT:<id>" and an ADS entry naming the license rotation) and their near misses, each a well-formed section
	for _, adi := range []string{"BLACKOUT:abc", "BLACKOUT:", "BLACKOUT", "BLACKOU", "B", "", "BLACKOUT;x", "blackout:abc", "BLACKOUT:" + string(rndBytes(r, 40))} {
		for _, ads := range []string{"comcast:linear:licenserotation", "comcast:linear:licenserotatio", "", "comcast:linear:licenserotation:x"} {
			for _, n := range []int{2, 1, 3} {
				if n != 2 && (len(adi)+len(ads))%3 != 0 {
					continue
				}
				d := rndSeg(r)
				d.Cancel, d.Dnr, d.UpidType, d.Upid, d.Comps, d.ProgSeg = false, false, 0x0d, nil, nil, true
				d.Mid = []absMid{{Type: 9, Upid: []byte(adi)}, {Type: 14, Upid: []byte(ads)}, {Type: 9, Upid: []byte("x")}}[:n]
				sg := absSig{TableId: 0xfc, Tier: 0xfff, Cmd: absCmd{Kind: "time", Spec: true, Pts: rnd33(r)}, Descs: []absSDesc{d}}
				one("scte35.NewSCTE35", append([]byte{0}, sg.section()...), r.Intn(1<<16), "vss-like")
			}
		}
	}
	seeds["psi.accessors"] = seeds["psi.NewPMT"]
	seeds["psi.PmtAccumulatorDoneFunc"] = seeds["psi.NewPMT"]
	seeds["psi.ExtractCRC"] = seeds["psi.NewPMT"]
	seedNames := make([]string, 0, len(seeds))
	for name := range seeds {
		seedNames = append(seedNames, name)
	}
	sort.Strings(seedNames) // deterministic order: the generator must be a function of the seed
	for _, o := range bytesOps {
		// every parser also sees the vectors of the other formats
		for _, name := range seedNames {
			vs := seeds[name]
			own := name == o.name
			for vi, v := range vs {
				if !own && vi > 0 {
					break
				}
				if own {
					c05Mutations(r, v, dense, func(m []byte, src string) { one(o.name, m, r.Intn(1<<16), src) })
				} else {
					one(o.name, v, r.Intn(1<<16), "foreign-format")
				}
			}
		}
		one(o.name, nil, 0, "empty")
		for k := 0; k < 120; k++ {
			one(o.name, rndBytes(r, r.Intn(48)), r.Intn(1<<16), "random")
		}
		for ln := 1; ln <= 12; ln++ { // short strings of structural bytes
			for k := 0; k < 6; k++ {
				b := make([]byte, ln)
				for i := range b {
					b[i] = []byte{0x00, 0x01, 0x02, 0xfc, 0xff, 0xa9, 0xdf, 0x0d, 0x34, 0x80, 0x47, 0x10}[r.Intn(12)]
				}
				one(o.name, b, r.Intn(1<<16), "structural")
			}
		}
	}
	// descriptors: every tag with bodies of length 0..6
	for tag := 0; tag < 256; tag++ {
		for ln := 0; ln <= 6; ln++ {
			if !dense && (tag+ln)%3 != 0 && !(tag == 10 || tag == 14 || tag == 127 || tag == 5 || tag == 176 || tag == 233 || tag == 204 || tag == 82) {
				continue
			}
			one("psi.descriptor", append([]byte{byte(tag)}, rndBytes(r, ln)...), r.Intn(256), "descriptor")
		}
	}
	// descriptor objects made from bodies longer than a descriptor_length byte can announce (the constructor takes any slice)
	for _, tag := range []int{10, 14, 127, 5, 176, 233, 204, 82, 0x7a, 0x6a, 0x81, 0xcc, 0xe9, r.Intn(256), r.Intn(256)} {
		for _, ln := range []int{255, 256, 257, 300, 1024} {
			for _, fill := range []int{-1, 0x00, 0xff, 0x02} {
				b := rndBytes(r, ln)
				if fill >= 0 {
					for i := range b {
						b[i] = byte(fill)
					}
				}
				one("psi.descriptor", append([]byte{byte(tag)}, b...), r.Intn(256), "long-descriptor")
			}
		}
	}
	// PMT packets for the filter
	for k := 0; k < rounds*4; k++ {
		pmt := randPMT(r, 1+r.Intn(5), false)
		pl := c06Payload(0, nil, pmtSection(pmt), 0)
		pk := packetise(r, pl, splitSizes(len(pl), minInt(len(pl), 1+r.Intn(184))), 0x100, k%2 == 0)
		var cat []byte
		for i := range pk {
			cat = append(cat, pk[i][:]...)
		}
		c05Mutations(r, cat, false, func(m []byte, src string) { one("psi.FilterPMTPacketsToPids", m, r.Intn(8192), src) })
	}
	// tables of several packets with an odd packet put in at every position: one with the payload flag and no payload
	// byte (adaptation field of 183 bytes), an adaptation-field-only packet, an over-long adaptation field, a packet of
	// another PID, a repeated packet, a second unit start
	for k := 0; k < rounds; k++ {
		pmt := randPMT(r, 30+r.Intn(60), false)
		pl := c06Payload(0, nil, pmtSection(pmt), 0)
		pk := packetise(r, pl, splitSizes(len(pl), minInt(len(pl), 1+r.Intn(184))), 0x100, k%2 == 0)
		for at := 0; at <= len(pk); at++ {
			for v := 0; v < 6; v++ {
				if !dense && at > 3 && (at+v+k)%3 != 0 {
					continue
				}
				var odd packet.Packet
				for i := range odd {
					odd[i] = 0xff
				}
				odd[0], odd[1], odd[2], odd[3], odd[4], odd[5] = 0x47, 0x01, 0x00, 0x30, 183, 0
				switch v {
				case 1:
					odd[3] = 0x20
				case 2:
					odd[4] = []byte{184, 200, 255}[r.Intn(3)]
				case 3:
					odd[2], odd[3] = 0x01, 0x10
				case 4:
					if at > 0 {
						odd = pk[at-1]
					}
				case 5:
					odd = pk[0]
				}
				var cat []byte
				for i := 0; i <= len(pk); i++ {
					if i == at {
						cat = append(cat, odd[:]...)
					}
					if i < len(pk) {
						cat = append(cat, pk[i][:]...)
					}
				}
				one("psi.FilterPMTPacketsToPids", cat, r.Intn(8192), "odd-packet")
			}
		}
	}
	// payloads that hold no program map section at all: the pointer_field leads to the very end, to stuffing, to another
	// table or to a section cut short; requested PIDs include the PAT PID (ignored by the filter's presence test)
	for _, ptr := range []int{0, 1, 100, 149, 182, 183} {
		for _, fill := range []byte{0xff, 0x30, 0x02, 0x00} {
			for _, afl := range []int{-1, 33} {
				var p packet.Packet
				for i := range p {
					p[i] = fill
				}
				p[0], p[1], p[2], p[3] = 0x47, 0x41, 0x00, 0x10
				start := 4
				if afl >= 0 {
					p[3] = 0x30
					p[4], p[5] = byte(afl), 0
					start = 5 + afl
				}
				p[start] = byte(ptr)
				one("psi.FilterPMTPacketsToPids", p[:], 0, "no-section")
				one("psi.FilterPMTPacketsToPids", p[:], 0x100, "no-section")
			}
		}
	}
	// ---- streams ----
	for k := 0; k < rounds*2; k++ {
		var st []byte
		for q := r.Intn(3); q > 0; q-- {
			o := otherPacket(r)
			st = append(st, o[:]...)
		}
		pat := randPAT(r, 1+r.Intn(4))
		pp := patPacket(r, append([]byte{0}, patSection(pat)...), k%2 == 0)
		st = append(st, pp[:]...)
		pmt := randPMT(r, 1+r.Intn(6), false)
		pl := c06Payload(0, nil, pmtSection(pmt), 0)
		for _, p := range packetise(r, pl, splitSizes(len(pl), minInt(len(pl), 1+r.Intn(184))), 0x100, k%2 == 1) {
			st = append(st, p[:]...)
		}
		for _, o := range byKind["stream"] {
			c05Mutations(r, st, false, func(m []byte, src string) { one(o.name, m, r.Intn(1<<16), src) })
			// the same stream starting with a PMT-PID packet, so that ReadPMT looks at it
			if len(st) > 188*2 {
				one(o.name, st[188*(len(st)/188-1):], r.Intn(1<<16), "tail")
			}
		}
	}
	// very long streams (described as a unit repeated: 16 MiB and more): nothing may grow with the input beyond a small
	// multiple - no frame per byte or per packet on the stack (the Go runtime ends the process when a stack passes 1 GB)
	var nullp, contp, patlike packet.Packet
	for i := range nullp {
		nullp[i], contp[i], patlike[i] = 0xff, 0x5a, 0x47
	}
	nullp[0], nullp[1], nullp[2], nullp[3] = 0x47, 0x1f, 0xff, 0x10
	contp[0], contp[1], contp[2], contp[3] = 0x47, 0x01, 0x00, 0x10
	patlike[0], patlike[1], patlike[2], patlike[3] = 0x47, 0x00, 0x05, 0x10
	for _, o := range byKind["stream"] {
		for k, unit := range [][]byte{{0x47}, {0x47, 0x00, 0x05, 0x10}, {0x00}, nullp[:], contp[:], patlike[:]} {
			rep := (16<<20)/len(unit) + 1 + r.Intn(3)
			if !dense && (k+len(o.name))%2 == 0 {
				rep = (1<<20)/len(unit) + 1
			}
			emit([]Ev{{"op": o.name, "in": B(unit), "rep": rep, "arg": r.Intn(1 << 16), "src": "huge"}})
		}
	}
	for _, o := range byKind["stream"] {
		one(o.name, nil, 0, "empty")
		for k := 0; k < 60; k++ {
			one(o.name, rndBytes(r, r.Intn(600)), r.Intn(1<<16), "random")
		}
	}
}

func minInt(a, b int) int {
	if a < b {
		return a
	}
	return b
}
