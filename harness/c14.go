package main

import (
	"fmt"
	"math/rand"
	"regexp"
	"strconv"

	"github.com/Comcast/gots/v2/packet"
	"github.com/Comcast/gots/v2/psi"
)

// C14: PMT filtering.
type c14 struct{}

func init() { register("C14", c14{}) }

func (c14) Gen(tier string, seed int64, emit func([]Ev)) {
	r := rand.New(rand.NewSource(seed))
	thorough := tier == "thorough"
	shapes := []int{0, 1, 2, 3, 4, 4, 6, 10, 16, 25, 40}
	if thorough {
		for k := 0; k < 4; k++ {
			shapes = append(shapes, shapes[:11]...)
		}
		shapes = append(shapes, shapes...)
	}
	shapes = append(shapes, -1, -2, -3)
	for si, ns := range shapes {
		pmt := randPMT(r, ns, si%3 == 0)
		if ns < 0 {
			pmt = limitPMT(r, -ns-1, []int{1021, 1021, 1020, 1000 + r.Intn(22)}[r.Intn(4)])
		}
		if ns > 0 && si%4 == 1 {
			// the section ends in 0xFF bytes and its CRC_32 is all ones, all zeros or stuffing- / sync-like: section bytes, not stuffing
			if q, ok := ffTailPMT(r, pmt); ok {
				pmt = q
			}
		}
		if ns >= 3 && si%5 == 2 {
			// elementary PIDs that differ from one another in a single bit (every bit position in turn): a membership
			// test that folds or hashes PIDs confuses exactly such neighbours
			base := 0x20 + r.Intn(0x1f00)
			taken := map[int]bool{}
			for i := range pmt.Streams {
				q := pmt.Streams[i].Pid
				if i == 0 {
					q = base
				} else if i <= 13 {
					q = base ^ (1 << uint((i-1+si)%13))
				}
				for taken[q] { // (streams beyond the thirteen neighbours keep a PID of their own: elementary PIDs stay distinct)
					q = 0x20 + r.Intn(0x1f00)
				}
				taken[q] = true
				pmt.Streams[i].Pid = q
			}
		}
		sec := pmtSection(pmt)
		var pids []int
		for _, s := range pmt.Streams {
			pids = append(pids, s.Pid)
		}
		pmtPid := 0x30 + r.Intn(0x1000)
		for pmtPidIn(pids, pmtPid) {
			pmtPid++
		}
		absent := func() int {
			for {
				q := 0x10 + r.Intn(0x1fe0)
				if !pmtPidIn(pids, q) && q != pmtPid {
					return q
				}
			}
		}
		// request lists: subsets / orderings (<= 4 streams), duplicates, absent, PAT and PMT PIDs
		var reqs [][]int
		reqs = append(reqs, []int{}, append([]int(nil), pids...))
		if len(pids) > 0 && len(pids) <= 4 {
			for mask := 1; mask < 1<<uint(len(pids)); mask++ {
				var q []int
				for k := range pids {
					if mask&(1<<uint(k)) != 0 {
						q = append(q, pids[k])
					}
				}
				reqs = append(reqs, q)
				if len(q) > 1 {
					rev := append([]int(nil), q...)
					for i, j := 0, len(rev)-1; i < j; i, j = i+1, j-1 {
						rev[i], rev[j] = rev[j], rev[i]
					}
					reqs = append(reqs, rev)
				}
			}
		}
		for k := 0; k < 8; k++ {
			var q []int
			for n := 1 + r.Intn(4); n > 0; n-- {
				switch x := r.Intn(10); {
				case x < 5 && len(pids) > 0:
					q = append(q, pids[r.Intn(len(pids))])
				case x < 7:
					q = append(q, absent())
				case x == 7:
					q = append(q, 0)
				case x == 8:
					q = append(q, pmtPid)
				default:
					if len(q) > 0 {
						q = append(q, q[r.Intn(len(q))]) // duplicate
					} else {
						q = append(q, absent())
					}
				}
			}
			reqs = append(reqs, q)
		}
		// every stream alone; single-bit neighbours of listed PIDs that are not in the table (they select nothing)
		for k, p0 := range pids {
			if len(pids) > 4 && k < 6 {
				reqs = append(reqs, []int{p0})
			}
			if nb := p0 ^ (1 << uint(r.Intn(13))); k < 4 && !pmtPidIn(pids, nb) && nb != pmtPid && nb != 0 {
				reqs = append(reqs, []int{nb, pids[(k+1)%len(pids)]})
			}
		}
		a := absent()
		reqs = append(reqs, []int{a}, []int{a, a}, []int{a, absent()}, []int{0}, []int{pmtPid}, []int{0, pmtPid, a})
		if len(pids) > 0 {
			// values outside the 13-bit PID range that agree with a listed PID in their low 13 / 16 bits: absent
			p0 := pids[r.Intn(len(pids))]
			reqs = append(reqs, []int{p0 + 8192}, []int{p0 + 65536, pids[0]}, []int{pids[len(pids)-1], p0 + 65536*3}, []int{0, p0 + 65536}, []int{p0 + 8192, p0})
		}
		for ri, q := range reqs {
			if q == nil {
				q = []int{}
			}
			ptr := []int{0, 0, 1, 5, 100}[r.Intn(5)]
			pl := c06Payload(ptr, nil, sec, 0)
			n := len(pl)
			lim := n - 1
			if lim > 184 {
				lim = 184
			}
			first := n
			if lim >= 1 {
				first = 1 + r.Intn(lim)
			}
			if lim < 1 || ri%3 == 0 {
				first = n
				if first > 184 {
					first = 184
				}
			}
			frags := splitSizes(n, first)
			pk := packetise(r, pl, frags, pmtPid, ri%2 == 0)
			fe := Ev{"op": "filter", "abs": absPMTEv(pmt), "ptr": ptr, "packets": pktsEv(pk), "pids": q}
			if ri%3 != 1 {
				emit([]Ev{fe})
				continue
			}
			// The result must not depend on what the library was asked before: precede the call with
			// calls whose own outcome is not judged here (ill-formed packet lists, other PMTs).
			var h []Ev
			for k := 1 + r.Intn(2); k > 0; k-- {
				other := randPMT(r, 1+r.Intn(6), false)
				opl := c06Payload([]int{0, 3}[r.Intn(2)], nil, pmtSection(other), 0)
				ofr := splitSizes(len(opl), 1+r.Intn(60))
				opk := packetise(r, opl, ofr, pmtPid, false)
				var want []int
				for _, st := range other.Streams {
					want = append(want, st.Pid)
				}
				switch r.Intn(4) {
				case 0: // a packet without payload after packets with payload
					var np packet.Packet
					np[0], np[1], np[2], np[3], np[4] = 0x47, byte(pmtPid>>8), byte(pmtPid), 0x20, 183
					at := 1 + r.Intn(len(opk))
					opk = append(opk[:at:at], append([]packet.Packet{np}, opk[at:]...)...)
				case 1: // the last packet is missing
					if len(opk) > 1 {
						opk = opk[:len(opk)-1]
					}
				case 2: // ask for a PID that is not there
					want = []int{0x1ffe}
				}
				if want == nil {
					want = []int{}
				}
				h = append(h, Ev{"op": "disturb", "packets": pktsEv(opk), "pids": want})
			}
			emit(append(h, fe))
		}
		// the section's last bytes alone in the last packet (also when the CRC_32 ends in 0xFF and looks like stuffing)
		if len(pids) > 0 {
			pm := pmt
			for try := 0; try < 3000; try++ {
				pm.Program = 1 + (pmt.Program+try)%65535
				sc := pmtSection(pm)
				if sc[len(sc)-1] == 0xff || (si%2 == 1 && try > 40) {
					break
				}
			}
			sc := pmtSection(pm)
			pl := c06Payload(0, nil, sc, 0)
			for _, tail := range []int{1, 2, 4} {
				if len(pl)-tail < 1 || len(pl)-tail > 184*6 {
					continue
				}
				var frags []int
				for rest := len(pl) - tail; rest > 0; {
					k := rest
					if k > 184 {
						k = 184
					}
					frags = append(frags, k)
					rest -= k
				}
				frags = append(frags, tail)
				pk := packetise(r, pl, frags, pmtPid, tail%2 == 0)
				emit([]Ev{{"op": "filter", "abs": absPMTEv(pm), "ptr": 0, "packets": pktsEv(pk), "pids": append([]int(nil), pids...)}})
				emit([]Ev{{"op": "filter", "abs": absPMTEv(pm), "ptr": 0, "packets": pktsEv(pk), "pids": []int{pids[0], 0}}})
			}
		}
		// RemoveElementaryStreams / Pids / PIDExists on the decoded PMT
		for k := 0; k < 4; k++ {
			var rm []int
			for n := r.Intn(4); n > 0; n-- {
				if len(pids) > 0 && r.Intn(3) != 0 {
					rm = append(rm, pids[r.Intn(len(pids))])
				} else {
					rm = append(rm, absent())
				}
			}
			if rm == nil {
				rm = []int{}
			}
			// a second removal on the same object, and (three times of four) the queries also *before* the first removal:
			// an answer the object gave earlier must not survive a removal (a cached index, a memoised PID list)
			rm2 := []int{}
			for n := r.Intn(3); n > 0; n-- {
				if len(pids) > 0 && r.Intn(4) != 0 {
					rm2 = append(rm2, pids[r.Intn(len(pids))])
				} else {
					rm2 = append(rm2, absent())
				}
			}
			emit([]Ev{{"op": "remove", "abs": absPMTEv(pmt), "payload": B(c06Payload(0, nil, sec, 0)), "remove": rm, "remove2": rm2, "pre": k != 3, "probe": []int{absent(), 0, pmtPid}}})
		}
	}
}

func pmtPidIn(pids []int, q int) bool {
	for _, p := range pids {
		if p == q {
			return true
		}
	}
	return false
}

var c14Digits = regexp.MustCompile(`\d+`)

func (c14) Exec(h []Ev) []Ev {
	// packets returned by earlier calls of this history, with the content they had then
	var heldP []*packet.Packet
	var heldV []packet.Packet
	for _, e := range h {
		e["earlier_same"] = true
		e["panic"] = guard(func() {
			switch GS(e["op"]) {
			case "disturb":
				// outcome not judged (the input may be ill-formed); only its after-effects matter
				guard(func() {
					out, _ := psi.FilterPMTPacketsToPids(evPkts(e["packets"]), GIs(e["pids"]))
					for _, p := range out {
						if p != nil {
							heldP, heldV = append(heldP, p), append(heldV, *p)
						}
					}
				})
			case "filter":
				in := evPkts(e["packets"])
				keep := make([]packet.Packet, len(in))
				for i, p := range in {
					keep[i] = *p
				}
				out, err := psi.FilterPMTPacketsToPids(in, GIs(e["pids"]))
				e["err"] = err != nil
				ep := []int{}
				if err != nil {
					for _, m := range c14Digits.FindAllString(err.Error(), -1) {
						if v, cerr := strconv.Atoi(m); cerr == nil {
							ep = append(ep, v)
						}
					}
				}
				e["err_pids"] = ep
				e["nil_out"] = out == nil
				o := [][]int{}
				for _, p := range out {
					o = append(o, B(p[:]))
				}
				e["out"] = o
				same := true
				for i, p := range in {
					if *p != keep[i] {
						same = false
					}
				}
				e["in_same"] = same
				for i, p := range heldP {
					if *p != heldV[i] {
						e["earlier_same"] = false
					}
				}
				for _, p := range out {
					if p != nil {
						heldP, heldV = append(heldP, p), append(heldV, *p)
					}
				}
			case "remove":
				pmt, err := psi.NewPMT(GB(e["payload"]))
				if err != nil {
					panic("harness: NewPMT rejected a well-formed PMT: " + err.Error())
				}
				probe := append(append(append([]int(nil), GIs(e["probe"])...), GIs(e["remove"])...), GIs(e["remove2"])...)
				for _, s := range evAbsPMT(e["abs"]).Streams {
					probe = append(probe, s.Pid)
				}
				query := func(suffix string) {
					sa := [][]int{}
					for _, es := range pmt.ElementaryStreams() {
						sa = append(sa, []int{int(es.StreamType()), es.ElementaryPid()})
					}
					e["streams_"+suffix] = sa
					pa := []int{}
					pa = append(pa, pmt.Pids()...)
					e["pids_"+suffix] = pa
					ex := [][]int{}
					for _, q := range probe {
						v := 0
						if pmt.PIDExists(q) {
							v = 1
						}
						ex = append(ex, []int{q, v})
					}
					e["exists_"+suffix] = ex
					pg := []int{}
					pg = append(pg, pmt.Pids()...)
					e["pids_again_"+suffix] = pg
				}
				if GBool(e["pre"]) {
					query("before")
				}
				pmt.RemoveElementaryStreams(GIs(e["remove"]))
				query("after")
				pmt.RemoveElementaryStreams(GIs(e["remove2"]))
				query("after2")
			}
		})
	}
	return h
}

func (c14) Class(e Ev) string {
	if GS(e["op"]) == "disturb" {
		return "disturb"
	}
	a := evAbsPMT(e["abs"])
	if GS(e["op"]) == "remove" {
		return fmt.Sprintf("remove/streams%d/rm%d/pre%v/rm2_%d", bucket(len(a.Streams)), len(GIs(e["remove"])), GBool(e["pre"]), len(GIs(e["remove2"])))
	}
	req := GIs(e["pids"])
	present, missing := 0, 0
	for _, q := range req {
		found := false
		for _, s := range a.Streams {
			if s.Pid == q {
				found = true
			}
		}
		if found {
			present++
		} else {
			missing++
		}
	}
	kind := "all-present"
	switch {
	case len(req) == 0:
		kind = "empty"
	case present == 0:
		kind = "none-present"
	case missing > 0:
		kind = "some-missing"
	}
	np := len(evPkts(e["packets"]))
	return fmt.Sprintf("filter/streams%d/%s/pkts%d/err%v", bucket(len(a.Streams)), kind, np, GBool(e["err"]))
}
