package main

import (
	"fmt"
	"math/rand"
	"time"

	"github.com/Comcast/gots/v2/ebp"
)

// C12: EBP codec and time.
type c12 struct{}

func init() { register("C12", c12{}) }

const ntpOffset = 2208988800 // seconds between 1900-01-01 and 1970-01-01

func c12Time(t time.Time) (secs []int, ns int) {
	return W64(uint64(t.Unix() + ntpOffset)), t.Nanosecond()
}

func c12Getters(e ebp.EncoderBoundaryPoint) Ev { return c12GettersO(nil, e) }

// c12GettersO queries the getters in the order the event's key selects (nil: as listed).
func c12GettersO(ev Ev, e ebp.EncoderBoundaryPoint) Ev {
	g := Ev{"disc": false, "partition": false}
	inOrder(ev, func() { g["type"] = int(e.EBPType()) }, func() { g["isempty"] = e.IsEmpty() }, func() { g["frag"] = e.FragmentFlag() },
		func() { g["seg"] = e.SegmentFlag() }, func() { g["sapflag"] = e.SapFlag() }, func() { g["grouping"] = e.GroupingFlag() },
		func() { g["timeflag"] = e.TimeFlag() }, func() { g["extflag"] = e.ExtensionFlag() }, func() { g["sap"] = int(e.Sap()) },
		func() { g["sync"] = int(e.StreamSyncSignal()) },
		func() {
			if d, ok := e.(interface{ DiscontinuityFlag() bool }); ok {
				g["disc"] = d.DiscontinuityFlag()
			}
			if d, ok := e.(interface{ ConcealmentFlag() bool }); ok {
				g["disc"] = d.ConcealmentFlag()
			}
		}, func() {
			if d, ok := e.(interface{ PartitionFlag() bool }); ok {
				g["partition"] = d.PartitionFlag()
			}
		}, func() { g["t_secs"], g["t_ns"] = c12Time(e.EBPTime()) })
	return g
}

// c12Bytes builds a well-formed EBP (inputs only; TLC re-parses and checks well-formedness).
func c12Bytes(r *rand.Rand, cl bool) []byte {
	fl := byte(r.Intn(256))
	var body []byte
	if cl {
		body = append(body, 'E', 'B', 'P', '0')
	}
	body = append(body, fl)
	part := false
	if fl&1 != 0 {
		x := byte(r.Intn(256))
		body = append(body, x)
		part = cl && x&0x80 != 0
	}
	if fl&0x20 != 0 {
		body = append(body, byte(r.Intn(256)))
	}
	if fl&0x10 != 0 {
		if cl {
			n := 1 + r.Intn(4)
			if r.Intn(12) == 0 {
				n = 20 + r.Intn(200) // a very long chain (the whole EBP may be 257 bytes)
			}
			for k := 0; k < n; k++ {
				id := byte(r.Intn(128))
				if r.Intn(3) == 0 {
					id = []byte{0x1c, 0x1d}[r.Intn(2)]
				}
				if k < n-1 {
					id |= 0x80
				}
				body = append(body, id)
			}
		} else {
			id := byte(r.Intn(256))
			if r.Intn(3) == 0 {
				id = []byte{0x1c, 0x1d}[r.Intn(2)]
			}
			body = append(body, id)
		}
	}
	if fl&0x08 != 0 {
		t := make([]byte, 8)
		r.Read(t)
		switch r.Intn(5) {
		case 0:
			copy(t[4:], []byte{0xff, 0xff, 0xff, 0xff})
		case 1:
			copy(t, []byte{0x80, 0, 0, 0})
		case 2:
			copy(t, []byte{0x7f, 0xff, 0xff, 0xff})
		}
		body = append(body, t...)
	}
	if part {
		body = append(body, byte(r.Intn(256)))
	}
	tail := make([]byte, []int{0, 0, 1, 2, 5}[r.Intn(5)])
	if r.Intn(10) == 0 && len(body) < 250 {
		// fill up to a data_field_length of 253, 254 or 255 (the largest the length byte can say)
		tail = make([]byte, []int{253, 254, 255, 255}[r.Intn(4)]-len(body))
	}
	r.Read(tail)
	body = append(body, tail...)
	if len(body) > 255 { // does not fit the length byte: draw another one
		return c12Bytes(r, cl)
	}
	tag := byte(0xA9)
	if cl {
		tag = 0xDF
	}
	return append([]byte{tag, byte(len(body))}, body...)
}

func (c12) Gen(tier string, seed int64, emit0 func([]Ev)) {
	emit, flush := grouper(emit0, "decode")
	defer flush()
	r := rand.New(rand.NewSource(seed))
	n := 1500
	if tier == "thorough" {
		n = 150000
	}
	for i := 0; i < n; i++ {
		emit([]Ev{{"op": "decode", "bytes": B(c12Bytes(r, i%2 == 0)), "lenient": false}})
	}
	flagOps := []string{"SetFragmentFlag", "SetSegmentFlag", "SetSapFlag", "SetGroupingFlag", "SetTimeFlag", "SetExtensionFlag", "SetDiscOrConcealment", "SetPartitionFlag"}
	for i := 0; i < n/3; i++ {
		var calls []Ev
		for k := 0; k < 2+r.Intn(8); k++ {
			switch r.Intn(5) {
			case 0:
				calls = append(calls, Ev{"f": "SetSap", "v": r.Intn(256)})
			case 1:
				s, ns := c12RandInstant(r)
				calls = append(calls, Ev{"f": "SetEBPTime", "secs": W64(s), "ns": ns})
			case 2:
				g := []int{}
				ng := 1
				if i%2 == 0 {
					ng = 1 + r.Intn(3)
				}
				for q := 0; q < ng; q++ {
					g = append(g, []int{0x1c, 0x1d, r.Intn(128)}[r.Intn(3)])
				}
				calls = append(calls, Ev{"f": "Grouping", "ids": g})
			default:
				calls = append(calls, Ev{"f": flagOps[r.Intn(len(flagOps))], "b": r.Intn(4) != 0})
			}
		}
		if i%10 == 0 {
			// the partition flag asked to be false on an EBP that has the extension flag: it must stay clear
			for k := range calls {
				if GS(calls[k]["f"]) == "SetPartitionFlag" {
					calls[k]["b"] = false
				}
			}
			calls = append([]Ev{{"f": "SetExtensionFlag", "b": true}}, calls...)
			at := 1 + r.Intn(len(calls))
			calls = append(calls[:at:at], append([]Ev{{"f": "SetPartitionFlag", "b": false}}, calls[at:]...)...)
		}
		emit([]Ev{{"op": "build", "cablelabs": i%2 == 0, "calls": calls, "twin": i%3 == 1, "probe": i%4 >= 2}})
	}
	// time round trip over the whole representable range, nanosecond boundary values
	nsVals := []int{0, 1, 2, 499999999, 500000000, 999999998, 999999999}
	for i := 0; i < n; i++ {
		s, ns := c12RandInstant(r)
		if i%2 == 0 {
			ns = nsVals[r.Intn(len(nsVals))]
		}
		emit([]Ev{{"op": "time", "t_secs": W64(s), "t_ns": ns, "zone_min": []int{0, 0, 60, -300, 840, -720, 330, 1}[r.Intn(8)]}})
	}
}

// c12RandInstant: seconds since 1900 within [2^31, 2^32+2^31), boundary-biased.
func c12RandInstant(r *rand.Rand) (uint64, int) {
	lo, hi := uint64(1)<<31, uint64(1)<<32+uint64(1)<<31
	var s uint64
	switch r.Intn(6) {
	case 0:
		s = lo + uint64(r.Intn(3))
	case 1:
		s = hi - 1 - uint64(r.Intn(3))
	case 2:
		s = uint64(1)<<32 - 2 + uint64(r.Intn(4)) // around the era change 2036-02-07T06:28:16Z
	default:
		s = lo + uint64(r.Int63n(int64(hi-lo)))
	}
	return s, r.Intn(1000000000)
}

// GenRows: byte strings kept by the coverage-guided fuzzer (FuzzC12); judged when Ebp!Parse accepts them.
func (c12) GenRows(rows []Ev, tier string, seed int64, emit func([]Ev)) {
	for _, row := range rows {
		in := GB(row["in"])
		if len(in) > 300 {
			in = in[:300]
		}
		if in == nil {
			in = []byte{}
		}
		emit([]Ev{{"op": "decode", "bytes": B(in), "lenient": true}})
	}
}

func (c12) Exec(h []Ev) []Ev {
	var held holder
	for _, e := range h {
		e["earlier_same"] = true
		e["panic"] = guard(func() {
			defer func() { e["earlier_same"] = held.same() }()
			switch GS(e["op"]) {
			case "decode":
				b := GB(e["bytes"])
				keep := append([]byte(nil), b...)
				x, err := ebp.ReadEncoderBoundaryPoint(b)
				e["err"] = err != nil
				e["g"], e["redata"], e["g_again"], e["redata2"] = Ev{}, []int{}, Ev{}, []int{}
				if err == nil {
					e["g"] = c12GettersO(e, x)
					e["redata"] = B(x.Data())
					// encoding must not change the object: same values, same bytes again
					e["g_again"], e["redata2"] = c12Getters(x), B(x.Data())
					defer held.hold(func() string { return jsonOf(c12Getters(x)) + jsonOf(B(x.Data())) })
				}
				e["input_same"] = string(b) == string(keep)
			case "build":
				var x ebp.EncoderBoundaryPoint
				cc := ebp.CreateComcastEBP()
				cl := ebp.CreateCableLabsEbp()
				isCL := GBool(e["cablelabs"])
				if isCL {
					x = &cl
				} else {
					x = &cc
				}
				// "twin": a second EBP is built side by side from a copy of the freshly created value (the Create functions
				// return plain struct values); ids are added with append on both; what is set on the twin must not show in x
				twin, _ := e["twin"].(bool)
				twinCC, twinCL := cc, cl
				var calls []interface{}
				switch t := e["calls"].(type) {
				case []Ev:
					for _, c := range t {
						calls = append(calls, c)
					}
				case []interface{}:
					calls = t
				}
				// "probe": the object is asked for all its getters and its encoding between the setter calls (answers not
				// judged - the object may be half built); what it answers at the end must not depend on having been asked
				probe, _ := e["probe"].(bool)
				for _, ci := range calls {
					if probe {
						func() {
							defer func() { _ = recover() }()
							_ = c12Getters(x)
							_ = x.Data()
						}()
					}
					c := asMap(ci)
					v := GBool(c["b"])
					switch GS(c["f"]) {
					case "SetFragmentFlag":
						x.SetFragmentFlag(v)
					case "SetSegmentFlag":
						x.SetSegmentFlag(v)
					case "SetSapFlag":
						x.SetSapFlag(v)
					case "SetGroupingFlag":
						x.SetGroupingFlag(v)
					case "SetTimeFlag":
						x.SetTimeFlag(v)
					case "SetExtensionFlag":
						x.SetExtensionFlag(v)
					case "SetDiscOrConcealment":
						if isCL {
							cl.SetConcealmentFlag(v)
						} else {
							cc.SetDiscontinuityFlag(v)
						}
					case "SetPartitionFlag":
						if isCL {
							cl.SetPartitionFlag(v)
						}
					case "SetSap":
						x.SetSap(byte(GI(c["v"])))
					case "SetEBPTime":
						x.SetEBPTime(time.Unix(int64(UW64(c["secs"]))-ntpOffset, int64(GI(c["ns"]))).UTC())
					case "Grouping":
						var g []uint8
						for _, id := range GIs(c["ids"]) {
							g = append(g, uint8(id))
						}
						if twin {
							if isCL {
								cl.Grouping = cl.Grouping[:0] // the list is replaced, as by an assignment, but built with append
								for _, id := range g {
									cl.Grouping = append(cl.Grouping, id)
								}
							} else {
								cc.Grouping = append(cc.Grouping[:0], g[0])
							}
						} else if isCL {
							cl.Grouping = g
						} else {
							cc.Grouping = g[:1]
						}
					}
				}
				// a builder that raised the grouping flag must carry at least one id to be well-formed
				if x.GroupingFlag() {
					if isCL && len(cl.Grouping) == 0 {
						cl.Grouping = []uint8{5}
					}
					if !isCL && len(cc.Grouping) == 0 {
						cc.Grouping = []uint8{5}
					}
				}
				if twin {
					for k := 0; k < 3; k++ {
						twinCL.Grouping = append(twinCL.Grouping, uint8(0x41+k))
					}
					twinCC.Grouping = append(twinCC.Grouping, 0x41)
					twinCL.SetGroupingFlag(true)
					twinCC.SetGroupingFlag(true)
					_, _ = twinCL.Data(), twinCC.Data()
				}
				e["g1"] = c12GettersO(e, x)
				data := x.Data()
				e["bytes"] = B(data)
				// encoding must not change the object
				e["g1_again"], e["bytes_again"] = c12Getters(x), B(x.Data())
				y, err := ebp.ReadEncoderBoundaryPoint(data)
				e["err2"] = err != nil
				e["g2"] = Ev{}
				if err == nil {
					e["g2"] = c12GettersO(e, y)
				} else {
					e["g2"] = e["g1"]
				}
			case "time":
				x := ebp.CreateComcastEBP()
				t := time.Unix(int64(UW64(e["t_secs"]))-ntpOffset, int64(GI(e["t_ns"]))).UTC()
				// the same instant expressed in another zone is the same instant
				if z := GI(e["zone_min"]); z != 0 {
					t = t.In(time.FixedZone("z", z*60))
				}
				x.SetEBPTime(t)
				e["sec32"] = []int{int(x.TimeSeconds >> 24), int(x.TimeSeconds >> 16 & 0xff), int(x.TimeSeconds >> 8 & 0xff), int(x.TimeSeconds & 0xff)}
				e["frac32"] = []int{int(x.TimeFraction >> 24), int(x.TimeFraction >> 16 & 0xff), int(x.TimeFraction >> 8 & 0xff), int(x.TimeFraction & 0xff)}
				e["back_secs"], e["back_ns"] = c12Time(x.EBPTime())
			}
		})
	}
	return h
}

func (c12) Class(e Ev) string {
	switch GS(e["op"]) {
	case "decode":
		b := GB(e["bytes"])
		fi := 2
		if b[0] == 0xDF {
			fi = 6
		}
		return fmt.Sprintf("decode/%02x/flags%02x", b[0], b[fi]&0x39)
	case "build":
		return fmt.Sprintf("build/cl%v/len%d/probe%v", GBool(e["cablelabs"]), len(GB(e["bytes"]))/4, GBool(e["probe"]))
	case "time":
		s := UW64(e["t_secs"])
		era := 0
		if s >= 1<<32 {
			era = 1
		}
		nsb := "mid"
		switch ns := GI(e["t_ns"]); {
		case ns < 3:
			nsb = "lo"
		case ns > 999999990:
			nsb = "hi"
		}
		return fmt.Sprintf("time/era%d/%s", era, nsb)
	}
	return ""
}
