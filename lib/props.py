"""Per-property pipelines (see DESIGN.md section 4)."""
import json
import os
import vcheck as V

PROPS = {}
TRACE_MODULE = {}
SIGFN = {}


def prop(pid, trace_module=None, sigfn=V.default_sig):
    def deco(f):
        PROPS[pid] = f
        TRACE_MODULE[pid] = trace_module
        SIGFN[pid] = sigfn
        return f
    return deco


def replay(pid, path, seed):
    """Re-execute a recorded violation against a fresh build and re-validate it."""
    ctx = V.Ctx(pid, "replay", seed)
    V.build_harness(ctx)
    rec = json.load(open(path))
    inp = os.path.join(ctx.dir, "replay.in.ndjson")
    outp = os.path.join(ctx.dir, "replay.out.ndjson")
    V.write_history_twice(inp, rec["history"], rec.get("context"))
    if rec.get("kind") in ("hang", "hang-table"):
        with open(inp, "w") as f:
            for e in rec["history"]:
                f.write(json.dumps(e) + "\n")
        if rec["kind"] == "hang-table":
            rc, o = V.sh([V.BIN, "table", pid, "-in", inp, "-out", outp, "-tier", "quick", "-seed", str(seed)], timeout=600, env={"VERIF_HANG_S": "30"})
        else:
            rc, o = V.sh([V.BIN, "replay", pid, "-in", inp, "-out", outp], timeout=600, env={"VERIF_HANG_S": "30"})
        if rc == 3:
            V.log("the call did not return again (stopped by the watchdog)")
            V.log("VIOLATION property=%s replay=%s" % (pid, path))
            return 1
        V.log("the call returned on replay: not reproduced")
        return 0
    if rec.get("kind") == "table":
        row = rec["history"][0]
        if "steps" in row:      # a TLC-generated behaviour: replay it again on a fresh build
            beh = os.path.join(ctx.dir, "replay.behaviour.ndjson")
            with open(beh, "w") as f:
                f.write(json.dumps({k: row[k] for k in row if k in ("steps", "pred")}) + "\n")
            rep = V.table_compare(ctx, beh, name="behaviour", as_behaviours=True)
            if rep.get("mismatches"):
                V.log("  %s" % json.dumps(V.slim(rep["mismatches"][0]))[:800])
                V.log("VIOLATION property=%s replay=%s" % (pid, path))
                return 1
            V.log("behaviour accepted on replay: not reproduced")
            return 0
        V.log("table mismatch recorded: %s" % json.dumps(V.slim(row))[:800])
        V.log("re-run the check to recompute the exhaustive table comparison")
        return 1
    rc, o = V.sh([V.BIN, "replay", pid, "-in", inp, "-out", outp], timeout=600)
    if rc != 0:
        raise V.Broken("replay failed: " + o[-2000:])
    module = rec.get("module") or TRACE_MODULE[pid]
    fails, done = V.validate_shard(ctx, module, outp, 600, "2g")
    evs = V.read_ndjson(outp)
    for line, reason in fails:
        V.log("  step %d rejected by %s: %s: %s" % (line, module, reason, json.dumps(V.slim(evs[line - 1], 24))[:600]))
    if fails:
        V.log("VIOLATION property=%s replay=%s" % (pid, path))
        return 1
    V.log("replay accepted by the specification: not reproduced")
    return 0


# ---------------------------------------------------------------- C15

@prop("C15", "Trace_C15")
def c15(ctx):
    thorough = ctx.tier == "thorough"
    V.mc(ctx, "MC_C15", cfg="MC_C15_thorough.cfg" if thorough else "MC_C15.cfg")
    if thorough:
        V.mc(ctx, "MC_Wide")
    for inv in ("PairInv", "AddInv"):
        V.apalache(ctx, "Apa_C15", "Init", inv, length=0, timeout=900)
    summ = V.gen_traces(ctx, shards=8)
    V.validate(ctx, "Trace_C15", summ, V.default_sig)
    return V.finish(ctx, "model_checking",
                    rule="events = PTS method calls on (p,q) pairs / (p,d) additions / sentinel comparisons; "
                         "class = (operation, threshold region of each operand {lo,L,mid,U,hi}, order relation or wrap/no-wrap); "
                         "values are boundary-dense (0, 2^33-1, both rollover thresholds +-3, 2^32, ...) plus seeded random",
                    trace_module="Trace_C15", sigfn=V.default_sig,
                    assumptions=["TLC/SANY/Apalache and the JVM", "module Wide (checked against TLC integers by MC_Wide)",
                                 "the harness logs the real return values of gots.PTS methods"])


# ---------------------------------------------------------------- C01

@prop("C01", "Trace_C01")
def c01(ctx):
    thorough = ctx.tier == "thorough"
    V.mc(ctx, "MC_C01", cfg="MC_C01_thorough.cfg" if thorough else "MC_C01.cfg")
    tab = os.path.join(ctx.dir, "c01.tab.ndjson")
    V.tlc_emit(ctx, "Gen_C01", tab)
    rep = V.table_compare(ctx, tab)
    ctx.exhaustive = bool(rep.get("exhaustive"))
    summ = V.gen_traces(ctx, shards=8)
    V.validate(ctx, "Trace_C01", summ, V.default_sig)
    return V.finish(ctx, "model_checking",
                    rule="B1: TLC emits the complete getter tables of TsHeader (65 536 (b1,b2) rows, 256 b3 rows); the harness enumerates every value of the "
                         "affected header byte(s) x every in-range field value against the real getters/setters/CC helpers (body random) and compares via table look-ups only. "
                         "B3: random packets x random setter/CC-helper sequences with all 188 bytes before/after, validated by TLC as TsHeader!Set steps. "
                         "class = (operation, field, value class, changed/unchanged) or table block",
                    trace_module="Trace_C01", sigfn=V.default_sig,
                    assumptions=["TLC/SANY and the JVM", "TsHeader's field table is ISO/IEC 13818-1 Table 2-2 (cross-checked against a mask/shift reading by MC_C01)",
                                 "the harness logs real return values; packet body bytes are sampled, header byte(s) x value space is enumerated"])


# ---------------------------------------------------------------- C13

@prop("C13", "Trace_C13")
def c13(ctx):
    thorough = ctx.tier == "thorough"
    V.mc(ctx, "MC_C13", cfg="MC_C13_thorough.cfg" if thorough else "MC_C13.cfg")
    tab = os.path.join(ctx.dir, "c13.tab.ndjson")
    V.tlc_emit(ctx, "Gen_C13", tab)
    rep = V.table_compare(ctx, tab)
    ctx.exhaustive = True
    summ = V.gen_traces(ctx, shards=12)
    V.validate(ctx, "Trace_C13", summ, V.default_sig, par=12)
    return V.finish(ctx, "model_checking",
                    rule="B1 (exhaustive): TLC computes CRC-32/MPEG-2 of all 65 793 byte strings of length 0..2, compared with ComputeCRC. "
                         "B3: all single-bit strings of lengths 1..16, a stride (quick) or all (thorough) single-bit strings of lengths 32,64,183,184,188,1021,1024, "
                         "random strings up to 1024 bytes; TLC checks crc = Crc32(data) and that ComputeCRC(data ++ crc) = 0; sections emitted by the library itself (UpdateData of created signals with "
                         "alignment stuffing 0..7, FilterPMTPacketsToPids outputs) must have section_length consistent and CRC residue zero. class = (pattern kind, length bucket) or (emitter, stuffing)",
                    trace_module="Trace_C13", sigfn=V.default_sig,
                    assumptions=["TLC/SANY and the JVM", "CommunityModules Bitwise (^^)", "Crc.tla: serial definition = table form (MC_C13) and catalogue check value 0x0376E6E7",
                                 "sections emitted by the library (filtered PMT, splice_info_section) are checked for residue 0 in C14 and C09"])


# ---------------------------------------------------------------- C19

def c19_sig(e, reason):
    return V.default_sig(e, reason)


@prop("C19", "Trace_C19", c19_sig)
def c19(ctx):
    thorough = ctx.tier == "thorough"
    V.mc(ctx, "MC_C19", cfg="MC_C19_thorough.cfg" if thorough else "MC_C19.cfg")
    tab = os.path.join(ctx.dir, "c19.tab.ndjson")
    V.tlc_emit(ctx, "Gen_C19", tab)
    V.table_compare(ctx, tab)
    ctx.exhaustive = True
    summ = V.gen_traces(ctx, shards=8)
    V.validate(ctx, "Trace_C19", summ, c19_sig)
    return V.finish(ctx, "model_checking",
                    rule="B1 (exhaustive over the abstraction): TLC evaluates SegRules!CanCloseBy on all 256x256 type pairs x (event-id-equal, PTS-equal, segnum=segexp) "
                         "= 524 288 rows plus IsIn/IsOut for 256 types; each row is checked on real descriptors built through the public API with all other fields randomised. "
                         "B3: triples (a,b,c) of real descriptors (equal-up-to-ignored-fields, one-field-different, random) with every Equal/CanClose result validated by TLC "
                         "against SegRules and against the symmetry/transitivity/congruence laws. class = (type of a, eq(a,b), cc(a,c), cc(c,a))",
                    trace_module="Trace_C19", sigfn=c19_sig,
                    assumptions=["TLC/SANY and the JVM", "SegRules!RuleTable is the library's closing-rule table at the pinned commit (transcribed once)",
                                 "descriptor field values are logged from the real getters (their decoding is C08/C09's subject)"])


# ---------------------------------------------------------------- C20

@prop("C20", "Trace_C20")
def c20(ctx):
    V.mc(ctx, "MC_C20", workers=4)
    tab = os.path.join(ctx.dir, "c20.tab.ndjson")
    V.tlc_emit(ctx, "Gen_C20", tab)
    V.table_compare(ctx, tab)
    ctx.exhaustive = True
    summ = V.gen_traces(ctx, shards=8)
    V.validate(ctx, "Trace_C20", summ, V.default_sig)
    return V.finish(ctx, "model_checking",
                    rule="B1 (exhaustive): TLC emits the predicate table of all 256 stream types and the dvhe.PP.LL string for profile 0..127 x level 0..31; "
                         "compared on LookupPmtStreamType / NewPmtElementaryStream / DecodeDolbyVisionCodec. B3: all 256 descriptor tags x bodies of length 0..8 "
                         "(well-formed minimum length for the decoded kinds, boundary and random contents, single-bit bitrates) through every decoder, and PMTs carrying "
                         "all 256 stream types queried by PID; validated by TLC against PmtTypes. class = (decoded tag or other, body length)",
                    trace_module="Trace_C20", sigfn=V.default_sig,
                    assumptions=["TLC/SANY and the JVM", "PmtTypes transcribes the code assignments listed in the property statement",
                                 "maximum_bitrate inputs are below 2^21 and Dolby Vision levels below 32 (the property's stated ranges)",
                                 "the PMT sections used for the by-PID query are built by the harness (their parsing is C06's subject)"])


# ---------------------------------------------------------------- C16

@prop("C16", "Trace_C16")
def c16(ctx):
    thorough = ctx.tier == "thorough"
    V.mc(ctx, "MC_C16", cfg="MC_C16_thorough.cfg" if thorough else "MC_C16.cfg")
    # the lemma that lets the trace validation judge gaps of millions of bytes (checked as an ASSUME on all small instances)
    V.mc(ctx, "MC_C16gap", cfg="MC_C16gap_thorough.cfg" if thorough else "MC_C16gap.cfg", workers=1)
    summ = V.gen_traces(ctx, shards=12)
    V.validate(ctx, "Trace_C16", summ, V.default_sig, par=12)
    # byte streams kept by Go's coverage-guided fuzzer while it drives the real Sync: judged like the others
    rows, nrows = (V.go_fuzz(ctx, "FuzzC16", 90, parallel=8) if thorough else (None, 0))   # quick stays deterministic
    if nrows:
        summf = V.gen_traces(ctx, shards=8, name="trace-fuzz", extra=["-in", rows])
        V.validate(ctx, "Trace_C16", summf, V.default_sig, par=8)
    return V.finish(ctx, "model_checking",
                    rule="MC: the read/unread/peek loop as a TLA+ state machine refines the declarative First(s) on every stream of length <= 6 (8 thorough) over {0x47,0x00,0x10,0x05,0x1F}. "
                         "Sync!GapLemma (a stream with a gap of n >= 3 non-sync bytes is decided by the same stream with a gap of three) holds on all prefixes <= 2 (3) and suffixes <= 4 (5) bytes over the alphabet; "
                         "B3: the real packet.Sync on every stream of length <= 6 (8) over the same alphabet (bufio 16-byte buffer and a minimal PeekScanner alternately) plus random long streams "
                         "dense in false sync bytes / reserved PIDs / headers cut by EOF through four reader kinds; TLC checks offset = First(s), bytes left in the reader = suffix from First(s), "
                         "not-found error iff no plausible header. The corpus Go's coverage-guided fuzzer accumulates while driving the real Sync (thorough tier, 90 s) is judged the same way. "
                         "class = (reader, outcome, number of sync bytes, length bucket)",
                    trace_module="Trace_C16", sigfn=V.default_sig,
                    assumptions=["TLC/SANY and the JVM", "Go's bufio.Reader and the harness's slice PeekScanner implement Peek/ReadByte/UnreadByte as documented",
                                 "the reader position after a not-found result is left unspecified (the property does not state it)"])


# ---------------------------------------------------------------- C17

@prop("C17", "Trace_C17")
def c17(ctx):
    thorough = ctx.tier == "thorough"
    V.mc(ctx, "MC_C17", cfg="MC_C17_thorough.cfg" if thorough else "MC_C17.cfg")
    beh = os.path.join(ctx.dir, "c17.behaviours.ndjson")
    V.tlc_emit(ctx, "Sim_C17", beh, simulate="num=%d" % (2000 if thorough else 150),
               extra=["-depth", "10", "-seed", str(ctx.seed)], timeout=1800)
    V.table_compare(ctx, beh, name="behaviours", as_behaviours=True)
    summ = V.gen_traces(ctx, shards=8)
    V.validate(ctx, "Trace_C17", summ, V.default_sig)
    if thorough:
        # structured fuzzing: the fuzzer's bytes drive the history generator; the corpus is regenerated and judged
        rows, nrows = V.go_fuzz(ctx, "FuzzC17", 120, parallel=8)
        if nrows:
            summf = V.gen_traces(ctx, shards=8, name="trace-fuzz", extra=["-in", rows])
            V.validate(ctx, "Trace_C17", summf, V.default_sig, par=8)
    return V.finish(ctx, "model_checking",
                    rule="MC: all call histories up to depth 4 (5 thorough) over packets (PUSI x has-payload x 4 payloads), Reset, and 12 threshold/failing predicates; "
                         "invariants restate C17 from the recorded history. B2: TLC-simulated behaviours of the specification (depth 10) with expected result class, bytes and held packets replayed on a real accumulator. B3: random histories (2..10 calls) of WritePacket/Reset on a real accumulator with 188-byte packets "
                         "(payload-only, AF of every size incl. 183 = empty payload, AF-only), threshold/failing predicates; after every call the error class, Bytes() and Packets() "
                         "(after scribbling over the input packet and over previously returned slices) are validated by TLC as a step of Accumulator. class = (PUSI, AFC, result, packets held)",
                    trace_module="Trace_C17", sigfn=V.default_sig,
                    assumptions=["TLC/SANY and the JVM", "whether a packet rejected for lack of payload is listed by Packets() is left open (the property does not fix it)",
                                 "the library returns the same error for 'just completed' and 'already complete'; the harness tells them apart by the call order it issued",
                                 "payload extraction of well-formed packets per ISO 13818-1 (TsHeader + adaptation_field_length)"])


# ---------------------------------------------------------------- C18

@prop("C18", "Trace_C18")
def c18(ctx):
    thorough = ctx.tier == "thorough"
    V.mc(ctx, "MC_C18", cfg="MC_C18_thorough.cfg" if thorough else "MC_C18.cfg")
    # B2: every reader script of the bounded model replayed on the real ReadFrom (scaled to 188-byte packets)
    scr = os.path.join(ctx.dir, "c18.scripts.ndjson")
    V.tlc_emit(ctx, "Gen_C18", scr, timeout=1800)
    V.table_compare(ctx, scr, name="scripts", as_behaviours=True)
    summ = V.gen_traces(ctx, shards=8)
    V.validate(ctx, "Trace_C18", summ, V.default_sig)
    return V.finish(ctx, "model_checking",
                    rule="MC (scaled packet size 3): every fragmentation of streams up to 7 (10) bytes into reader results (chunk sizes 0..4 (5), EOF or failure attached to any result, "
                         "data returned with the error) x failing write position 0..3: the read loop state machine delivers exactly ExpectReadFrom. "
                         "B3: the four real adapters (IOWriter, IOWriteCloser, PacketWriterFunc, NopCloser) on slices of 0..4 packets (+ partial tails) with a failing packet write at k, "
                         "and ReadFrom over scripted readers (whole packets, 1..3 bytes, one byte, 187/189/94/376, random, through bufio, data+EOF, failure with/without data); TLC checks "
                         "the recorded deliveries (all 188 bytes of each), result class and count. class = (op, adapter, shape, result)",
                    trace_module="Trace_C18", sigfn=V.default_sig,
                    assumptions=["TLC/SANY and the JVM", "a failing WritePacket returns (0, err); short packet writes (n<188, nil) are not part of the property",
                                 "readers never return (0, nil)"])


# ---------------------------------------------------------------- C10

def c10_sig(e, reason):
    d = e.get("d") or {}
    t = d.get("type")
    if reason == "panic":
        return "%s/%s" % (e.get("op", "?"), V.panic_site(e))
    return "%s/%s" % (e.get("op", "?"), reason)


@prop("C10", "Trace_C10", c10_sig)
def c10(ctx):
    thorough = ctx.tier == "thorough"
    V.mc(ctx, "MC_C10", cfg="MC_C10_thorough.cfg" if thorough else "MC_C10.cfg", workers=12, timeout=3000, xmx="12g")
    # B2: TLC-simulated behaviours of the specification replayed on a real State
    beh = os.path.join(ctx.dir, "c10.behaviours.ndjson")
    V.tlc_emit(ctx, "Sim_C10", beh, simulate="num=%d" % (150 if thorough else 15),
               extra=["-depth", "12", "-seed", str(ctx.seed)], timeout=1800)
    V.table_compare(ctx, beh, name="behaviours", as_behaviours=True)
    summ = V.gen_traces(ctx, shards=12)
    V.validate(ctx, "Trace_C10", summ, c10_sig, par=12)
    if thorough:
        # structured fuzzing: the fuzzer's bytes drive the history generator; the corpus is regenerated and judged
        rows, nrows = V.go_fuzz(ctx, "FuzzC10", 120, parallel=8)
        if nrows:
            summf = V.gen_traces(ctx, shards=8, name="trace-fuzz", extra=["-in", rows])
            V.validate(ctx, "Trace_C10", summf, c10_sig, par=8)
    return V.finish(ctx, "model_checking",
                    rule="MC: all ProcessDescriptor/Close histories to depth 4 (5) over a descriptor alphabet (7 (14) types x event id x PTS incl. none x segexp x signal id), ring length 2; "
                         "C10's clauses as invariants and per-transition action properties. B2: TLC simulates behaviours of the specification (depth 12, 14 types) and prints the expected error class / closed ids / "
                         "Open() ids of every call; the harness replays them step by step on a real scte35.State. B3: every process-only history of length <= 2 (3) over a 50-descriptor alphabet and random histories "
                         "(4..25 calls, 25 types, breakaway/resumption/explicit close/re-processing/ring eviction biased) on a real scte35.State; after every call the error class, "
                         "the ids returned closed and the ids listed by Open() are validated against Scte35State carried along the history. class = (op, type, result, #closed, #open)",
                    trace_module="Trace_C10", sigfn=c10_sig,
                    assumptions=["TLC/SANY and the JVM", "SegRules (C19) for CanClose/Equal", "descriptor fields are logged from the real getters",
                                 "errors other than no-PTS / duplicate / signal-id-not-found are collapsed with success (the property does not name them)",
                                 "'was open immediately before' is read as 'was on the tracker's stack' (a pending breakaway is on the stack although Open() hides it)"])


# ---------------------------------------------------------------- C04

@prop("C04", "Trace_C04")
def c04(ctx):
    thorough = ctx.tier == "thorough"
    V.mc(ctx, "MC_C04", cfg="MC_C04_thorough.cfg" if thorough else "MC_C04.cfg", workers=12)
    # full width, symbolically: PCR layout inverse and independent of the reserved bits for ALL values
    # (the PTS layout invariant of the same module does not finish within minutes and is not run)
    V.apalache(ctx, "Apa_C04", "Init", "PcrInv", length=0, timeout=600)
    summ = V.gen_traces(ctx, shards=12)
    V.validate(ctx, "Trace_C04", summ, V.default_sig, par=12)
    return V.finish(ctx, "model_checking",
                    rule="Apalache: for ALL pcr < 2^33*300 and ALL reserved-bit values the integer reading of the PCR layout is inverse (Apa_C04!PcrInv). MC: Dec(Enc(v)) = v, ISO bit positions, and 'decoding ignores reserved/marker/prefix bits' on 99 bases (single bits, 2^k-1, mixed) x ext values (9 quick / all 299 thorough). "
                         "B3: InsertPCR/ExtractPCR/InsertPTS/gots.ExtractTime/pes.ExtractTime (the writers get a slice of exactly the field or one that goes on behind it) on single-bit and 2^k-1 patterns, every ext for sampled bases, limits +-2, random values, "
                         "prior buffer contents 0x00/0xFF/random with two trailing guard bytes, random byte strings and their single reserved/marker-bit flips; each written byte string and decoded value "
                         "validated by TLC against Timecodes (module Wide for 42-bit arithmetic). End to end: SetPCR/SetOPCR on an adaptation field (PCR only, OPCR only, both in either order; slot holding filler, random bytes or a non-canonical encoding of the same value; "
                         "splice countdown / private data switched on or off afterwards) - the six bytes at the ISO position must be the canonical encoding and both getter families read the value back; "
                         "a PES header with PTS and DTS written by InsertPTS for every stream_id with the optional header, read by NewPESHeader with DTS asked first or PTS asked first; Create(WithPES(v)) "
                         "read back through PESHeader/NewPESHeader and both ExtractTime (edge values 0, 2^33-1, 2^33-2, 2^32, ...). More histories of the same clauses are validated in C03 and C11. "
                         "class = (operation, top bit of the value)",
                    trace_module="Trace_C04", sigfn=V.default_sig,
                    assumptions=["TLC/SANY and the JVM", "module Wide (checked against TLC integers by MC_Wide)",
                                 "the 4-bit PTS prefix is not constrained (the three legal PES prefixes differ); marker bits must be 1"])


# ---------------------------------------------------------------- C03

def c03_sig(e, reason):
    if reason.startswith("get-"):
        return "getter/" + reason          # a getter defect shows up after every operation
    return V.default_sig(e, reason)


@prop("C03", "Trace_C03", c03_sig)
def c03(ctx):
    thorough = ctx.tier == "thorough"
    V.mc(ctx, "MC_C03", cfg="MC_C03_thorough.cfg" if thorough else "MC_C03.cfg", workers=12)
    summ = V.gen_traces(ctx, shards=12)
    V.validate(ctx, "Trace_C03", summ, c03_sig, par=12)
    # B2: the states of the model's reachable graph, every operation applied to each on the real code
    rows = os.path.join(ctx.dir, "c03.states.ndjson")
    V.tlc_emit(ctx, "Gen_C03", rows, cfg="Gen_C03_thorough.cfg" if thorough else "Gen_C03.cfg")
    # (thorough: about 1.5 million events; 48 shard files keep each TLC run's input below 100 MB)
    summ2 = V.gen_traces(ctx, shards=48 if thorough else 12, name="trace-b2", extra=["-in", rows])
    V.validate(ctx, "Trace_C03", summ2, c03_sig, par=12, timeout=3000)
    if ctx.tier == "thorough":
        # structured fuzzing: the fuzzer's bytes drive the history generator; the corpus is regenerated and judged
        rows, nrows = V.go_fuzz(ctx, "FuzzC03", 120, parallel=8)
        if nrows:
            summf = V.gen_traces(ctx, shards=8, name="trace-fuzz", extra=["-in", rows])
            V.validate(ctx, "Trace_C03", summf, c03_sig, par=8)
    if ctx.skipped > 0.25 * max(1, ctx.events):
        raise V.Broken("%d of %d events were skipped because `before` was not canonical" % (ctx.skipped, ctx.events))
    return V.finish(ctx, "model_checking",
                    rule="MC: the complete reachable graph of the logical adaptation field under all edit operations (lengths 1..23 sample, two PCR values, four data values): "
                         "Parse(Ser(a)) = a, canonical, error => unchanged. B3: from every adaptation_field_length 1..183 (with and without payload, blank and randomly populated), "
                         "random histories of all 16 setters (fill-to-capacity biased, copy from another packet) on real packets; every step logs all 188 bytes before/after, the error "
                         "and all getters of both accessor families, validated by TLC as AdaptationField!Apply on the parsed record. B2: Gen_C03 prints every reachable state of the model's graph "
                         "(20 960 logical fields); the harness puts each into a real packet and applies every operation of the model to it (36 calls per state; quick: every 32nd state), "
                         "validated the same way. class = (operation, length bucket, error, changed)",
                    trace_module="Trace_C03", sigfn=c03_sig,
                    assumptions=["TLC/SANY and the JVM", "a line whose `before` is no longer canonical (after a rejected line) is skipped, counted in trace_events_skipped_by_spec",
                                 "the value of a newly present PCR/OPCR/splice countdown is unspecified and bound to the observed bytes"])


# ---------------------------------------------------------------- C02

@prop("C02", "Trace_C02")
def c02(ctx):
    V.mc(ctx, "MC_C02", workers=12)
    summ = V.gen_traces(ctx, shards=12)
    V.validate(ctx, "Trace_C02", summ, V.default_sig, par=12)
    # B2: the structural space of MC_C02 as concrete (packet, data) pairs, each through the real SetPayload
    rows = os.path.join(ctx.dir, "c02.pairs.ndjson")
    V.tlc_emit(ctx, "Gen_C02", rows, workers=4)
    summ2 = V.gen_traces(ctx, shards=12, name="trace-b2", extra=["-in", rows])
    V.validate(ctx, "Trace_C02", summ2, V.default_sig, par=12)
    return V.finish(ctx, "model_checking",
                    rule="MC: the constructive SetPayload of TsPacket satisfies C02's postconditions (count, read-back, preserved header and adaptation-field content, stuffing, partition) for all "
                         "144 adaptation-field shapes x 11 packet kinds (payload only, AF length 0, lengths 1..182 sample) x 17 payload lengths. B3: real packets of every adaptation_field_length "
                         "0..183 (blank and randomly populated, AF-only, payload-only, degenerate full AF) through Header/Payload (function and method), method SetPayload with payload lengths 0..200 "
                         "(incl. capacity-1/capacity/capacity+1), package-level SetPayload and the creation helpers; validated by TLC against TsPacket. B2: the (packet, data) pairs of the MC space printed by Gen_C02, "
                         "each through the real SetPayload and validated the same way (quick: every eighth pair). "
                         "class = (operation, packet kind, AF length bucket, payload length vs room, error)",
                    trace_module="Trace_C02", sigfn=V.default_sig,
                    assumptions=["TLC/SANY and the JVM", "AdaptationField/TsHeader specs (C01, C03)", "payload bytes used for SetPayload never equal 0xFF, so stuffing is distinguishable",
                                 "creation helpers are specified only by the fields the property names (sync, PID, counter, flags, payload prefix)"])


# ---------------------------------------------------------------- C11

@prop("C11", "Trace_C11")
def c11(ctx):
    V.mc(ctx, "MC_C11", workers=12)
    summ = V.gen_traces(ctx, shards=12)
    V.validate(ctx, "Trace_C11", summ, V.default_sig, par=12)
    # byte strings kept by Go's coverage-guided fuzzer while it drives NewPESHeader: judged when Pes!WellFormed accepts them
    rows, nrows = (V.go_fuzz(ctx, "FuzzC11", 90, parallel=8) if ctx.tier == "thorough" else (None, 0))   # quick stays deterministic
    if nrows:
        summf = V.gen_traces(ctx, shards=8, name="trace-fuzz", extra=["-in", rows])
        V.validate(ctx, "Trace_C11", summf, V.default_sig, par=8)
    return V.finish(ctx, "model_checking",
                    rule="MC: Ser and the decoder-side readings of Pes are inverse for all 256 stream ids x PTS_DTS_flags {0,2,3} x extra header bytes {0,1,3} x 4 timestamp values. "
                         "B3: NewPESHeader on generated PES starts for all 256 stream ids x flags x PES_header_data_length 0..255 (extra optional/stuffing bytes) x boundary timestamps x data sizes; "
                         "packet.PESHeader / pes.AlignedPUSI on transport packets (with/without adaptation field, PUSI on/off, 1..7-byte payloads, wrong prefixes, no payload flag). "
                         "TLC checks well-formedness of each input itself and every getter against Pes. class = (optional-header or not, stream id group, PTS_DTS_flags, header length bucket)",
                    trace_module="Trace_C11", sigfn=V.default_sig,
                    assumptions=["TLC/SANY and the JVM", "Timecodes (C04) for the 33-bit timestamps", "a PES start shorter than 7 bytes is outside the decoder's documented input domain",
                                 "data_alignment_indicator is compared only for stream ids that carry the optional header"])


# ---------------------------------------------------------------- C12

@prop("C12", "Trace_C12")
def c12(ctx):
    V.mc(ctx, "MC_C12", workers=8)
    for inv in ("EraInv", "FracInv", "ReadingInv"):
        V.apalache(ctx, "Apa_C12", "Init", inv, length=0, timeout=600)
    summ = V.gen_traces(ctx, shards=12)
    V.validate(ctx, "Trace_C12", summ, V.default_sig, par=12)
    rows, nrows = (V.go_fuzz(ctx, "FuzzC12", 90, parallel=8) if ctx.tier == "thorough" else (None, 0))   # quick stays deterministic
    if nrows:
        summf = V.gen_traces(ctx, shards=8, name="trace-fuzz", extra=["-in", rows])
        V.validate(ctx, "Trace_C12", summf, V.default_sig, par=8)

    return V.finish(ctx, "model_checking",
                    rule="MC: Ebp!Parse inverts the assembly of both flavours for all 256 flag bytes x grouping chains 1..3 x reserved tails 0..2, length byte included; the NTP conversion agrees with "
                         "integer arithmetic at era boundaries, rounding points and 45 random fractions. Apalache (Apa_C12, unbounded integers): for ALL instants of the representable range the era reading of the 32-bit "
                         "seconds field gives the seconds back, the rounded-up clamped fraction reads back within one nanosecond, and every fraction reads below 10^9 ns. B3: ReadEncoderBoundaryPoint on generated well-formed EBPs of both flavours (every flag combination, SAP, "
                         "grouping chains incl. 0x1C/0x1D, extreme seconds/fractions, partition flags, reserved tails) with every getter and the re-encoding validated by TLC; builder histories "
                         "through the setter API with decode-back; SetEBPTime/EBPTime over 1968..2104 with nanosecond boundary values (|t'-t| <= 1 ns in 64-bit Wide arithmetic). "
                         "class = (op, flavour, meaningful flag bits / era and nanosecond bucket)",
                    trace_module="Trace_C12", sigfn=V.default_sig,
                    assumptions=["TLC/SANY and the JVM", "module Wide for 64-bit nanosecond arithmetic", "Go's time package (instants are logged as seconds since 1900 + nanoseconds)",
                                 "the Comcast flavour carries exactly one grouping byte"])


# ---------------------------------------------------------------- C07

@prop("C07", "Trace_C07")
def c07(ctx):
    V.mc(ctx, "MC_C07", workers=8)
    summ = V.gen_traces(ctx, shards=12)
    V.validate(ctx, "Trace_C07", summ, V.default_sig, par=12)
    return V.finish(ctx, "model_checking",
                    rule="MC: all PATs with 0..3 entries over program numbers {0,1,2} x 3 PIDs: section layout, CRC residue, section_length arithmetic, completion predicate, derived views. "
                         "B3: PATs with 0..42 entries (the single-packet limit) (random 16-bit program numbers, 13-bit PIDs, network entry first/last/absent) carried as payload bytes, as a whole packet (with/without "
                         "adaptation-field stuffing) and in a stream behind 0..20 packets of other PIDs (or with no PAT / truncated); IsPMT over all 8192 PIDs and the nil-PAT error. "
                         "TLC first checks that the carrier bytes are the serialisation of the logged abstract PAT (else harness error), then every observation. class = (carrier, #entries, network entry, result)",
                    trace_module="Trace_C07", sigfn=V.default_sig,
                    assumptions=["TLC/SANY and the JVM", "Crc (C13) for CRC_32", "program numbers are distinct; payload carriers use pointer_field 0, length >= 13 and never exactly 188 bytes"])


# ---------------------------------------------------------------- C06

@prop("C06", "Trace_C06")
def c06(ctx):
    V.mc(ctx, "MC_C06", workers=12)
    summ = V.gen_traces(ctx, shards=12)
    V.validate(ctx, "Trace_C06", summ, V.default_sig, par=12, timeout=3000)
    if ctx.tier == "thorough":
        # structured fuzzing: the fuzzer's bytes drive a generator of sections and carriages; corpus regenerated and judged
        rows, nrows = V.go_fuzz(ctx, "FuzzC06", 120, parallel=8)
        if nrows:
            summf = V.gen_traces(ctx, shards=8, name="trace-fuzz", extra=["-in", rows])
            V.validate(ctx, "Trace_C06", summf, V.default_sig, par=8, timeout=3000)
    return V.finish(ctx, "model_checking",
                    rule="MC: small PMTs x pointer_field {0,1,3} x preceding section x stuffing: section arithmetic, CRC residue, accessors, and the closed form of the completion predicate equals "
                         "Psi!Done on every prefix (false strictly inside a section, true at the end). B3: 17 (68) PMT shapes (0..40 streams, descriptor bodies 0..255, up to the 1021 limit) x "
                         "pointer_field {0,1,5,100,182} x optional preceding section x stuffing: NewPMT, the done-func on EVERY prefix, ExtractCRC and the psi accessors; and packetisations "
                         "(a sample (quick) or every (thorough) split point of the payload into two packets, 3/4-packet splits, AF-stuffing and 0xFF-fill styles, interleaved foreign PIDs) through ReadPMT. "
                         "TLC first checks the logged bytes/packets are the serialisation/carriage of the logged abstract PMT. class = (op, pointer, stream-count bucket or packet count, result)",
                    trace_module="Trace_C06", sigfn=V.default_sig,
                    assumptions=["TLC/SANY and the JVM", "Crc (C13)", "descriptor bodies are read through the verif hook psi.VerifDescriptorData (the public API exposes tags and decoders only)",
                                 "ReadPMT skipping a PMT without streams is modelled as the library's deliberate behaviour",
                                 "at the boundary between two sections the completion predicate may be true (no predicate can know another section follows)"])


# ---------------------------------------------------------------- C14

@prop("C14", "Trace_C14")
def c14(ctx):
    V.mc(ctx, "MC_C14", workers=8)
    summ = V.gen_traces(ctx, shards=12)
    V.validate(ctx, "Trace_C14", summ, V.default_sig, par=12, timeout=3000)
    return V.finish(ctx, "model_checking",
                    rule="MC: Keep/Missing/Remove on PMTs with <= 3 streams x all request lists of length <= 3 over {stream PIDs, absent, PAT PID, PMT PID} incl. duplicates: kept streams, order, "
                         "well-formed section with zero CRC residue. B3: FilterPMTPacketsToPids on 11 (33) PMT shapes (0..40 streams) x request lists (all subsets and reversed orderings for <= 4 streams, "
                         "duplicates, absent, PAT/PMT PID, empty) x pointer_field {0,1,5,100} x single/two/multi-packet carriages in both stuffing styles; TLC checks the input carriage, then the error "
                         "contract (incl. the PIDs named in the error text), output headers, pointer, section bytes, CRC and padding, packet count, inputs untouched; "
                         "RemoveElementaryStreams/Pids/PIDExists on decoded PMTs as a history on one object (queries, removal, queries, second removal, queries; each answer judged against Pmt!Remove at that moment). class = (op, stream bucket, request kind, packets, error)",
                    trace_module="Trace_C14", sigfn=V.default_sig,
                    assumptions=["TLC/SANY and the JVM", "Pmt/Psi/Crc specs (C06, C13)", "elementary PIDs within a PMT are distinct",
                                 "the PIDs named by the error are read from the digits of the error text, in order"])


# ---------------------------------------------------------------- C08

@prop("C08", "Trace_C08")
def c08(ctx):
    V.mc(ctx, "MC_C08", workers=8)
    summ = V.gen_traces(ctx, shards=12)
    V.validate(ctx, "Trace_C08", summ, V.default_sig, par=12, timeout=3000)
    if ctx.tier == "thorough":
        # structured fuzzing: the fuzzer's bytes drive the section generator, coverage of the real decoder steers it;
        # the corpus is regenerated (abstract value + bytes) and judged like every other event
        rows, nrows = V.go_fuzz(ctx, "FuzzC08", 120, parallel=8)
        if nrows:
            summf = V.gen_traces(ctx, shards=8, name="trace-fuzz", extra=["-in", rows])
            V.validate(ctx, "Trace_C08", summf, V.default_sig, par=8, timeout=3000)
    return V.finish(ctx, "model_checking",
                    rule="MC: structural consistency of Scte35!SectionOf (section_length, splice_command_length, descriptor_loop_length, every descriptor_length, CRC residue, adjusted PTS wrap) on "
                         "14 commands x 12 descriptor lists x pts_adjustment x tier. B3: NewSCTE35 on generated sections (splice_null / time_signal / splice_insert in every mode, 0..3 descriptors mixing "
                         "segmentation descriptors - cancelled, program/component mode with 33-bit offsets, 40-bit durations, restriction flags, single UPID / MID lists, sub-segments - and foreign "
                         "descriptors, values biased to high bits, pointer_field 0..5) and on sections outside the supported syntax (other command types, encrypted, wrong table id, non-CUEI identifier, "
                         "commands without a time). TLC first checks bytes = pointer ++ SectionOf(abs), then every getter field by field or the rejection class. "
                         "class = (command kind and mode, descriptor count, result)",
                    trace_module="Trace_C08", sigfn=V.default_sig,
                    assumptions=["TLC/SANY and the JVM", "Wide/Crc modules", "restriction flags are not compared when delivery is not restricted; cw_index and protocol_version have no getter"])


# ---------------------------------------------------------------- C09

def c09_sig(e, reason):
    return V.default_sig(e, reason)


@prop("C09", "Trace_C09", c09_sig)
def c09(ctx):
    V.mc(ctx, "MC_C08", workers=8)
    summ = V.gen_traces(ctx, shards=12)
    V.validate(ctx, "Trace_C09", summ, c09_sig, par=12, timeout=3000)
    if ctx.tier == "thorough":
        # structured fuzzing: the fuzzer's bytes drive the history generator; the corpus is regenerated and judged
        rows, nrows = V.go_fuzz(ctx, "FuzzC09", 120, parallel=8)
        if nrows:
            summf = V.gen_traces(ctx, shards=8, name="trace-fuzz", extra=["-in", rows])
            V.validate(ctx, "Trace_C09", summf, c09_sig, par=8, timeout=3000)
    return V.finish(ctx, "model_checking",
                    rule="MC: structural consistency of Scte35!SectionOf (shared with C08). B3: histories on real signals, created through the API (splice_null / time_signal / splice_insert, 0..2 "
                         "segmentation descriptors) or decoded from generated canonical sections (incl. foreign descriptors), with 6..24 setter calls (every public setter of the signal, command and "
                         "descriptor, flags set and cleared, in-range and out-of-range values) interleaved with UpdateData. Each setter: matching getter = argument truncated to the field width and Data() "
                         "unchanged. Each encoding: bytes = SectionOf(abstract section assembled from all getters read just before), idempotent, Data() updated, decoding the bytes reports the same values, "
                         "a decoded canonical section re-encodes to itself. class = (set, field) or (encode, command type, #descriptors, decoded source)",
                    trace_module="Trace_C09", sigfn=c09_sig,
                    assumptions=["TLC/SANY and the JVM", "Scte35/Wide/Crc modules", "header fields without getter (table id, ssi, private, protocol_version, encryption_algorithm, cw_index) are taken from "
                                 "creation defaults or from the decoded source", "pts_adjustment is compared only when the command carries a time",
                                 "getters are compared for out-of-range arguments only where the API documents truncation (tier, segmentation duration, command PTS)"])


# ---------------------------------------------------------------- C05

def c05_sig(e, reason):
    if reason == "panic":
        return "%s/panic@%s/%s" % (e.get("op", "?"), e.get("site", "?"), V.panic_site(e))
    return "%s/%s" % (e.get("op", "?"), reason)


@prop("C05", "Trace_C05", c05_sig)
def c05(ctx):
    summ = V.gen_traces(ctx, shards=12)
    V.validate(ctx, "Trace_C05", summ, c05_sig, par=12, timeout=3000)
    # inputs chosen by Go's coverage-guided fuzzer over the same entry points: reported inputs and the whole
    # corpus go through the monitored worker and TLC's judgement like the generated ones
    # (thorough tier only: the quick tier stays a deterministic function of VERIF_SEED)
    rows, nrows = (V.go_fuzz(ctx, "FuzzC05", 240, parallel=12) if ctx.tier == "thorough" else (None, 0))
    if nrows:
        summ2 = V.gen_traces(ctx, shards=12, name="trace-fuzz", extra=["-in", rows])
        V.validate(ctx, "Trace_C05", summ2, c05_sig, par=12, timeout=3000)
    ctx.states = max(ctx.states, 0)
    return V.finish(ctx, "exploration",
                    rule="monitored execution in a child process (recover, 4 s deadline, 512 MB heap limit, allocation accounting) of 21 entry-point groups covering every decoding API and, inside each "
                         "call, every getter / printer / re-encoder of the returned object. Inputs: 188-byte arrays with the control-steering bytes enumerated (adaptation_field_control x 17 "
                         "adaptation_field_length values x flags bytes (every 5th quick / all 256 thorough) x first optional length byte in {0,1,183,255}) plus random packets; for each parser well-formed "
                         "vectors of every format and their near misses (truncation at every (quick: strided) length, every leading byte set to 0/1/v-1/v+1/0x7F/0x80/0xFF, bit flips, extensions, the "
                         "vectors of the other formats, empty, random and 'structural' short strings); descriptors of every tag with bodies 0..6; packet streams (PAT+PMT+foreign) cut and corrupted the "
                         "same way. Every recorded execution is judged by TLC against Totality (outcome in {value,error}, read-only inputs untouched, allocation <= 2 MiB + 4096 x input length (what printing the returned object allocates is accounted apart, <= 256 MiB + 4096 x), growth of the goroutine stack <= 1 MiB + 16 x input length; a worker ended by a "
                         "fatal runtime error - stack overflow, out of memory - that shows again in a fresh worker is the library's failure). Stream readers also see 1 MiB / 16 MiB streams given as a repeated unit "
                         "(sync bytes only, reserved-PID headers, zeros, null packets, continuation packets). "
                         "In addition Go's coverage-guided fuzzer (FuzzC05, thorough tier only, 240 s, fresh corpus each run) chooses inputs for the same entry points; every input it reports and its whole "
                         "corpus are executed again by the monitored worker and judged the same way. class = (entry point, input source, length bucket, outcome)",
                    trace_module="Trace_C05", sigfn=c05_sig,
                    assumptions=["level is exploration: a TLA+ model cannot observe Go panics/loops; the specification supplies the contract and the structure of the input space",
                                 "hang = no result within 4 s in the worker; oom = live heap above 512 MB", "'a small multiple of the input size' is read as 2 MiB + 4096 x for heap allocation (getters and re-encoders run inside the call; printing is only required not to panic and is accounted apart - String() of 255 components allocates 32 MB by repeated concatenation while holding 25 KB), 512 MB for the live heap, and 16 x for stack depth", "parsers are read-only with respect to the caller's buffer, including the printing and re-encoding of the returned object"])


# ---------------------------------------------------------------- X01 (spec growth, not a listed property)

@prop("X01", "Trace_X01")
def x01(ctx):
    V.mc(ctx, "MC_X01", workers=12)
    summ = V.gen_traces(ctx, shards=8)
    V.validate(ctx, "Trace_X01", summ, V.default_sig, par=8, timeout=3000)
    return V.finish(ctx, "exploration",
                    rule="system-level composition Demux: random single-program multiplexes (leading garbage, foreign packets, a stale PMT before the PAT, a PMT unit tail after it, "
                         "PMT carriages with every stuffing style, SCTE-35 sections on the signalled PID, partial tail); Sync, ReadPAT, ReadPMT and NewSCTE35 are applied in the order of "
                         "cli/parsefile.go and TLC checks each result against the composition of Sync!First, Pat, Pmt carriage and the multiplexed sections. class = (#signals, results)",
                    trace_module="Trace_X01", sigfn=V.default_sig,
                    assumptions=["not one of the given properties: reported for information; not registered in MANIFEST.json"])


# ---------------------------------------------------------------- X02 (spec growth, not a listed property)

@prop("X02", "Trace_X02")
def x02(ctx):
    summ = V.gen_traces(ctx, shards=8)
    V.validate(ctx, "Trace_X02", summ, V.default_sig, par=8)
    ctx.states = 0
    return V.finish(ctx, "exploration",
                    rule="SetAdaptationFieldControl(01|10|11) on packets of every adaptation_field_length 0..183, payload-only, AF-only and completely full fields; TLC checks the result byte for byte "
                         "against TsPacket!ExpectSetAfc. class = (packet kind, from, to, error)",
                    trace_module="Trace_X02", sigfn=V.default_sig,
                    assumptions=["not one of the given properties: the operation is modelled as the library has it; not registered in MANIFEST.json"])


# ---------------------------------------------------------------- X03 (spec growth, not a listed property)

@prop("X03", "Trace_X03")
def x03(ctx):
    summ = V.gen_traces(ctx, shards=12)
    V.validate(ctx, "Trace_X03", summ, V.default_sig, par=12)
    ctx.states = 0
    return V.finish(ctx, "exploration",
                    rule="the histories of C10 (all short ProcessDescriptor histories over the 50-descriptor alphabet + random long ones); TLC carries Scte35State along each history and "
                         "compares the validation error returned with the closed list (missing out / invalid resumption / none) with Scte35State!Warn. class = (op, type, result, #closed, #open)",
                    trace_module="Trace_X03", sigfn=V.default_sig,
                    assumptions=["not one of the given properties: the validation verdict is modelled as the library has it; not registered in MANIFEST.json"])


@prop("X04", "Trace_X04")
def x04(ctx):
    summ = V.gen_traces(ctx, shards=12)
    V.validate(ctx, "Trace_X04", summ, V.default_sig, par=12)
    ctx.states = 0
    return V.finish(ctx, "exploration",
                    rule="PES packets (eight stream ids, every PTS/DTS form, stuffing, data 0..920 bytes; PES_packet_length exact, 0 = unbounded, ending inside the data, longer than sent) cut into "
                         "transport packets at random fragment sizes with adaptation-field stuffing, continuation packets of an earlier unit in front, an adaptation-field-only packet in between, "
                         "the next unit behind; written to a real accumulator under the 'PES packet complete' predicate. TLC folds Accumulator!WriteF under PesCarriage!PesDone over the packets and "
                         "compares the per-packet results and the gathered bytes; when they are a well-formed PES start, the getters of NewPESHeader (queried in a recorded order) must equal Pes. "
                         "class = (length variant, last result, header decoded)",
                    trace_module="Trace_X04", sigfn=V.default_sig,
                    assumptions=["not one of the given properties (composition of C17 and C11); not registered in MANIFEST.json"])

