"""Shared machinery for /verif/bin/check.

Pipeline per property (see DESIGN.md section 2):
  1. rebuild the Go harness against /repo's working tree (-tags verif)
  2. MC   : TLC model-checks the specification itself (bounded, exhaustive)
  3. B1   : TLC emits decision tables, the harness compares the real code exhaustively
  4. B2   : TLC-generated behaviours are replayed on the real code
  5. B3   : the harness drives the real code and TLC validates every recorded event
  6. verdicts: failures -> signatures -> known findings / replay-confirmed VIOLATION
  7. evidence/<id>.json

Exit status: 0 held, 1 violation (VIOLATION line printed), 2 machinery broken.
"""
import concurrent.futures as cf
import hashlib
import json
import os
import re
import shutil
import subprocess
import sys
import time

VERIF = os.path.dirname(os.path.dirname(os.path.abspath(__file__)))
SPEC = os.path.join(VERIF, "spec")
HARNESS = os.path.join(VERIF, "harness")
# The registered commands use the defaults: /repo's working tree, /verif/run, /verif/evidence.
# bin/seedrun overrides them to judge a seeded change in a scratch worktree without touching
# /repo or the committed evidence.
REPO = os.environ.get("VERIF_REPO") or "/repo"
RUN = os.environ.get("VERIF_RUN") or os.path.join(VERIF, "run")
REPLAYS = os.environ.get("VERIF_REPLAYS") or os.path.join(VERIF, "replays")
EVIDENCE = os.environ.get("VERIF_EVIDENCE") or os.path.join(VERIF, "evidence")
KNOWN = os.path.join(VERIF, "known_findings.json")
BIN = os.path.join(RUN, "bin", "gotsverif")

GOENV = dict(GOFLAGS="-mod=mod", GOPROXY="off", GOSUMDB="off", GOTOOLCHAIN="local",
             CGO_ENABLED="0")
TLC_CP = "/opt/veriftools/tla/tla2tools.jar:/opt/veriftools/tla/CommunityModules-deps.jar"


class Broken(Exception):
    """The machinery failed (never a verdict about the code)."""


def log(msg):
    print(msg, flush=True)


def sh(cmd, env=None, cwd=None, timeout=None, check=False):
    e = dict(os.environ)
    e.update(GOENV)
    if env:
        e.update(env)
    try:
        p = subprocess.run(cmd, cwd=cwd, env=e, stdout=subprocess.PIPE, stderr=subprocess.STDOUT,
                           timeout=timeout, text=True, errors="replace")
    except subprocess.TimeoutExpired as ex:
        out = ex.stdout or ""
        if isinstance(out, bytes):
            out = out.decode("utf8", "replace")
        raise Broken("timeout after %ss: %s\n%s" % (timeout, " ".join(cmd)[:200], out[-2000:]))
    if check and p.returncode != 0:
        raise Broken("command failed (%d): %s\n%s" % (p.returncode, " ".join(cmd)[:300], p.stdout[-4000:]))
    return p.returncode, p.stdout


class Ctx:
    def __init__(self, pid, tier, seed):
        self.pid = pid
        self.tier = tier
        self.seed = seed
        self.t0 = time.time()
        self.dir = os.path.join(RUN, pid, tier)
        shutil.rmtree(self.dir, ignore_errors=True)
        os.makedirs(self.dir, exist_ok=True)
        os.makedirs(REPLAYS, exist_ok=True)
        os.makedirs(EVIDENCE, exist_ok=True)
        self.states = 0          # distinct states over all MC runs
        self.transitions = 0     # states generated (= transitions explored)
        self.mc_runs = []
        self.events = 0
        self.histories = 0
        self.classes = {}
        self.samples = []
        self.table_rows = 0
        self.table_compared = 0
        self.replayed_behaviours = 0
        self.replayed_steps = 0
        self.exhaustive = False
        self.failures = []       # dicts: kind, sig, reason, event(s), replayable
        self.notes = []
        self.apalache = []
        self.cmds = []
        self.ntlc = 0
        self.skipped = 0

    def sub(self, name):
        d = os.path.join(self.dir, name)
        os.makedirs(d, exist_ok=True)
        return d


# ------------------------------------------------------------------ build

def build_harness(ctx):
    os.makedirs(os.path.dirname(BIN), exist_ok=True)
    src = HARNESS
    if REPO != "/repo":
        # build a private copy of the harness whose go.mod points at the other tree
        src = os.path.join(RUN, "harness-src")
        shutil.rmtree(src, ignore_errors=True)
        shutil.copytree(HARNESS, src)
        gm = open(os.path.join(src, "go.mod")).read().replace("=> /repo", "=> " + REPO)
        open(os.path.join(src, "go.mod"), "w").write(gm)
    gosum = os.path.join(REPO, "go.sum")
    if os.path.exists(gosum):
        shutil.copy(gosum, os.path.join(src, "go.sum"))
    t = time.time()
    rc, out = sh(["go", "build", "-tags", "verif", "-o", BIN, "."], cwd=src, timeout=900)
    if rc != 0:
        raise Broken("harness does not build against /repo's working tree:\n" + out[-3000:])
    ctx.notes.append("harness built in %.1fs" % (time.time() - t))


def go_fuzz(ctx, fuzz, seconds, parallel=8):
    """Coverage-guided input generation with Go's native fuzzer (an input source only: everything it finds is
    executed again by the monitored pipeline).  Returns an ndjson file of rows (crashers first, then corpus)."""
    src = os.path.join(ctx.dir, "harness-fuzz")
    shutil.rmtree(src, ignore_errors=True)
    shutil.copytree(HARNESS, src)
    modname = "gotsverif_fz%d" % os.getpid()     # a private fuzz-cache directory per run
    gm = open(os.path.join(src, "go.mod")).read().replace("=> /repo", "=> " + REPO).replace("module gotsverif", "module " + modname)
    open(os.path.join(src, "go.mod"), "w").write(gm)
    gosum = os.path.join(REPO, "go.sum")
    if os.path.exists(gosum):
        shutil.copy(gosum, os.path.join(src, "go.sum"))
    rc, cache = sh(["go", "env", "GOCACHE"], cwd=src)
    corpus = os.path.join(cache.strip(), "fuzz", modname, fuzz)
    shutil.rmtree(os.path.dirname(corpus), ignore_errors=True)
    t = time.time()
    try:
        rc, out = sh(["go", "test", "-tags", "verif", "-run", "^$", "-fuzz", "^%s$" % fuzz, "-fuzztime", "%ds" % seconds,
                      "-parallel", str(parallel), "."], cwd=src, timeout=seconds + 900)
    except Broken as ex:
        shutil.rmtree(os.path.dirname(corpus), ignore_errors=True)
        raise
    execs = 0
    for m in re.finditer(r"execs: (\d+)", out):
        execs = max(execs, int(m.group(1)))
    crash = os.path.join(src, "testdata", "fuzz", fuzz)
    rows = os.path.join(ctx.dir, "fuzz.rows.ndjson")
    rows2 = rows + ".corpus"
    sh([BIN, "fuzzcorpus", rows, "fuzz-crasher", crash], check=True)
    sh([BIN, "fuzzcorpus", rows2, "fuzz-corpus", corpus], check=True)
    with open(rows, "a") as f:
        f.write(open(rows2).read())
    os.remove(rows2)
    ncrash = len(os.listdir(crash)) if os.path.isdir(crash) else 0
    nrows = sum(1 for _ in open(rows))
    shutil.rmtree(os.path.dirname(corpus), ignore_errors=True)
    shutil.rmtree(src, ignore_errors=True)
    if rc != 0 and ncrash == 0:
        raise Broken("go fuzzing failed without reporting an input:\n" + out[-2500:])
    ctx.notes.append("go fuzz %s: %ds, %d executions, %d reported input(s), %d corpus rows" % (fuzz, seconds, execs, ncrash, nrows - ncrash))
    log("  FUZZ %-20s %ds  %d execs, %d reported, %d corpus entries  %.1fs" % (fuzz, seconds, execs, ncrash, nrows - ncrash, time.time() - t))
    return rows, nrows


# ------------------------------------------------------------------ TLC

def tlc(ctx, module, cfg=None, env=None, workers=1, timeout=600, xmx="2g", extra=None, simulate=None):
    """Run TLC on spec/<module>.tla in a private metadir. Returns stdout."""
    ctx.ntlc += 1
    md = os.path.join(ctx.dir, "md", "%s.%d" % (module, ctx.ntlc))
    os.makedirs(md, exist_ok=True)
    # java.io.tmpdir: TLC unpacks its standard modules into a fresh tlc-* directory per run; keep it inside the
    # metadir (removed below) instead of littering /tmp
    cmd = ["java", "-XX:+UseParallelGC", "-Xss512m", "-Xmx" + xmx, "-Djava.io.tmpdir=" + md, "-cp", TLC_CP, "tlc2.TLC",
           "-workers", str(workers), "-metadir", md, "-noGenerateSpecTE"]
    if cfg:
        cmd += ["-config", cfg]
    if simulate:
        cmd += ["-simulate", simulate]
    if extra:
        cmd += extra
    cmd.append(module + ".tla")
    ctx.cmds.append(" ".join(cmd[7:]))
    rc, out = sh(cmd, env=env, cwd=SPEC, timeout=timeout)
    shutil.rmtree(md, ignore_errors=True)
    return rc, out


STATES_RE = re.compile(r"(\d+) states generated, (\d+) distinct states found")


def mc(ctx, module, cfg=None, workers=8, timeout=1800, xmx="6g", coverage=False):
    """Model-check the spec itself; any failure is a broken oracle, not a code verdict."""
    extra = ["-coverage", "1"] if coverage else None
    t = time.time()
    rc, out = tlc(ctx, module, cfg=cfg, workers=workers, timeout=timeout, xmx=xmx, extra=extra)
    m = None
    for m in STATES_RE.finditer(out):
        pass
    if rc != 0 or "No error has been found" not in out or m is None:
        raise Broken("model checking %s (%s) failed, rc=%d:\n%s" % (module, cfg, rc, out[-3000:]))
    gen, dist = int(m.group(1)), int(m.group(2))
    ctx.states += dist
    ctx.transitions += gen
    run = dict(module=module, cfg=cfg or module + ".cfg", generated=gen, distinct=dist,
               wall_s=round(time.time() - t, 1))
    if coverage:
        zero = [ln.strip() for ln in out.splitlines() if re.search(r"^<\w+ line .*>: 0:0$", ln.strip())]
        run["zero_coverage_actions"] = zero
        if zero:
            raise Broken("vacuous model: actions never taken in %s: %s" % (module, zero))
    ctx.mc_runs.append(run)
    log("  MC %-22s %9d generated %9d distinct  %.1fs" % (cfg or module, gen, dist, time.time() - t))
    return out


def tlc_emit(ctx, module, outfile, prefix="TAB ", cfg=None, timeout=1800, xmx="6g", workers=1, simulate=None, extra=None):
    """Run a generator spec; lines printed as PrintT("TAB <json>") are collected into outfile (ndjson)."""
    t = time.time()
    rc, out = tlc(ctx, module, cfg=cfg, workers=workers, timeout=timeout, xmx=xmx, simulate=simulate, extra=extra)
    n = 0
    with open(outfile, "w") as f:
        for ln in out.splitlines():
            ln = ln.strip()
            if ln.startswith('"' + prefix):
                # PrintT of a string prints it quoted with escapes
                try:
                    s = json.loads(ln)
                except Exception:
                    raise Broken("cannot parse generator line: " + ln[:200])
                f.write(s[len(prefix):] + "\n")
                n += 1
    ok = ("No error has been found" in out) or (simulate and rc == 0) or ("Finished in" in out and "Error:" not in out)
    if not ok or n == 0:
        raise Broken("generator %s failed rc=%d rows=%d:\n%s" % (module, rc, n, out[-3000:]))
    m = None
    for m in STATES_RE.finditer(out):
        pass
    if m:
        ctx.states += int(m.group(2))
        ctx.transitions += int(m.group(1))
    log("  GEN %-21s %9d rows  %.1fs" % (module, n, time.time() - t))
    return n


FAIL_RE = re.compile(r'^"FAIL (\d+) (.*)"$')
DONE_RE = re.compile(r'^"DONE (\d+)"$')


def validate_shard(ctx, module, path, timeout, xmx):
    rc, out = tlc(ctx, module, env={"VERIF_TRACE": path}, workers=1, timeout=timeout, xmx=xmx)
    fails, done = [], None
    for ln in out.splitlines():
        ln = ln.strip()
        if ln.startswith('"SKIP '):
            ctx.skipped += 1
            continue
        m = FAIL_RE.match(ln)
        if m:
            fails.append((int(m.group(1)), m.group(2)))
            continue
        m = DONE_RE.match(ln)
        if m:
            done = int(m.group(1))
    if rc != 0 or done is None or "No error has been found" not in out:
        raise Broken("trace validation %s on %s did not complete (rc=%d):\n%s" % (module, path, rc, out[-3000:]))
    return fails, done


def read_ndjson(path):
    with open(path) as f:
        return [json.loads(x) for x in f if x.strip()]


class Hang(Exception):
    """A call into the library did not return (the harness watchdog stopped the run, exit status 3)."""
    def __init__(self, failure):
        Exception.__init__(self, failure["sig"])
        self.failure = failure


def hang_failure(ctx, outdir, how, tabfile=None):
    path = os.path.join(outdir, "hang.ndjson")
    if not os.path.exists(path):
        return None
    hist = read_ndjson(path)
    if not hist:
        return None
    op = hist[0].get("op") or ("behaviour" if "steps" in hist[0] else "call")
    return dict(kind=how, reason="call-did-not-return", event=hist[0], history=hist, sig="%s/call-did-not-return" % op)


def finish_hang(ctx, failure):
    """Confirm a hang by running the same history / row again in a fresh process; only then it is a violation."""
    h = hashlib.sha1(failure["sig"].encode()).hexdigest()[:10]
    inp = os.path.join(ctx.dir, "hang-%s.in.ndjson" % h)
    with open(inp, "w") as f:
        for e in failure["history"]:
            f.write(json.dumps(e) + "\n")
    env = {"VERIF_HANG_S": "30"}
    if failure["kind"] == "hang-table":
        rc, o = sh([BIN, "table", ctx.pid, "-in", inp, "-out", inp + ".out", "-tier", ctx.tier, "-seed", str(ctx.seed)], timeout=600, env=env)
    else:
        rc, o = sh([BIN, "replay", ctx.pid, "-in", inp, "-out", inp + ".out"], timeout=600, env=env)
    if rc != 3:
        raise Broken("a call did not return during the run (%s) but the same input returned on replay (rc=%d)" % (failure["sig"], rc))
    ctx.failures.append(failure)
    return finish(ctx, "exploration", rule="the run was stopped by the harness watchdog: a call into the library did not return within the time limit; "
                                            "confirmed by executing the same input again in a fresh process")


def gen_traces(ctx, shards=8, name="trace", extra=None):
    out = ctx.sub(name)
    cmd = [BIN, "gen", ctx.pid, "-tier", ctx.tier, "-seed", str(ctx.seed), "-out", out, "-shards", str(shards)]
    if extra:
        cmd += extra
    t = time.time()
    rc, o = sh(cmd, timeout=3600)
    if rc == 3:
        hf = hang_failure(ctx, out, "hang")
        if hf:
            raise Hang(hf)
    if rc != 0:
        raise Broken("trace generation failed rc=%d:\n%s" % (rc, o[-3000:]))
    summ = json.load(open(os.path.join(out, "summary.json")))
    ctx.events += summ["events"]
    ctx.histories += summ["histories"]
    for k, v in summ["classes"].items():
        ctx.classes[k] = ctx.classes.get(k, 0) + v
    for s in summ.get("samples") or []:
        if len(ctx.samples) < 6:
            ctx.samples.append(slim_sample(s))
    log("  B3 gen: %d histories, %d events, %d classes  %.1fs" % (summ["histories"], summ["events"], len(summ["classes"]), time.time() - t))
    return summ


def slim(e, maxlen=48):
    """Shorten long arrays in a sample event for the evidence file."""
    if isinstance(e, dict):
        return {k: slim(v, maxlen) for k, v in e.items()}
    if isinstance(e, list):
        if len(e) > maxlen:
            return [slim(x, maxlen) for x in e[:maxlen]] + ["...(%d more)" % (len(e) - maxlen)]
        return [slim(x, maxlen) for x in e]
    return e


def slim_sample(e):
    """A sample for the evidence file: arrays shortened until the sample is of readable size."""
    for m in (48, 24, 12, 6, 3):
        out = slim(e, m)
        if len(json.dumps(out)) <= 6000:
            return out
    return out


def validate(ctx, module, summ, sigfn, timeout=1800, xmx="3g", par=8):
    """B3: TLC validates every shard; failures are attached to their histories."""
    t = time.time()
    shards = [s for s, n in zip(summ["shards"], summ["shard_lens"]) if n > 0]
    results = {}
    with cf.ThreadPoolExecutor(max_workers=par) as ex:
        futs = {ex.submit(validate_shard, ctx, module, s, timeout, xmx): s for s in shards}
        for fu in cf.as_completed(futs):
            results[futs[fu]] = fu.result()
    nfail = 0
    total = 0
    for s in shards:
        fails, done = results[s]
        total += done
        if not fails:
            continue
        evs = read_ndjson(s)
        by_h = {}
        for x in evs:
            by_h.setdefault(x.get("h"), []).append(x)
        per_sig = {}
        for line, reason in fails:
            e = evs[line - 1]
            if e.get("panic") == "skipped-after-panic":
                continue          # the history already ended with a reported panic
            sig = sigfn(e, reason)
            nfail += 1
            per_sig[sig] = per_sig.get(sig, 0) + 1
            if per_sig[sig] > 25:
                # enough material to confirm and report this signature; only count the rest
                ctx.failures.append(dict(kind="trace", module=module, reason=reason, event=e, history=None, context=None, sig=sig))
                continue
            hist = sorted(by_h.get(e.get("h"), []), key=lambda x: x.get("i", 0))
            # the history up to and including the failing step
            hist = [x for x in hist if x.get("i", 0) <= e.get("i", 0)]
            # context (the histories executed just before it in the generating process, which live in the other
            # shards) is collected lazily by context_of() when the failure has to be confirmed
            ctx.failures.append(dict(kind="trace", module=module, reason=reason, event=e, history=hist, context=None,
                                     shards=summ["shards"], sig=sig))
    if total != summ["events"]:
        raise Broken("validated %d lines but %d events were generated" % (total, summ["events"]))
    log("  B3 validate %-16s %d events in %d shards, %d rejected  %.1fs" % (module, total, len(shards), nfail, time.time() - t))


def table_compare(ctx, tabfile, name="table", sigfn=None, as_behaviours=False):
    """B1: the harness compares a TLC-emitted table with the real code."""
    out = os.path.join(ctx.dir, name + ".report.json")
    t = time.time()
    rc, o = sh([BIN, "table", ctx.pid, "-in", tabfile, "-out", out, "-tier", ctx.tier, "-seed", str(ctx.seed)], timeout=3600)
    if rc == 3:
        hf = hang_failure(ctx, os.path.dirname(out), "hang-table")
        if hf:
            raise Hang(hf)
    if rc != 0:
        raise Broken("table comparison failed rc=%d:\n%s" % (rc, o[-3000:]))
    rep = json.load(open(out))
    if as_behaviours:
        ctx.replayed_behaviours += rep["rows"]
        ctx.replayed_steps += rep["compared"]
    else:
        ctx.table_rows += rep["rows"]
        ctx.table_compared += rep["compared"]
    for k, v in (rep.get("classes") or {}).items():
        ctx.classes[k] = ctx.classes.get(k, 0) + v
    for s in rep.get("samples") or []:
        if len(ctx.samples) < 8:
            ctx.samples.append(slim_sample(s))
    for mm in rep.get("mismatches") or []:
        reason = mm.get("reason", "table-mismatch")
        sig = sigfn(mm, reason) if sigfn else "%s/%s" % (mm.get("op", "table"), reason)
        ctx.failures.append(dict(kind="table", reason=reason, event=mm, history=[mm], sig=sig))
    log("  %s %-18s %d rows, %d comparisons, %d mismatches%s  %.1fs" % (
        "B2 replay" if as_behaviours else "B1 table", name, rep["rows"], rep["compared"], len(rep.get("mismatches") or []),
        " (exhaustive)" if rep.get("exhaustive") else "", time.time() - t))
    return rep


# ------------------------------------------------------------------ verdicts

def load_known(pid):
    if not os.path.exists(KNOWN):
        return []
    data = json.load(open(KNOWN))
    return [k for k in data.get("findings", []) if k.get("property") == pid and k.get("status") == "known"]


def known_match(known, sig):
    for k in known:
        if k.get("signature") == sig:
            return k
        pat = k.get("signature_regex")
        if pat and re.fullmatch(pat, sig):
            return k
    return None


def context_of(failure, depth=8):
    """The histories that ran just before the failing one in the generating process (history ids are handed out
    in execution order and dealt round-robin to the shard files). Replayed in front of it, not judged."""
    if failure.get("context") is not None:
        return failure["context"]
    ctxt = []
    shards = failure.get("shards") or []
    h0 = failure["event"].get("h")
    if shards and isinstance(h0, int):
        want = [h for h in range(max(0, h0 - depth), h0)]
        by_file = {}
        for h in want:
            by_file.setdefault(shards[h % len(shards)], set()).add(h)
        found = {}
        for path, hs in by_file.items():
            pats = tuple('"h":%d,' % h for h in hs)
            try:
                with open(path) as f:
                    for ln in f:
                        if any(p in ln for p in pats):
                            e = json.loads(ln)
                            if e.get("h") in hs:
                                found.setdefault(e["h"], []).append(e)
            except OSError:
                pass
        for h in want:
            ctxt += sorted(found.get(h, []), key=lambda x: x.get("i", 0))
    failure["context"] = ctxt
    return ctxt


def write_history_twice(path, history, context=None):
    """The failing history (preceded by the history that ran just before it), executed twice in one fresh
    process: a failure that needs library-internal state left behind by earlier calls (pools, reused
    buffers) shows again."""
    with open(path, "w") as f:
        for _ in range(2):
            for hist in (context or [], history):
                for e in hist:
                    e = dict(e)
                    e["first"] = e.get("i", 0) == 0
                    f.write(json.dumps(e) + "\n")


def confirm(ctx, failure, trace_module, sigfn):
    """Re-execute the failing history on a fresh process and re-validate it with TLC."""
    if failure["kind"] != "trace":
        return True   # table mismatches are recomputed by --replay
    h = hashlib.sha1(failure["sig"].encode()).hexdigest()[:10]
    inp = os.path.join(ctx.dir, "confirm-%s.in.ndjson" % h)
    outp = os.path.join(ctx.dir, "confirm-%s.out.ndjson" % h)
    write_history_twice(inp, failure["history"], context_of(failure))
    rc, o = sh([BIN, "replay", ctx.pid, "-in", inp, "-out", outp], timeout=600)
    if rc != 0:
        raise Broken("replay failed: " + o[-2000:])
    fails, done = validate_shard(ctx, trace_module, outp, 600, "2g")
    evs = read_ndjson(outp)
    for line, reason in fails:
        if sigfn(evs[line - 1], reason) == failure["sig"]:
            return True
    return False


def write_replay(ctx, failure):
    h = hashlib.sha1(failure["sig"].encode()).hexdigest()[:10]
    path = os.path.join(REPLAYS, "%s-%s.json" % (ctx.pid, h))
    with open(path, "w") as f:
        json.dump(dict(property=ctx.pid, signature=failure["sig"], reason=failure["reason"], kind=failure["kind"],
                       module=failure.get("module"), history=failure["history"], context=context_of(failure) if failure.get("kind") == "trace" else []), f)
    return path


def finish(ctx, level, rule, trace_module=None, sigfn=None, assumptions=None, extra_cov=None):
    known = load_known(ctx.pid)
    by_sig = {}
    for f in ctx.failures:
        by_sig.setdefault(f["sig"], []).append(f)
    violations = []
    known_hits = {}
    for sig, fs in sorted(by_sig.items()):
        k = known_match(known, sig)
        if k is not None:
            known_hits[sig] = (k, len(fs))
            continue
        if sig.startswith("harness-") or "/harness-" in sig or "harness-panic" in json.dumps(fs[0]["event"].get("panic", "")):
            raise Broken("harness produced an ill-formed event: %s: %s" % (sig, json.dumps(slim(fs[0]["event"]))[:600]))
        if trace_module:
            # a failure may depend on what ran before it in the process: try a few occurrences
            ok = None
            for cand in fs[:4]:
                if confirm(ctx, cand, trace_module, sigfn):
                    ok = cand
                    break
            if ok is None:
                raise Broken("failure %s was not reproduced by replay" % sig)
            fs = [ok] + [x for x in fs if x is not ok]
        violations.append((sig, fs))
    for sig, (k, n) in sorted(known_hits.items()):
        log("KNOWN-FINDING: property=%s %s [signature %s, %d occurrence(s) this run]" % (ctx.pid, k.get("what_fails", ""), sig, n))
    for sig, fs in violations[:25]:
        path = write_replay(ctx, fs[0])
        log("  violation signature %s (%d occurrence(s)); first: %s" % (sig, len(fs), json.dumps(slim(fs[0]["event"], 24))[:700]))
        log("VIOLATION property=%s replay=%s" % (ctx.pid, path))
    wall = round(time.time() - ctx.t0, 1)
    cov = dict(
        states=ctx.states, transitions=ctx.transitions,
        traces_validated_against_impl=ctx.histories + ctx.replayed_behaviours,
        evaluations=ctx.events + ctx.table_compared + ctx.replayed_steps,
        distinct_nontrivial=len(ctx.classes),
        rule=rule,
        samples=ctx.samples[:8] or [{"note": "no samples recorded"}],
        exhaustive=bool(ctx.exhaustive),
        checker_cmd="bin/check %s --tier %s" % (ctx.pid, ctx.tier),
        mc_runs=ctx.mc_runs,
        trace_events_validated_by_tlc=ctx.events,
        table_rows_from_tlc=ctx.table_rows, table_comparisons_on_code=ctx.table_compared,
        spec_behaviours_replayed_on_code=ctx.replayed_behaviours, spec_steps_replayed_on_code=ctx.replayed_steps,
        classes=dict(sorted(ctx.classes.items())[:400]),
        known_findings_seen=sorted(known_hits.keys()),
        apalache=ctx.apalache,
        notes=ctx.notes,
        tlc_invocations=ctx.ntlc,
        trace_events_skipped_by_spec=ctx.skipped,
    )
    if extra_cov:
        cov.update(extra_cov)
    ev = dict(property_id=ctx.pid, tier=ctx.tier, seed=ctx.seed, level=level, coverage=cov,
              assumptions=assumptions or [], wall_s=wall, violations=len(violations))
    with open(os.path.join(EVIDENCE, ctx.pid + ".json"), "w") as f:
        json.dump(ev, f, indent=1)
    if not violations:
        shutil.rmtree(ctx.dir, ignore_errors=True)
    log("%s %s tier=%s seed=%d: %s in %.1fs (states=%d events=%d classes=%d known=%d)" % (
        "FAIL" if violations else "PASS", ctx.pid, ctx.tier, ctx.seed,
        "%d violation signature(s)" % len(violations) if violations else "property held on everything explored",
        wall, ctx.states, ctx.events + ctx.table_compared, len(ctx.classes), len(known_hits)))
    return 1 if violations else 0


def panic_site(e):
    """Normalised panic text of an event (numbers removed) so that a signature names the failure, not the input."""
    return re.sub(r"\d+", "N", str(e.get("panic", "")))[:120]


def default_sig(e, reason):
    if reason == "panic":
        return "%s/%s" % (e.get("op", "?"), panic_site(e))
    return "%s/%s" % (e.get("op", "?"), reason)


# ------------------------------------------------------------------ Apalache

def apalache(ctx, module, init, inv, length=0, cinit=None, timeout=600):
    out_dir = ctx.sub("apalache")
    cmd = ["apalache-mc", "check", "--init=" + init, "--inv=" + inv, "--length=%d" % length,
           "--out-dir=" + out_dir, "--run-dir=" + out_dir]
    if cinit:
        cmd.append("--cinit=" + cinit)
    cmd.append(module + ".tla")
    t = time.time()
    try:
        rc, out = sh(cmd, cwd=SPEC, timeout=timeout, env={"JVM_ARGS": "-Xmx4g -Djava.io.tmpdir=" + out_dir, "TMPDIR": out_dir})  # TMPDIR: the launcher's mktemp (SANY* directories) stays inside the run directory
    except Broken as ex:
        ctx.apalache.append(dict(module=module, inv=inv, result="timeout", wall_s=round(time.time() - t, 1)))
        log("  APALACHE %s %s: timeout (recorded, not a verdict)" % (module, inv))
        return None
    ok = "The outcome is: NoError" in out
    ctx.apalache.append(dict(module=module, init=init, inv=inv, length=length, result="NoError" if ok else "failed",
                             wall_s=round(time.time() - t, 1)))
    for junk in ("_apalache-out", ".tlacache"):
        shutil.rmtree(os.path.join(SPEC, junk), ignore_errors=True)
    if not ok:
        raise Broken("Apalache did not prove %s!%s:\n%s" % (module, inv, out[-2500:]))
    log("  APALACHE %-18s %-22s NoError  %.1fs" % (module, inv, time.time() - t))
    return True
