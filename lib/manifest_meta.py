HOOK_COMMITS = []
NOTES = ("All checks share bin/check: TLC model-checks the TLA+ specification, the Go harness (harness/, built against /repo's working tree) "
         "drives the real code, and TLC validates every recorded event against the specification. Exit 2 + BROKEN line = machinery failure, never a verdict. "
         "known_findings.json lists genuine defects (status known / fixed).")
NOT_APPLICABLE = {}
TB = "Trusted: TLC/SANY (and Apalache/Z3 where used), the JVM, the Go toolchain, the TLA+ transcription of the standards (cross-checked by model checking two formulations), and that the harness logs real return values. Bounded: values/histories beyond those enumerated or sampled are not explored."
CHECKS = {
 "C15": dict(level="model_checking", design_ref="DESIGN.md 4/C15",
   technique="TLA+ spec PtsCore: TLC exhaustive on scaled timeline + Apalache symbolic at real 2^33 width; TLC trace validation of real gots.PTS calls",
   text="The laws of C15 are written once (PtsCore) over an abstract numeric back-end. TLC checks them for all pairs/distances of a scaled timeline, Apalache proves them for all 33-bit values symbolically, and every recorded call of the real PTS methods on boundary-dense and random values is validated by TLC against the same text (module Wide supplies 33-bit arithmetic).",
   note=TB),
}
