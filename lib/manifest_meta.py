HOOK_COMMITS = []
NOTES = ("All checks share bin/check: TLC model-checks the TLA+ specification, the Go harness (harness/, built against /repo's working tree) "
         "drives the real code, and TLC validates every recorded event against the specification. Exit 2 + BROKEN line = machinery failure, never a verdict. "
         "known_findings.json lists genuine defects (status known / fixed).")
NOT_APPLICABLE = {}
TB = "Trusted: TLC/SANY (and Apalache/Z3 where used), the JVM, the Go toolchain, the TLA+ transcription of the standards (cross-checked by model checking two formulations), and that the harness logs real return values. Bounded: values/histories beyond those enumerated or sampled are not explored."
CHECKS = {
 "C15": dict(level="model_checking", design_ref="DESIGN.md 4/C15",
   technique="TLA+ spec PtsCore: TLC exhaustive on scaled timeline + Apalache symbolic at real 2^33 width; TLC trace validation of real gots.PTS calls",
   text="The laws of C15 are written once (PtsCore) over an abstract numeric back-end. TLC checks them for all pairs/distances of a scaled timeline, Apalache proves them for all 33-bit values symbolically, and every recorded call of the real PTS methods on boundary-dense and random values is validated by TLC against the same text (module Wide supplies 33-bit arithmetic).",
   note=TB),
 "C01": dict(level="model_checking", design_ref="DESIGN.md 4/C01",
   technique="TLA+ spec TsHeader (bit-field table of ISO 13818-1): TLC frame/partition model checking; TLC-emitted getter tables compared exhaustively over header bytes x values on the real code; TLC trace validation of setter histories",
   text="The header is specified as a bit-field list; TLC checks that Set changes exactly its field for all boundary headers and setter sequences, emits the complete getter tables, and the harness enumerates every value of the affected header byte(s) x every in-range value against the real getters/setters/CC helpers using table look-ups only; random setter histories with full 188-byte before/after are validated by TLC as spec steps.",
   note=TB),
 "C13": dict(level="model_checking", design_ref="DESIGN.md 4/C13",
   technique="TLA+ spec Crc (bit-serial definition = table form, model-checked); TLC-computed CRC of all strings of length <=2 compared exhaustively; TLC trace validation of ComputeCRC on single-bit/random strings",
   text="CRC-32/MPEG-2 is defined in TLA+ as polynomial division; TLC proves the fast form equal on a bounded space and the catalogue check value, computes the CRC of all 65 793 strings of length 0..2 (compared exhaustively with ComputeCRC), and validates every recorded ComputeCRC call (all single-bit strings to 16 bytes, strides/all at section sizes, random to 1024 bytes) including residue zero of data++crc.",
   note=TB),
 "C19": dict(level="model_checking", design_ref="DESIGN.md 4/C19",
   technique="TLA+ spec SegRules (rule table, in/out, Equal): TLC checks equivalence/congruence laws on the finite abstraction and emits the full 256x256x8 closing table, compared exhaustively on real descriptors; TLC trace validation of Equal/CanClose triples",
   text="The closing relation is a function of (types, event-id-equal, PTS-equal, segnum=segexp); TLC emits all 524 288 rows and the harness checks each on real descriptors built through the public API with every other field randomised (exhaustive over the abstraction). Equality laws are model-checked on the spec and every observed Equal/CanClose value on generated triples is validated by TLC.",
   note=TB),
 "C20": dict(level="model_checking", design_ref="DESIGN.md 4/C20",
   technique="TLA+ spec PmtTypes: TLC-emitted predicate table for all 256 stream types and 4096 Dolby Vision strings compared exhaustively; TLC trace validation of every descriptor decoder on all tags x bodies",
   text="Stream-type predicates and descriptor decoders are specified from the standards' field layouts; the 256-code table and the profile x level codec strings are compared exhaustively, and all 256 tags x generated bodies are run through every decoder with each result validated by TLC (neutral values for foreign tags included).",
   note=TB),
 "C16": dict(level="model_checking", design_ref="DESIGN.md 4/C16",
   technique="TLA+ spec Sync: declarative First(s) + read/unread/peek loop state machine, TLC refinement check on all short streams; TLC trace validation of packet.Sync on all streams <= 6 bytes over a 5-symbol alphabet and random long streams through 4 reader kinds",
   text="The search loop is modelled as a TLA+ state machine and shown by TLC to refine the declarative 'first plausible header' on every stream of bounded length; the real Sync is run on the same bounded-exhaustive stream set and on random streams dense in false sync bytes, and TLC validates offset, reader position and the not-found error for every call.",
   note=TB),
 "C17": dict(level="model_checking", design_ref="DESIGN.md 4/C17",
   technique="TLA+ spec Accumulator (one action per call): TLC exhaustive over histories to depth 4-5 with history-derived invariants; stateful TLC trace validation of random WritePacket/Reset histories on the real accumulator",
   text="C17 is restated as invariants over the recorded call history and model-checked for all bounded histories and predicates; random histories on the real accumulator (all packet shapes, threshold and failing predicates, scribbling over inputs and returned slices) are validated step by step, the spec state being carried along each history.",
   note=TB),
 "C18": dict(level="model_checking", design_ref="DESIGN.md 4/C18",
   technique="TLA+ spec PacketWriter: declarative ExpectWrite/ExpectReadFrom + read-loop state machine, TLC refinement over all fragmentations/error placements/failing positions at scaled packet size; TLC trace validation of the four real adapters",
   text="Every fragmentation of short streams into reader results (incl. data returned with EOF or with a failure) and every failing write position is explored on the loop model against the declarative expectation; the real adapters are driven with scripted readers/writers and each recorded delivery list, result class and byte count is validated by TLC.",
   note=TB),
 "C10": dict(level="model_checking", design_ref="DESIGN.md 4/C10",
   technique="TLA+ spec Scte35State (stack, pending-breakaway marker, duplicate ring; one function per call): TLC exhaustive over histories with C10's clauses as invariants/action properties; stateful TLC trace validation of bounded-exhaustive and random histories on the real scte35.State",
   text="The tracker is specified implementation-shaped; TLC explores every ProcessDescriptor/Close history to depth 4-5 over a descriptor alphabet and checks each clause of C10 on every state and transition. Every process-only history of length <=2 (3) over a 50-descriptor alphabet plus random long histories run on the real State; after each call the error class, the identities returned as closed and the identities listed by Open() must equal the spec's.",
   note=TB),
}
